"""Per-property configuration of the driver (levels, build profiles, wall caps, evidence texts)."""

COMMON_ASSUMPTIONS = [
    "x86_64 host with AVX2: generic, SSE2 and AVX2 code and every dispatcher arm (forced through hook H1) are executed; the NEON backend is not",
    "rustc/LLVM compile the harness and the library the same way a user's build would (release profile; 'chk' adds overflow checks and debug assertions)",
    "the verif-hooks feature only adds code (dispatcher override, sampler snapshot) and does not alter the paths it observes",
]

PROPS = {
    "C01": {
        "level_text": 'Bounded-exhaustive exploration: every (alphabet, length, width, matrix kind, content pattern) point of a stated finite product is scored by all 11 backend/lane/dispatcher-arm configurations and every row sub-range of a menu, and compared with an exact f64 reference and across configurations; plus all 5^L sequences for L<=6. Exploration (not model checking) because the property has no state: the quantifiers are inputs and configurations.',
        "level_note": 'Trusted: the reference model (60 lines, f64 sums), the data-obliviousness argument that lets digit patterns + injective window-encoding matrices stand for all contents, rustc. NEON backend not executed on this host.',
        "technique": 'bounded-exhaustive product enumeration of inputs x backend configurations against a reference model',
        "level": "exploration",
        "profiles": ["rel", "chk"],
        "wall": {"quick": 150, "thorough": 3000},
        "rule": "Bounded-exhaustive product enumeration of shapes/contents/matrices with all backend configurations on every point; counts are kernel invocations, distinct by construction of the mixed-radix index.",
        "assumptions": COMMON_ASSUMPTIONS + [
            "scoring kernels are data-oblivious in control flow, so digit-pattern contents + injective window-encoding matrices decide the position->cell wiring for all contents (DESIGN C01)",
        ],
    },
    "C04": {
        "level_text": 'Model checking of the real StripedSequence buffer: explicit-state BFS to fixpoint over histories of stripe_into (every backend) / configure_wrap / configure / clone with canonical-state de-duplication, every transition checked against a linear-sequence model; plus a complete product enumeration of single stripes for every length 0..=2200 and every striping configuration.',
        "level_note": "Trusted: linear-sequence model; canonical key soundness argument (DESIGN C04); data-obliviousness of striping. Memory-safety side of striping is C06's business.",
        "technique": 'explicit-state BFS by re-execution over buffer histories + product enumeration of lengths/backends',
        "level": "model_checking",
        "profiles": ["rel", "chk"],
        "wall": {"quick": 150, "thorough": 3000},
        "rule": "Product enumeration of single stripes plus explicit-state BFS (to fixpoint) over buffer-reuse histories on one real StripedSequence.",
        "assumptions": COMMON_ASSUMPTIONS + [
            "striping is data-oblivious, so the digit patterns decide the position->cell map for every content",
            "BFS key (length, content id, wrap, capacity class): look-ahead rows are a function of wrap by the invariant checked on every transition before merging",
        ],
    },
    "C05": {
        "level_text": 'Bounded-exhaustive exploration: every one of the 256 byte values substituted at every position of every length 0..=100 (0..=300 thorough) on a valid background, plus all pairs of two invalid bytes for lengths <= 70, through every encoder (generic, SSE2, AVX2, three dispatcher arms) and every entry point, against a letter-table oracle.',
        "level_note": 'Trusted: letter table; completeness of the single-substitution + fault-pair model rests on encoders being per-byte functions whose only position dependence is vector-block/tail membership.',
        "technique": 'bounded-exhaustive enumeration of byte x position x length x backend against a table oracle',
        "level": "exploration",
        "profiles": ["rel", "chk"],
        "wall": {"quick": 150, "thorough": 3000},
        "rule": "Every byte value at every position of every length on a valid background, all pairs of two faults; all encoders and entry points.",
        "assumptions": COMMON_ASSUMPTIONS + [
            "the encoders' only data dependence is per byte and their only position dependence is block/tail membership, so single substitutions + fault pairs are a complete fault model",
        ],
    },
    "C19": {
        "level_text": 'Model checking of the real DenseMatrix<T,C>: explicit-state BFS over all operation histories to depth 4 (5 thorough) for 28 (element type, column count) instantiations, canonical-state de-duplication, the full oracle (cells, alignment of every row, stride, iteration protocols, equality/clone semantics) evaluated after every transition against a Vec<Vec<T>> model.',
        "level_note": 'Trusted: Vec<Vec<T>> model; key soundness (values written depend only on cell and operation kind). Depth-bounded, not a fixpoint: the state space (cell contents) is not finite-closed under resize.',
        "technique": 'explicit-state BFS by re-execution against a reference table model',
        "level": "model_checking",
        "profiles": ["rel", "chk"],
        "wall": {"quick": 150, "thorough": 3000},
        "rule": "Explicit-state BFS over operation histories of the real DenseMatrix for 28 (T, C) instantiations against a Vec<Vec<T>> model.",
        "assumptions": COMMON_ASSUMPTIONS + [
            "values written by an operation depend only on (cell, operation kind), so (rows, capacity, logical cells) determines all futures",
            "padding is never read by a safe operation (ravel is unsafe and excluded)",
        ],
    },
}

# properties not claimed (with reason); kept current as checks are added
NOT_APPLICABLE = [
    {"property_id": p, "reason": "check not built yet in this round (planned in DESIGN.md section 2); not claimed until its harness exists"}
    for p in ["C02", "C03", "C06", "C07", "C08", "C09", "C10", "C11", "C12", "C13", "C14", "C15", "C16", "C17", "C18"]
    if p not in PROPS
]

HOOK_COMMITS = ["87dc5bb"]
