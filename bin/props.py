"""Per-property configuration of the driver (levels, build profiles, wall caps, evidence texts)."""

COMMON_ASSUMPTIONS = [
    "x86_64 host with AVX2: generic, SSE2 and AVX2 code and every dispatcher arm (forced through hook H1) are executed; the NEON backend is not",
    "rustc/LLVM compile the harness and the library the same way a user's build would (release profile; 'chk' adds overflow checks and debug assertions)",
    "the verif-hooks feature only adds code (dispatcher override, sampler snapshot) and does not alter the paths it observes",
]

PROPS = {
    "C01": {
        "level_text": 'Bounded-exhaustive exploration: every (alphabet, length, width, matrix kind, content pattern) point of a stated finite product is scored by all 11 backend/lane/dispatcher-arm configurations and every row sub-range of a menu, and compared with an exact f64 reference and across configurations; plus all 5^L sequences for L<=6. Exploration (not model checking) because the property has no state: the quantifiers are inputs and configurations. Also buffer-reuse histories, hand-built sequences with spare rows and weight matrices trimmed with resize before use.',
        "level_note": 'Trusted: the reference model (60 lines, f64 sums), the data-obliviousness argument that lets digit patterns + injective window-encoding matrices stand for all contents, rustc. NEON backend not executed on this host.',
        "technique": 'bounded-exhaustive product enumeration of inputs x backend configurations against a reference model',
        "level": "exploration",
        "profiles": ["rel", "chk"],
        "wall": {"quick": 150, "thorough": 3000},
        "rule": "Bounded-exhaustive product enumeration of shapes/contents/matrices with all backend configurations on every point; counts are kernel invocations, distinct by construction of the mixed-radix index.",
        "assumptions": COMMON_ASSUMPTIONS + [
            "scoring kernels are data-oblivious in control flow, so digit-pattern contents + injective window-encoding matrices decide the position->cell wiring for all contents (DESIGN C01)",
        ],
    },
    "C04": {
        "level_text": 'Model checking of the real StripedSequence buffer: explicit-state BFS to fixpoint over histories of stripe_into (every backend) / configure_wrap / configure / clone with canonical-state de-duplication, every transition checked against a linear-sequence model; plus a complete product enumeration of single stripes for every length 0..=2200 and every striping configuration. The library\'s own linear counts (EncodedSequence and slice count_symbol(s)) are held against the same model (digit patterns contain aligned runs of 256 and more identical symbols). The conversions EncodedSequence::to_striped and StripedSequence::from(EncodedSequence) are compared with Stripe::stripe for every length.',
        "level_note": "Trusted: linear-sequence model; canonical key soundness argument (DESIGN C04); data-obliviousness of striping. Memory-safety side of striping is C06's business.",
        "technique": 'explicit-state BFS by re-execution over buffer histories + product enumeration of lengths/backends',
        "level": "model_checking",
        "profiles": ["rel", "chk"],
        "wall": {"quick": 150, "thorough": 3000},
        "rule": "Product enumeration of single stripes plus explicit-state BFS (to fixpoint) over buffer-reuse histories on one real StripedSequence.",
        "assumptions": COMMON_ASSUMPTIONS + [
            "striping is data-oblivious, so the digit patterns decide the position->cell map for every content",
            "BFS key (length, content id, wrap, capacity class): look-ahead rows are a function of wrap by the invariant checked on every transition before merging",
        ],
    },
    "C05": {
        "level_text": 'Bounded-exhaustive exploration: every one of the 256 byte values substituted at every position of every length 0..=100 (0..=300 thorough) on a valid background, plus all pairs of two invalid bytes for lengths <= 70, through every encoder (generic, SSE2, AVX2, three dispatcher arms) and every entry point, against a letter-table oracle. Plus long texts, the same invalid byte in every block, multi-byte UTF-8, and homopolymer runs: a run of every alphabet letter with every byte value at every position, and runs of every byte value 0..=255 filling whole SIMD blocks.',
        "level_note": 'Trusted: letter table; completeness of the single-substitution + fault-pair model rests on encoders being per-byte functions whose only position dependence is vector-block/tail membership.',
        "technique": 'bounded-exhaustive enumeration of byte x position x length x backend against a table oracle',
        "level": "exploration",
        "profiles": ["rel", "chk"],
        "wall": {"quick": 150, "thorough": 3000},
        "rule": "Every byte value at every position of every length on a valid background, all pairs of two faults; all encoders and entry points.",
        "assumptions": COMMON_ASSUMPTIONS + [
            "the encoders' only data dependence is per byte and their only position dependence is block/tail membership, so single substitutions + fault pairs are a complete fault model",
        ],
    },
    "C19": {
        "level_text": 'Model checking of the real DenseMatrix<T,C>: explicit-state BFS over all operation histories to depth 8 (11 thorough) for 28 (element type, column count) instantiations, canonical-state de-duplication, the full oracle (cells, alignment of every row, stride, iteration protocols, equality/clone semantics) evaluated after every transition against a Vec<Vec<T>> model. Equality is also probed with a not-self-equal cell (f32 NaN) against itself, its clone and a rebuilt matrix.',
        "level_note": 'Trusted: Vec<Vec<T>> model; key soundness (values written depend only on cell and operation kind). Depth-bounded, not a fixpoint: the state space (cell contents) is not finite-closed under resize.',
        "technique": 'explicit-state BFS by re-execution against a reference table model',
        "level": "model_checking",
        "profiles": ["rel", "chk"],
        # a crash of the code under test (e.g. a wild read through a mis-computed index) kills the shard: the monitored
        # driver attributes it to the breadcrumb transition, confirms it by replaying it alone twice and resumes
        "monitors": {
            "quick": [{"name": "rel", "variant": "rel"}, {"name": "chk", "variant": "chk"}],
            "thorough": [{"name": "rel", "variant": "rel"}, {"name": "chk", "variant": "chk"}],
        },
        "wall": {"quick": 150, "thorough": 3000},
        "rule": "Explicit-state BFS over operation histories of the real DenseMatrix for 28 (T, C) instantiations against a Vec<Vec<T>> model.",
        "assumptions": COMMON_ASSUMPTIONS + [
            "values written by an operation depend only on (cell, operation kind), so (rows, capacity, logical cells) determines all futures",
            "padding is never read by a safe operation (ravel is unsafe and excluded)",
        ],
    },
}

PROPS.update({
    "C02": {
        "level_text": "Bounded-exhaustive exploration of scanner configurations, each driven through the real Scanner state machine (next() to exhaustion plus two more calls): ALL 3906 DNA strings of length <= 5 x all matrices of a tie/near-tie row menu (M<=2, part of M=3) x thresholds (every attainable score, midpoints, below/above the extremes) x block sizes x 3 dispatcher arms; every length 0..=170 (and around 8192) x all block sizes 1..8,256 so that every position of a block boundary relative to sequence rows and look-ahead rows occurs. Oracle: reference hit set from exact f64 scores. Plus histories on one scanner: threshold changed in mid-scan (rethreshold) and block size changed in mid-scan (reblock: ordered pairs of {1,2,3,5,256}, after k = 0..6 hits), sequences configured for other widths first, exact-capacity clones and hand-built sequences. An `extremes` space adds matrices at the edges of the 8-bit discretisation: cells sharing a large offset relative to their spread (65536 + k/128; 2^20 + ...) and long motifs (M = 40, 70, 100) on consensus neighbourhoods.",
        "level_note": "Trusted: reference scores (f64) and the summation bound used to leave positions within rounding of the threshold undecided (never arises for the integer/dyadic menus). Finite thresholds only.",
        "technique": "bounded-exhaustive enumeration of scanner configurations, each run to exhaustion against a reference hit set",
        "level": "exploration",
        "profiles": ["rel", "chk"],
        "wall": {"quick": 200, "thorough": 3000},
        "only": {"chk": {"quick": "shapes"}},
        "rule": "One evaluation = one scanner (sequence, matrix, threshold, block size, arm) iterated to exhaustion; non-trivial = L >= M; distinct by construction of the index.",
        "assumptions": COMMON_ASSUMPTIONS + ["the scanner only works on DNA with 32 columns (the only instantiation the library provides)"],
    },
    "C03": {
        "level_text": "Model checking of the Scanner state machine over the operation alphabet {next, max}: for every configuration of the C02 space, EVERY history next^k . max (k = 0..=#hits+1) is re-executed on a fresh real scanner and the result compared with the reference maximum over the unconsumed hits; the row menu contains a designed pair whose 8-bit order inverts the real order, so pruning with an over-estimate is observable. Also histories threshold(t1) . next^k . threshold(t2 > t1) . max() on one scanner, and the `extremes` space of C02.",
        "level_note": "Trusted: reference scores; for > 40 hits only the prefix lengths {0,1,2,3,h/3,h/2,h-1,h,h+1} are run (stated bound). Ties may be resolved either way.",
        "technique": "exhaustive enumeration of next^k.max histories re-executed on the real scanner, reference-model comparison",
        "level": "model_checking",
        "profiles": ["rel", "chk"],
        "wall": {"quick": 300, "thorough": 3000},
        "only": {"chk": {"quick": "shapes"}},
        "rule": "One evaluation = one history next^k . max on a fresh scanner; states = histories, transitions = next()/max() calls executed.",
        "assumptions": COMMON_ASSUMPTIONS + ["consumed hits are excluded from the maximum (as the statement says)"],
    },
    "C07": {
        "level_text": "Bounded-exhaustive exploration: score matrices built through the public API with the maximum planted at every column of every row class, for f32 and u8, 0..=40/255/256/257/1000 rows, all-negative / -inf / ramp backgrounds, duplicated maxima, a threshold menu, through every configuration (generic lanes, SSE2, AVX2, dispatcher arms, StripedScores API, unstriped Scores); second clause (-inf past the last valid position) checked on the C01 shape loop. The second clause includes: the largest cell of the score matrix is the best valid position's score (an empty matrix while a valid position exists is a violation).",
        "level_note": "Trusted: scalar scan of the cells read back through the public matrix accessor. NaN excluded (outside the statement).",
        "technique": "bounded-exhaustive product enumeration of planted-maximum matrices x backends against a scalar oracle",
        "level": "exploration",
        "profiles": ["rel", "chk"],
        "wall": {"quick": 200, "thorough": 3000},
        "rule": "One evaluation = one (matrix plan, configuration) probe of max/argmax/threshold; non-trivial = rows > 0.",
        "assumptions": COMMON_ASSUMPTIONS,
    },
    "C08": {
        "level_text": "Bounded-exhaustive exploration: all 7^M matrices of a row menu (M<=4, 5 thorough) x 3 wildcard-column kinds on a de Bruijn word containing every 5^M window, wide matrices (M up to 64/300) on consensus / anti-consensus / all single-substitution neighbours, through every 8-bit kernel (generic, SSE2, AVX2 saturating, dispatcher arms, scalar score_position); release and overflow-checking builds. Sequences are also re-configured from fewer look-ahead rows, over-configured, and hand-built with spare sequence rows (StripedSequence::new); the pre-filter is checked block-wise and inside the real Scanner (thresholds lowest/median/highest real score x block sizes 1/256 x dispatcher arms).",
        "level_note": "Trusted: f32 sequential reference score and the library's own scale() mapping (the property is stated relative to it). No tolerance is applied (DESIGN section 6).",
        "technique": "bounded-exhaustive enumeration of matrices x all windows x 8-bit kernels, inequality oracle",
        "level": "exploration",
        "profiles": ["rel", "chk"],
        "wall": {"quick": 200, "thorough": 3000},
        "rule": "One evaluation = one (matrix, kernel) run over a sequence containing every window; non-trivial = some window has a finite real score.",
        "assumptions": COMMON_ASSUMPTIONS,
    },
})

PROPS.update({
    "C16": {
        "level_text": "Model checking of the real Gibbs sampler: explicit-state BFS to FIXPOINT over the sampler's reachable states for small datasets (DNA/protein, 3-4 sequences, widths 2-3), both modes, three dispatcher arms, driven by a scripted RNG whose every draw outcome is enumerated (initial starts, seed subsets and hold-out choices directly; the weighted start draw by monotone bisection on the 53-bit grid). Every transition is executed twice (determinism) and its pre/post state, public getters and Iteration are compared with a recount from the linear sequences. Because every transition out of every reachable consistent state is checked, runs of any length are covered (inductive invariant). Plus fixed-script runs on contig-sized sequences and on a conserved 20-residue protein block whose windows score more than 128 bits.",
        "level_note": "Trusted: recount model; canonical key soundness (DESIGN C16; starts of inactive sequences and the step counters that influence control flow are in the key through hook H2); rand 0.8.8 draw semantics (ranges of the integer draws; monotonicity of WeightedIndex) - both asserted at run time: a mismatch is a machinery failure (exit 2), never a verdict.",
        "technique": "explicit-state BFS to fixpoint over the real sampler with a scripted RNG, every RNG outcome enumerated (monotone bisection)",
        "level": "model_checking",
        "profiles": ["rel", "chk"],
        "wall": {"quick": 200, "thorough": 3000},
        "rule": "states = canonical sampler states reached; transitions = checked sampler steps (each re-executed from a fresh sampler); evaluations additionally count bisection probes.",
        "assumptions": COMMON_ASSUMPTIONS + ["datasets in which the alignment is empty by construction (Zoops with < 2 seeds) are outside the statement"],
    },
})

PROPS.update({
    "C09": {
        "level_text": 'Bounded-exhaustive exploration: every point of the product count-matrix menu (DNA widths 1..=3, protein 1..=2; thorough +1) x 5 pseudocount specs x 5 backgrounds x 4 logarithm bases is pushed through every conversion route (to_freq, to_weight, to_scoring, into_scoring, to_weight.to_scoring[_with_base], to_weight(None).rescale.to_scoring[_with_base]) and compared cell by cell with an f64 reference written from the definitions; every wildcard-free window is held against min_score/max_score (its exact f64 sum within the summation allowance, the f32 score of the generic pipeline bit for bit: same summation order, monotone rounding); every ordered tuple of <=3 DNA sequences of length <=2 through from_sequences; Background::new on all 9^5 arrays over a value menu, from_counts/from_sequence(s) and FrequencyMatrix::new on complete small menus. Exploration: the property has no state, the quantifier is inputs. Acceptance by Background::new is demanded only of arrays of multiples of 1/16 in [0,1] adding up to exactly one (one-symbol backgrounds included).',
        "level_note": 'Trusted: the 40-line f64 reference (count+pseudo)/total -> f/b -> log_base with the zero-background conventions; the derived tolerances gamma_{K+2}/gamma_{K+3}/gamma_{K+5} + 4 ulp for the logarithm (largest observed error = 0.26 x tolerance). Only the rejecting side of validation is demanded; FrequencyMatrix::new rejection is demanded for deviations > 0.0105 (documented tolerance 0.01). Rows with total 0 (0/0) are skipped.',
        "technique": 'bounded-exhaustive product enumeration of count/pseudocount/background/base menus and invalid-input menus against an f64 reference model',
        "level": "exploration",
        "package": "vx-pwm",
        "profiles": ["rel", "chk"],
        "wall": {"quick": 150, "thorough": 3000},
        "rule": "Complete product enumeration of the C09 menus (matrices x pseudocounts x backgrounds x bases, all (K-1)^M windows, all sequence tuples, all 9^5 background arrays); one evaluation = one menu point / window / tuple / array, distinct by construction of the mixed-radix index.",
        "assumptions": COMMON_ASSUMPTIONS + [
            "a scalar pseudocount means that value on every non-wildcard symbol and 0 on the wildcard",
            "the conversions are cell-wise / row-wise arithmetic without data-dependent control flow other than the b == 0 tests, so the row menu (zero, equal, skewed, 1e6-scale, wildcard-only rows) x background menu (zero / non-zero wildcard, zero non-wildcard) covers every branch combination",
            "in the rescale route, columns whose old background is 0 and new one is not are not compared (the frequency was discarded by to_weight(None))",
        ],
    },
    "C10": {
        "level_text": 'Bounded-exhaustive exploration: all 2800 DNA count matrices of width 1..=4 over the C09 row menu x pseudocounts x backgrounds: rc(rc(m)) == m bit for bit and rc(m) == definition for count/frequency/weight/scoring matrices; rc commutes with to_freq/to_weight/to_scoring under 5x5 strand-symmetric pseudocounts/backgrounds; ALL DNA sequences of length <= 6 (thorough <= 7) x every menu scoring matrix with M <= 3 x {generic pipeline, dispatcher arms generic/sse2/avx2}: rc(m).score(rc(s))[L-M-i] == m.score(s)[i]. Every valid position of both strands is also read through the public Index<usize> accessor of the striped scores and must be the cell of the textbook formula. Plus matrices cut down with DenseMatrix::resize before being wrapped (rc must equal the definition, no panic) and the mirror law under 16 / 48 / 64 columns for the generic and SSE2 pipelines.',
        "level_note": 'Trusted: complement table A<->T, C<->G, N<->N on ranks A,C,T,G,N; summation bound 2*gamma_{M-1}*sum|terms| (exact equality demanded for the integer-valued matrices and for -inf); commutation of to_freq allowed 2*gamma_{K+2} for the row-sum order, the element-wise steps must be bit-identical.',
        "technique": 'bounded-exhaustive enumeration of matrix menus x all short DNA sequences x backends; involution, commutation and mirrored-score oracles',
        "level": "exploration",
        "package": "vx-pwm",
        "profiles": ["rel", "chk"],
        "wall": {"quick": 150, "thorough": 3000},
        "rule": "Complete product: matrix menus x {count, frequency, weight, scoring}; all 5^L sequences L<=6 (7) x all menu scoring matrices M<=3 x 4 pipelines; one evaluation = one (sequence, matrix, pipeline) or one (matrix point, identity).",
        "assumptions": COMMON_ASSUMPTIONS + [
            "reverse_complement is a fixed cell permutation independent of cell values, so the asymmetric menu rows decide it for all contents",
            "scoring kernels are data-oblivious; positions/shape classes beyond L<=7 are C01's business",
        ],
    },
})

PROPS.update({
    "C06": {
        "level_text": "Fault enumeration with memory monitors: the shape-exhaustive enumeration of the safe API (encode, stripe incl. buffer-reuse/clone/configure histories, f32 and u8 scoring with every backend and dispatcher arm, max/argmax/threshold, scanner, sampler, dense-matrix histories) is executed under AddressSanitizer twice (optimised build; and an UNOPTIMISED build for the kernels, where loads whose result is unused are not eliminated), under valgrind memcheck (gather instructions that ASan does not instrument), in an overflow/alignment-checking build (misaligned raw-pointer dereferences panic) and in the release build (vmovdqa/vmovntps fault on misalignment). Any monitor report is attributed to its case through a breadcrumb, confirmed by replaying that case alone twice, and the shard is resumed after it.",
        "level_note": "Trusted: ASan / valgrind / rustc's debug alignment checks as oracles. Over-reads that stay inside the same allocation are legal by the property and invisible by construction. NEON not executed. Uninitialised-value use is not part of the statement and is not flagged (valgrind --undef-value-errors=no).",
        "technique": "bounded-exhaustive enumeration of shapes x backends x call histories executed under memory monitors (ASan, valgrind, alignment checks) with breadcrumb attribution",
        "level": "fault_enumeration",
        "profiles": ["rel", "chk"],
        "monitors": {
            "quick": [
                {"name": "asan", "variant": "asan"},
                {"name": "asan0", "variant": "asan0", "only": "score_exact,score_reuse,gather,stripe_reuse_v,maxima,score_u8,sample,scan"},
                {"name": "chk", "variant": "chk"},
                {"name": "rel", "variant": "rel"},
                {"name": "valgrind", "variant": "rel", "only": "gather,maxima,score_u8,stripe_reuse_v,score_reuse"},
            ],
            "thorough": [
                {"name": "asan", "variant": "asan"},
                {"name": "asan0", "variant": "asan0", "only": "score_exact,score_reuse,gather,stripe_reuse_v,maxima,score_u8,sample,scan,score,stripe_histories,dense"},
                {"name": "chk", "variant": "chk"},
                {"name": "rel", "variant": "rel"},
                {"name": "valgrind", "variant": "rel", "only": "gather,maxima,score_u8,stripe_reuse_v,score_exact,score,scan,sample,stripe_histories,dense,encode_v,stripe_v"},
            ],
        },
        "wall": {"quick": 200, "thorough": 3000},
        "rule": "One evaluation = one API call sequence on one shape under one monitor; non-trivial = non-empty input; the same enumeration is repeated under each monitor, so distinct cases = evaluations of one monitor.",
        "assumptions": COMMON_ASSUMPTIONS + ["a monitor report is attributed to the case named in the breadcrumb written immediately before the case starts"],
    },
})

PROPS.update({
    "C18": {
        "level_text": "Model checking of the Python objects: every (class, alphabet, size, reuse history) is a state of a real object built inside embedded CPython and every obj[i], len(), list() and memoryview() read is a checked transition. Complete product of all classes with __getitem__ x sizes x EVERY integer index in [-len-2, len+1] plus +-2**62, +-2**63; every exposed cell of every buffer view compared with the logical element it stands for; explicit-state BFS to fixpoint over reuse histories of one StripedSequence ({calculate with widths 5,15,33,40, copy}: fresh / within the reserved rows / reallocating) with a fresh view fully checked after every transition; 18 histories of {view, release, copy, calculate, scan} with views HELD across reuses (fitting the reserved rows or reallocating, on the object and on copies, DNA / protein / generic arm) run under valgrind in both tiers, every live view read in full after every operation; a reuse refused with BufferError while a view is alive must leave the view intact and succeed once the views are released.",
        "level_note": "Trusted: the logical-element models (symbol ranks, constructor cells, integer-valued scores, a 40-line f64 model of the discretised survival function), CPython's memoryview as the reader of shape/strides/format, valgrind memcheck for the stale-view history. Views are never dereferenced outside the memory the object is known to own (such cells are counted, not read). Py_buffer.len/nbytes and buffer requests other than memoryview()'s PyBUF_FULL_RO are outside the statement and not checked.",
        "technique": "bounded-exhaustive product over classes x sizes x all indices, plus explicit-state BFS by re-execution over buffer-reuse histories, against a logical-element model; one history under a memory monitor",
        "level": "model_checking",
        "package": "vx-py", "engine": "vx-py",
        "profiles": ["rel"],
        "monitors": {
            "quick": [{"name": "rel", "variant": "rel"},
                      {"name": "valgrind", "variant": "rel", "only": "stale_view", "shards": 1, "env": {"PYTHONMALLOC": "malloc"}}],
            "thorough": [{"name": "rel", "variant": "rel"},
                         {"name": "valgrind", "variant": "rel", "only": "stale_view", "shards": 1, "env": {"PYTHONMALLOC": "malloc"}}],
        },
        "wall": {"quick": 120, "thorough": 900},
        "rule": "One evaluation = one obj[i] / len / list call or one fully compared view; state = one object in one reuse state, transition = one read or one reuse operation followed by a full view comparison; non-trivial = the object has at least one logical element; distinct by construction of the product / BFS.",
        "assumptions": COMMON_ASSUMPTIONS + [
            "dense K-column matrices have row stride 8 (K=5) / 24 (K=21) elements and striped objects 32 columns - used only to bound the memory a view may touch",
            "BFS key (look-ahead rows, row capacity modelled by Vec's growth rule): the only mutable state of a StripedSequence; every transition is checked before merging",
            "cells of a StripedScores view for positions >= len stand for no logical element (any value accepted, must lie inside the object)",
        ],
    },
})

PROPS.update({
    "C11": {
        "level_text": 'Bounded-exhaustive exploration: for every matrix of a stated menu (log-odds matrices M=2..6, thorough ..8, from 16 count rows x pseudocounts x 4 background/wildcard configurations; 23 hand matrices x up to 15 background / wildcard configurations) the exact score distribution is obtained by enumerating all K\'^M words, and ScoreDistribution is queried at every distinct attainable score, +-1 and +-1/2 discretisation step, far below/above, and at every attainable tail probability, midpoints, every tabulated sf value and fixed p; sf monotone in [0,1], pvalue within P(S>=s+d)..P(S>=s-d) (d = (M/2+1) steps), pvalue monotone, pvalue(score(p)) <= p. Structural clauses also for M in {12,16,20}. Score queries include +-1e7 .. +-f32::MAX. Every matrix with an oracle whose background gives the wildcard no mass is also checked as a PROTEIN matrix carrying the same score distribution (DNA columns at protein ranks 19, 2, 11, 6, all other residues background 0 with copies of cells of their row): same grids, same brute-force oracle.',
        "level_note": 'Trusted: the 40-line brute-force oracle (f64, background normalised by its f32 total, 1e-6 absolute allowance on probabilities); the step is recovered from the public unscale(). Exploration, not model checking: the property quantifies over inputs only.',
        "technique": 'bounded-exhaustive enumeration of matrices x backgrounds x score/p grids against a brute-force exact distribution',
        "level": "exploration", "package": "vx-pval", "profiles": ["rel", "chk"],
        "wall": {"quick": 150, "thorough": 3000},
        "rule": "Product of matrix menu x background configurations x query grid; one evaluation = one (matrix, background, query) check of all clauses; indices of the product are distinct by construction.",
        "assumptions": COMMON_ASSUMPTIONS + [
            "DNA alphabet only; widths with K'^M <= 5^8 words for the oracle clauses",
            "probabilities compared with 1e-6 absolute allowance because f32 backgrounds do not sum to exactly 1",
        ],
    },
    "C12": {
        "level_text": 'Bounded-exhaustive exploration: same matrix/background menu as C11; queries min-1, every distinct attainable score (at most 600 evenly ranked, 2400 thorough), each +1e-4, midpoints, max+1; EVERY refinement step of approximate_pvalue with g >= 1e-9 and the final pvalue() are compared with the brute-force tail using exactly the statement\'s margins (M+1)g / (M+2)g; panics (incl. assert!(converged)) and >40 refinement steps are violations. Plus `reuse`: ALL query histories of length <= 3 (4 thorough) over 11 p-value / score queries (partial and full refinements) on ONE TfmPvalue object, the last answer compared with that of a fresh object. Queries include attainable scores shifted by +0.15 and -0.0151 (off every coarse grid). Every matrix whose background gives the wildcard no mass is also checked as a PROTEIN matrix carrying the same score distribution (DNA columns at protein ranks 19, 2, 11, 6, all other residues background 0 with copies of cells of their row; quick tier widths <= 4): same queries, same brute-force oracle.',
        "level_note": 'Trusted: brute-force oracle; RELATIVE 1e-6 allowance on probabilities (so that tails far below 1e-6 - skewed background, p below machine epsilon - are decided too); for the final value only, the score margin has the floor 64 ulp(|s| + sum of row ranges). The statement bounds pmin only from below and pmax only from above, so single-key off-by-one mutations of the integer window are inside its slack (measured).',
        "technique": 'bounded-exhaustive enumeration of matrices x backgrounds x scores x every refinement step against a brute-force exact distribution',
        "level": "exploration", "package": "vx-pval", "profiles": ["rel", "chk"],
        "wall": {"quick": 150, "thorough": 3000},
        "rule": "Product of matrix menu x background configurations x score grid x refinement steps; one evaluation = one (matrix, background, score, step) inequality check; fresh TfmPvalue per query.",
        "assumptions": COMMON_ASSUMPTIONS + [
            "DNA alphabet; M <= 6 (quick) / 8 (thorough); refinement steps below g = 1e-9 are covered only through the final pvalue()",
            "evenly ranked cap on attainable scores per matrix is a stated bound, reported in notes",
        ],
    },
    "C13": {
        "level_text": 'Bounded-exhaustive exploration: same menu; p = every attainable tail probability (ranked cap as C12), each x(1-1e-7) and x(1+1e-7), geometric midpoints, 1e-9, 1e-6, .5, .999; EVERY refinement step of approximate_score with g >= 1e-9 and the final score(): P(S>=t+d) <= p and P(S>=u-d) >= p for the largest attainable u < t-d, d = (M+2)g; panics and >40 steps are violations. Plus the `reuse` histories on one TfmPvalue object (as C12). Every matrix whose background gives the wildcard no mass is also checked as a PROTEIN matrix carrying the same score distribution (DNA columns at protein ranks 19, 2, 11, 6, all other residues background 0 with copies of cells of their row; quick tier widths <= 4): same queries, same brute-force oracle.',
        "level_note": 'Trusted: brute-force oracle; 1e-6 allowance; floor 64 ulp on the final margin only.',
        "technique": 'bounded-exhaustive enumeration of matrices x backgrounds x p-values x every refinement step against a brute-force exact distribution',
        "level": "exploration", "package": "vx-pval", "profiles": ["rel", "chk"],
        "wall": {"quick": 150, "thorough": 3000},
        "rule": "Product of matrix menu x background configurations x p grid x refinement steps; one evaluation = one (matrix, background, p, step) check of both clauses.",
        "assumptions": COMMON_ASSUMPTIONS + ["as C12"],
    },
})

PROPS.update({
    "C14": {
        "level_text": "Fault enumeration over the stream environment: writer-generated motif files (7 readers; record lists of 1..300 records rotating every width {1,2,7,25} plus single records of width 100 and 101 (three-digit position labels), cell-content mode incl. magnitudes {0,1,9,10,99999,u32::MAX}, metadata presence mask, all 24 column orders + wildcard layouts, writer styles, CRLF, VV header) are read through a scripted BufRead whose chunk ends are the answers of a deviation-bounded choice explorer: no cut and every single cut for every file, every pair of cuts for files <= 400 bytes (quick <= 260), restricted triples (thorough), every uniform chunk size 1..=128, 4096, 8192; the bundled corpora (JASPAR2024.pwm, prodoric.transfac, tests/*) under uniform sizes, strided single cuts and all pairs for the small files with a differential oracle.",
        "level_note": "Trusted: the writer + record model (expected observation computed without lightmotif-io), std::io::BufRead::read_until/read_line semantics, nom's float = str::parse (read in nom 7.1.3). The full product of the per-record dimensions is covered by rotation inside multi-record files, not enumerated as a product. TRANSFAC entries are compared as correctly rounded f32; to_counts() only when every count is exact in f32. No I/O errors injected.",
        "technique": "deviation-bounded choice exploration of fill_buf answers (chunkings with <= d cuts) + uniform chunk sizes over writer-generated files, reference = the written record list; differential oracle on bundled corpora",
        "level": "fault_enumeration",
        "package": "vx-io",
        "profiles": ["rel", "chk"],
        "wall": {"quick": 150, "thorough": 3000},
        "rule": "Every chunking with at most d cuts (d=1 all files, d=2 files <= 400 bytes, d=3 on structure positions) and every uniform chunk size, of every file of an explicit writer menu; counts are reader executions, distinct by construction of the explorer.",
        "assumptions": COMMON_ASSUMPTIONS + [
            "a chunking is fully described by its set of absolute cut positions; fill_buf returns the unconsumed rest of the current chunk like std BufReader",
            "files longer than 400 bytes see single cuts and uniform sizes only; interactions of two or more cuts there are not explored",
        ],
    },
    "C15": {
        "level_text": "Fault enumeration on reader inputs: ALL byte strings of length <= 4 (thorough <= 6) over a 12-symbol alphabet incl. the empty input; ALL sequences of <= 5 (6) lines from per-format line menus with/without final newline; for small valid files of every reader every prefix, every single-byte deletion, every position x substitution/insertion of a 19-byte alphabet (thorough: all 256 byte values), line-level and token-level structural faults (ragged rows, header without matrix, duplicated symbol line, missing final newline, numeric overflow tokens, every digit run replaced by an 18-number menu), ALL 1296 two-character TRANSFAC line tags over [A-Z0-9] x 4 line tails alone and in front of every line of the TRANSFAC base files, runs of >= 96 bytes of valid 2/3/4-byte UTF-8 characters inserted at every position with every alignment (pad 0..3), pairs of faults at line-structure positions (thorough), the bundled test files as bases (thorough); each under chunkings {whole, 1-byte chunks, one cut at the fault}. Reader::new and every next() run under catch_unwind; the stream allows 10*(len+10) fill_buf calls (hang), len+2 records before Err/None (livelock), 20 s watchdog.",
        "level_note": "Trusted: catch_unwind isolation, the scripted BufRead. Two further next() calls after the first error and one after end of input are probed for panics only (signature phase after-error / after-end). I/O errors of the stream are not injected.",
        "technique": "exhaustive enumeration of short inputs and of single/double faults in valid files x chunkings, monitors: catch_unwind, fill_buf budget, record horizon, watchdog",
        "level": "fault_enumeration",
        "package": "vx-io",
        "profiles": ["rel", "chk"],
        # a crash of the process (stack exhaustion on a long run of lines cannot be caught as a panic) kills the shard:
        # the monitored driver attributes it to the breadcrumb case, confirms it by replaying it alone twice and resumes
        "monitors": {
            "quick": [{"name": "rel", "variant": "rel"}, {"name": "chk", "variant": "chk"},
                      {"name": "dbg", "variant": "dbg", "only": "long_runs,short_lines,tag_lines"}],
            "thorough": [{"name": "rel", "variant": "rel"}, {"name": "chk", "variant": "chk"},
                         {"name": "dbg", "variant": "dbg", "only": "long_runs,short_lines,structural,tag_lines"}],
        },
        "wall": {"quick": 150, "thorough": 3000},
        "rule": "All strings <= 4 (6) bytes over 12 symbols, all <= 5 (6)-line sequences over per-format menus, every prefix/deletion/substitution/insertion and structural fault of small valid files, times three chunkings; non-trivial = input differs from a valid file.",
        "assumptions": COMMON_ASSUMPTIONS + [
            "readers have no state beyond the stream position and their line/record buffer, so single and double faults on 1-2 record files reach every parser error path reachable by local corruption",
        ],
    },
})

PROPS.update({
    "C17": {
        "level_text": "Model checking of one real StripedSequence object inside embedded CPython: explicit-state BFS by re-execution on fresh Python objects (quick: all operation sequences to depth 3; thorough: to the fixpoint of the canonical key, depth 8) for 8 sequences x 3 motif families (create->normalize->log_odds, integer-valued ScoringMatrix, create().pssm with -inf cells; widths 3/7/15/40) x 3 forced dispatcher arms over {calculate, scan(3 thresholds x block 1/3/256) drained, max, argmax, threshold, copy, memoryview held, other-alphabet calculate, scanner held across reuse}; every transition compared with a pure-Python reference. Plus complete product enumerations of the stateless entry points (create incl. all short DNA sequence sets, CountMatrix, normalize x log_odds(background, base), ScoringMatrix, pvalue/score x {meme, tfmpvalue} against the core library, reverse_complement/max_score, load of generated and bundled files through 7-11 source kinds) and a 156-entry argument-error menu with child-process isolation for entries that may hang or abort; plus `motif_histories`: ALL operation sequences of length <= 4 (5 thorough) on ONE ScoringMatrix object (p-value / score queries with both methods, score_distribution view, max_score, calculate, reverse_complement continuing on the result), the last result compared with a fresh, independently constructed equivalent object.",
        "level_note": "Trusted: refmodel.py (f64 scores with recursive-summation bound, exact for integer matrices; (count+pseudo)/total -> f/b -> log_base with (K+3)/(K+6)-rounding tolerances; own file writers); for p-values the core library is the oracle by the wording of the statement. BFS key is model-derived (Python exposes no look-ahead-row accessor). An abort inside a non-isolated space shows as a shard crash (machinery), not an attributed violation. NaN / +inf cells, block size 0, zero-width motifs, p outside (0,1): only no-panic / no-hang is demanded. Buffer details and negative indices are C18's.",
        "technique": "explicit-state BFS by re-execution over Python-visible reuse histories of one striped sequence + bounded-exhaustive product enumeration of stateless entry points and an argument-error menu, against pure-Python reference models / the core library",
        "level": "model_checking",
        "package": "vx-py", "engine": "vx-py",
        "profiles": ["rel"],
        "wall": {"quick": 150, "thorough": 1200},
        "rule": "histories: state = canonical key of a re-executed history, transition = one Python operation executed on fresh objects and compared with the reference (evaluations = transitions); product spaces: one evaluation = one menu point (pvalue: one query; load: one (file, source)); errors: one (entry, arm); non-trivial per the space descriptions; distinct by construction of the deterministic index.",
        "assumptions": COMMON_ASSUMPTIONS + [
            "a StripedSequence's mutable state is (content, look-ahead rows); rows only grow; the growth order is kept in the key; a scores object is a function of (sequence, motif) by the check on the transition that created it",
            "a valid background whose f32 sum is not exactly 1 may be rejected (acceptance not demanded); a non-zero wildcard background cannot be honoured by WeightMatrix.log_odds (wildcard column not compared then)",
            "hit order and arg-max ties are free; positions within the summation bound of a threshold are undecided; when L < M, max() may be None or -inf",
            "dictionary keys outside the alphabet are invalid arguments (the library's own pseudocount/background dictionaries reject them)",
        ],
    },
})

# properties not claimed (with reason); kept current as checks are added
NOT_APPLICABLE = [
    {"property_id": p, "reason": "check not built yet in this round (planned in DESIGN.md section 2); not claimed until its harness exists"}
    for p in ["C02", "C03", "C06", "C07", "C08", "C09", "C10", "C11", "C12", "C13", "C14", "C15", "C16", "C17", "C18"]
    if p not in PROPS
]

HOOK_COMMITS = ["87dc5bb"]
