//! Record model and motif-file writers (DESIGN §1.3: "motif files are produced by my own writer
//! from a `Vec<RecordModel>`"), the generated-file menu of C14 and the expected observation of a
//! written record.  Nothing here calls into `lightmotif-io`.

use serde_json::{json, Value};

use crate::drive::{Alpha, Fmt, Obs};

/// One motif as written to a file.
#[derive(Clone, Debug, PartialEq)]
pub struct RecordModel {
    pub id: Option<String>,
    pub accession: Option<String>,
    pub name: Option<String>,
    pub description: Option<String>,
    /// the symbol columns named in the file, in file order (ASCII letters)
    pub symbols: Vec<u8>,
    /// counts: `cells[position][index into symbols]`
    pub cells: Vec<Vec<u32>>,
    /// whitespace / decoration variant of the writer
    pub style: usize,
}

impl RecordModel {
    pub fn to_json(&self) -> Value {
        json!({
            "id": self.id, "accession": self.accession, "name": self.name, "description": self.description,
            "symbols": String::from_utf8_lossy(&self.symbols), "cells": self.cells, "style": self.style,
        })
    }

    pub fn from_json(v: &Value) -> Option<RecordModel> {
        let s = |k: &str| v.get(k).and_then(|x| x.as_str()).map(String::from);
        Some(RecordModel {
            id: s("id"),
            accession: s("accession"),
            name: s("name"),
            description: s("description"),
            symbols: v.get("symbols")?.as_str()?.as_bytes().to_vec(),
            cells: v
                .get("cells")?
                .as_array()?
                .iter()
                .map(|r| r.as_array().map(|r| r.iter().map(|x| x.as_u64().unwrap_or(0) as u32).collect()).unwrap_or_default())
                .collect(),
            style: v.get("style")?.as_u64()? as usize,
        })
    }
}

/// The frequency written for (and expected from) a UniPROBE cell: count / row sum, rounded to f32.
pub fn freq(row: &[u32], j: usize) -> f32 {
    let sum: u64 = row.iter().map(|&x| x as u64).sum();
    (row[j] as f64 / sum as f64) as f32
}

/// Is the count exactly representable as f32 (then TRANSFAC's f32 storage loses nothing)?
pub fn exact_f32(v: u32) -> bool {
    (v as f32) as f64 == v as f64
}

/// What the reader must expose for this record (None fields = accessor must return None).
/// The second component tells whether `to_counts()` is demanded (TRANSFAC, all cells exact in f32).
pub fn expected(fmt: Fmt, alpha: Alpha, rec: &RecordModel) -> (Obs, bool) {
    let letters = alpha.letters();
    let k = letters.len();
    let col: Vec<usize> = rec.symbols.iter().map(|s| letters.iter().position(|l| l == s).expect("symbol of the alphabet")).collect();
    let mut rows = vec![vec![0f64; k]; rec.cells.len()];
    let mut counts = vec![vec![0u32; k]; rec.cells.len()];
    let mut exact = true;
    for (i, row) in rec.cells.iter().enumerate() {
        for (j, &v) in row.iter().enumerate() {
            rows[i][col[j]] = match fmt {
                Fmt::Jaspar | Fmt::Jaspar16 => v as f64,
                Fmt::Transfac => (v as f32) as f64,
                Fmt::Uniprobe => freq(row, j) as f64,
            };
            counts[i][col[j]] = v;
            exact &= exact_f32(v);
        }
    }
    let obs = match fmt {
        Fmt::Jaspar | Fmt::Jaspar16 => Obs { id: rec.id.clone(), accession: None, name: None, description: rec.description.clone(), rows: Some(rows), counts: None },
        Fmt::Transfac => Obs {
            id: rec.id.clone(),
            accession: rec.accession.clone(),
            name: rec.name.clone(),
            description: rec.description.clone(),
            rows: Some(rows),
            counts: if exact { Some(counts) } else { None },
        },
        Fmt::Uniprobe => Obs { id: rec.id.clone(), accession: None, name: None, description: None, rows: Some(rows), counts: None },
    };
    (obs, fmt == Fmt::Transfac && exact)
}

// ---------------------------------------------------------------------------------------------
// writers
// ---------------------------------------------------------------------------------------------

fn push_line(out: &mut Vec<u8>, line: &str, eol: &str) {
    out.extend_from_slice(line.as_bytes());
    out.extend_from_slice(eol.as_bytes());
}

fn jaspar_header(rec: &RecordModel) -> String {
    let id = rec.id.as_deref().unwrap_or("");
    match &rec.description {
        None => format!(">{}", id),
        Some(d) => format!(">{}{}{}", id, if rec.style % 3 == 1 { "\t" } else { " " }, d),
    }
}

/// styles 3..=8 repeat the three layouts with one blank line / whitespace-only lines after the LAST record of the file
pub const N_STYLES_JASPAR: usize = 9;
/// styles 3..=8: as for raw JASPAR
pub const N_STYLES_JASPAR16: usize = 9;
/// styles 4..=7 repeat the four layouts with the counts written in exponent notation without a fractional part
/// (`1e3`, `9.9999e4`, `0e0`: what `printf("%g")`-style writers emit for round or rescaled values)
pub const N_STYLES_TRANSFAC: usize = 8;
/// styles 3..=5 repeat the three layouts with every frequency written as a LONG decimal lying just above the midpoint
/// between the intended f32 and its predecessor (a reader going through f64 first rounds twice and can land on the predecessor)
pub const N_STYLES_UNIPROBE: usize = 6;

pub fn n_styles(fmt: Fmt) -> usize {
    match fmt {
        Fmt::Jaspar => N_STYLES_JASPAR,
        Fmt::Jaspar16 => N_STYLES_JASPAR16,
        Fmt::Transfac => N_STYLES_TRANSFAC,
        Fmt::Uniprobe => N_STYLES_UNIPROBE,
    }
}

/// JASPAR (raw): header + the four rows A, C, G, T.  `rec.symbols` must be "ACGT".
fn write_jaspar(out: &mut Vec<u8>, rec: &RecordModel, eol: &str) {
    assert_eq!(rec.symbols, b"ACGT");
    push_line(out, &jaspar_header(rec), eol);
    for j in 0..4 {
        let vals: Vec<String> = rec.cells.iter().map(|r| r[j].to_string()).collect();
        let line = match rec.style % 3 {
            0 => vals.join(" "),
            1 => vals.iter().map(|v| format!("{:>6}", v)).collect::<Vec<_>>().join(" "),
            _ => vals.join("\t"),
        };
        push_line(out, &line, eol);
    }
}

/// JASPAR 2016: header + one bracketed row per named symbol.
fn write_jaspar16(out: &mut Vec<u8>, rec: &RecordModel, eol: &str) {
    push_line(out, &jaspar_header(rec), eol);
    for (j, &s) in rec.symbols.iter().enumerate() {
        let vals: Vec<String> = rec.cells.iter().map(|r| r[j].to_string()).collect();
        let line = match rec.style % 3 {
            0 => format!("{} [ {} ]", s as char, vals.join(" ")),
            1 => format!("{}  [{} ]", s as char, vals.iter().map(|v| format!(" {:>6}", v)).collect::<String>()),
            _ => format!("{}\t[{}]", s as char, vals.join(" ")),
        };
        push_line(out, &line, eol);
    }
}

const CONSENSUS: &[u8] = b"GTAywrCNKSnb";

/// TRANSFAC: style 0 prodoric-like, 1 JASPAR export (tabs, floats "x.0", PO), 2 TRANSFAC 9 with all
/// the decoration lines of the upstream unit tests, 3 bare.
/// A TRANSFAC count as text: plain, or (styles 4..=7) in exponent notation.
fn tf_num(style: usize, v: u32) -> String {
    if style % 8 >= 4 {
        format!("{:e}", v as f64)
    } else {
        format!("{}", v)
    }
}

fn write_transfac(out: &mut Vec<u8>, rec: &RecordModel, eol: &str) {
    let full_style = rec.style;
    let style = rec.style % 4;
    let sep = if style == 1 { " " } else { "  " };
    let xx = style == 1 || style == 2;
    let meta = |out: &mut Vec<u8>, tag: &str, v: &Option<String>| {
        if let Some(v) = v {
            push_line(out, &format!("{}{}{}", tag, sep, v), eol);
            if xx {
                push_line(out, "XX", eol);
            }
        }
    };
    meta(out, "AC", &rec.accession);
    meta(out, "ID", &rec.id);
    if style == 2 {
        push_line(out, "DT  19.10.1992 (created); ewi.", eol);
        push_line(out, "DT  16.10.1995 (updated); ewi.", eol);
        push_line(out, "CO  Copyright (C), Biobase GmbH.", eol);
        push_line(out, "XX", eol);
    }
    meta(out, "NA", &rec.name);
    meta(out, "DE", &rec.description);
    if style == 0 {
        push_line(out, "BF  Pseudomonas aeruginosa", eol);
    }
    if style == 2 {
        push_line(out, "BF  T00036; AP-4; Species: human, Homo sapiens.", eol);
        push_line(out, "XX", eol);
    }
    // matrix block
    match style {
        1 => {
            let hdr: String = rec.symbols.iter().map(|&s| format!("\t{}", s as char)).collect();
            push_line(out, &format!("PO{}", hdr), eol);
            for (i, row) in rec.cells.iter().enumerate() {
                let vals: String = row.iter().map(|v| if full_style % 8 >= 4 { format!("\t{}", tf_num(full_style, *v)) } else { format!("\t{}.0", v) }).collect();
                push_line(out, &format!("{:02}{}", i + 1, vals), eol);
            }
        }
        3 => {
            let hdr: String = rec.symbols.iter().map(|&s| format!(" {}", s as char)).collect();
            push_line(out, &format!("P0{}", hdr), eol);
            for (i, row) in rec.cells.iter().enumerate() {
                let vals: String = row.iter().map(|v| format!(" {}", tf_num(full_style, *v))).collect();
                push_line(out, &format!("{:02}{}", i + 1, vals), eol);
            }
        }
        _ => {
            let hdr: String = rec.symbols.iter().map(|&s| format!("{:>7}", s as char)).collect();
            push_line(out, &format!("P0{}", hdr), eol);
            for (i, row) in rec.cells.iter().enumerate() {
                let vals: String = row.iter().map(|v| format!(" {:>6}", tf_num(full_style, *v))).collect();
                let cons = format!("      {}", CONSENSUS[i % CONSENSUS.len()] as char);
                push_line(out, &format!("{:02}{}{}", i + 1, vals, cons), eol);
            }
        }
    }
    match style {
        0 => push_line(out, "XX", eol),
        1 => {
            push_line(out, "XX", eol);
            push_line(out, "CC tax_group:plants", eol);
            push_line(out, "CC tf_family:MIKC", eol);
            push_line(out, "XX", eol);
        }
        2 => {
            for l in [
                "XX",
                "BA  5 elements from 5 genes",
                "XX",
                "BS  AGAACCAGCTGTGGAATG; R05143; 7; 18;; p.",
                "BS  AAAAACAGCTGTTGTCAT; R05144; 7; 18;; p.",
                "XX",
                "CC  compiled sequences",
                "XX",
                "RN  [1]; RE0001814.",
                "RX  PUBMED: 2833704.",
                "RA  Mermod N., Williams T. J., Tjian R.",
                "RT  Enhancer binding factors AP-4 and AP-1 act in concert",
                "RL  Nature 332:557-561 (1988).",
                "XX",
                "RN  [2]",
                "RA  Biedenkapp H., Borgmeyer U.;",
                "RL  Nature 335:835-837 (1988).",
                "XX",
            ] {
                push_line(out, l, eol);
            }
        }
        _ => {}
    }
    push_line(out, "//", eol);
}

/// UniPROBE: id line, one "S:\tf\tf..." line per named symbol; style 0 one blank line after the
/// record, 1 none, 2 two blank lines.
/// A UniPROBE frequency as text: the shortest decimal that reads back as `y`, or (styles 3..=5) the exact decimal
/// expansion of the midpoint between `y` and its f32 predecessor followed by one more digit: a number strictly
/// between the midpoint and `y`, whose correct rounding to f32 is `y`.
fn up_num(style: usize, y: f32) -> String {
    if style % 6 < 3 || !(y.is_normal() && y > 0.0) {
        return format!("{}", y);
    }
    let x = f32::from_bits(y.to_bits() - 1);
    let mid = (x as f64 + y as f64) / 2.0; // exact in f64
    let mut t = format!("{:.80}", mid); // exact: a dyadic rational of this size has fewer than 80 fractional digits
    while t.ends_with('0') {
        t.pop();
    }
    t.push('1');
    t
}

fn write_uniprobe(out: &mut Vec<u8>, rec: &RecordModel, eol: &str) {
    push_line(out, rec.id.as_deref().unwrap_or(""), eol);
    for (j, &s) in rec.symbols.iter().enumerate() {
        let vals: String = rec.cells.iter().map(|r| format!("\t{}", up_num(rec.style, freq(r, j)))).collect();
        push_line(out, &format!("{}:{}", s as char, vals), eol);
    }
    for _ in 0..[1, 0, 2][rec.style % 3] {
        push_line(out, "", eol);
    }
}

pub const VV_LINE: &str = "VV  TRANSFAC MATRIX TABLE, Release 9.2 - licensed - 2005-06-30, (C) Biobase GmbH";

pub fn write_file(fmt: Fmt, recs: &[RecordModel], vv: bool, crlf: bool) -> Vec<u8> {
    let eol = if crlf { "\r\n" } else { "\n" };
    let mut out = Vec::new();
    if vv && fmt == Fmt::Transfac {
        push_line(&mut out, VV_LINE, eol);
        push_line(&mut out, "XX", eol);
        push_line(&mut out, "//", eol);
    }
    // UniPROBE files under the same flag: blank and whitespace-only lines in front of the first record
    // (the reader's "advance to the first line with content" loop)
    if vv && fmt == Fmt::Uniprobe {
        push_line(&mut out, "", eol);
        push_line(&mut out, " \t", eol);
    }
    for r in recs {
        match fmt {
            Fmt::Jaspar => write_jaspar(&mut out, r, eol),
            Fmt::Jaspar16 => write_jaspar16(&mut out, r, eol),
            Fmt::Transfac => write_transfac(&mut out, r, eol),
            Fmt::Uniprobe => write_uniprobe(&mut out, r, eol),
        }
    }
    // JASPAR files: nothing / one blank line / whitespace-only lines after the last record (by its style)
    if matches!(fmt, Fmt::Jaspar | Fmt::Jaspar16) {
        if let Some(last) = recs.last() {
            match (last.style / 3) % 3 {
                1 => push_line(&mut out, "", eol),
                2 => {
                    push_line(&mut out, "", eol);
                    push_line(&mut out, "  ", eol);
                    push_line(&mut out, "", eol);
                }
                _ => {}
            }
        }
    }
    out
}

// ---------------------------------------------------------------------------------------------
// menus
// ---------------------------------------------------------------------------------------------

pub const WIDTHS: [usize; 4] = [1, 2, 7, 25];
/// 2^23+1 and 2^24-1: odd counts at the top of the range f32 holds exactly (rounding ties of x+0.5 there)
pub const MAGNITUDES: [u32; 8] = [0, 1, 9, 10, 99_999, u32::MAX, 8_388_609, 16_777_215];
/// cell-content modes: 0 = wiring codes (every cell of a record distinct), 1 = the magnitude menu
/// cycled over cells, 2 = ten-digit values near u32::MAX, 3 = all zero
pub const N_MODES: usize = 4;

fn permutations4() -> Vec<Vec<u8>> {
    let base = *b"ACGT";
    let mut out = Vec::new();
    for a in 0..4 {
        for b in 0..4 {
            for c in 0..4 {
                for d in 0..4 {
                    let p = [a, b, c, d];
                    let mut seen = [false; 4];
                    p.iter().for_each(|&x| seen[x] = true);
                    if seen.iter().all(|&x| x) {
                        out.push(p.iter().map(|&x| base[x]).collect());
                    }
                }
            }
        }
    }
    out
}

/// Column layouts (which symbols are named, in which order).
pub fn layouts(fmt: Fmt, alpha: Alpha) -> Vec<Vec<u8>> {
    match (fmt, alpha) {
        (Fmt::Jaspar, _) => vec![b"ACGT".to_vec()],
        (_, Alpha::Dna) => {
            let mut v = permutations4();
            v.push(b"NACGT".to_vec());
            v.push(b"ACNGT".to_vec());
            v.push(b"TGCAN".to_vec());
            v
        }
        (_, Alpha::Protein) => {
            let canon = b"ACDEFGHIKLMNPQRSTVWY".to_vec();
            let mut rev = canon.clone();
            rev.reverse();
            let mut rot = canon.clone();
            rot.rotate_left(7);
            let mut withx = canon.clone();
            withx.insert(3, b'X');
            vec![canon, rev, rot, withx]
        }
    }
}

/// Number of metadata presence masks (bit i = i-th optional field present).
pub fn n_masks(fmt: Fmt) -> usize {
    match fmt {
        Fmt::Jaspar | Fmt::Jaspar16 => 2, // description
        Fmt::Transfac => 16,              // AC, ID, NA, DE
        Fmt::Uniprobe => 1,
    }
}

#[derive(Clone, Debug)]
pub struct GenSpec {
    pub fmt: Fmt,
    pub alpha: Alpha,
    pub n: usize,
    pub widths: Vec<usize>,
    pub modes: Vec<usize>,
    pub meta_off: usize,
    pub order_off: usize,
    pub style_off: usize,
    /// admissible writer styles (cycled per record)
    pub styles: Vec<usize>,
    pub vv: bool,
    pub crlf: bool,
}

impl GenSpec {
    pub fn label(&self) -> String {
        format!(
            "{}/{} n={} widths={:?} modes={:?} meta+{} order+{} styles={:?}+{}{}{}",
            self.fmt.name(),
            self.alpha.name(),
            self.n,
            self.widths,
            self.modes,
            self.meta_off,
            self.order_off,
            self.styles,
            self.style_off,
            if self.vv { " VV" } else { "" },
            if self.crlf { " CRLF" } else { "" }
        )
    }
}

fn cell(mode: usize, r: usize, i: usize, j: usize, ncols: usize) -> u32 {
    match mode % N_MODES {
        0 => 1 + (r % 7) as u32 * 1000 + (i * ncols + j) as u32,
        1 => MAGNITUDES[(i + 2 * j + r) % MAGNITUDES.len()],
        2 => u32::MAX - (i * ncols + j) as u32,
        _ => 0,
    }
}

pub fn build_records(spec: &GenSpec) -> Vec<RecordModel> {
    let lays = layouts(spec.fmt, spec.alpha);
    let nm = n_masks(spec.fmt);
    (0..spec.n)
        .map(|r| {
            let width = spec.widths[r % spec.widths.len()];
            let mode = spec.modes[(r + r / spec.widths.len()) % spec.modes.len()];
            let symbols = lays[(r * 5 + spec.order_off) % lays.len()].clone();
            let nc = symbols.len();
            let mut cells: Vec<Vec<u32>> = (0..width).map(|i| (0..nc).map(|j| cell(mode, r, i, j, nc)).collect()).collect();
            if spec.fmt == Fmt::Uniprobe {
                // frequencies need a non-zero row sum
                for (i, row) in cells.iter_mut().enumerate() {
                    if row.iter().all(|&x| x == 0) {
                        row[(i + r) % nc] = 1;
                    }
                }
            }
            let mask = (r + spec.meta_off) % nm;
            let v = (r + spec.meta_off) % 3;
            let (id, accession, name, description) = match spec.fmt {
                Fmt::Jaspar | Fmt::Jaspar16 => {
                    let id = [format!("MA{:04}.1", r), format!("X{}", r), format!("UN{:04}.2_long-identifier", r)][v].clone();
                    let d = ["RUNX1", "Arnt::HIF1A", "NR2F1 alpha  beta"][(r / 3 + v) % 3].to_string();
                    (Some(id), None, None, if mask & 1 == 1 { Some(d) } else { None })
                }
                Fmt::Transfac => {
                    let ac = format!("M{:05}", r);
                    let id = [format!("V$AP4_{:02}", r), format!("prodoric_MX{:06}", r), format!("F$MATA1_{}", r)][v].clone();
                    let na = ["AP-4", "MATa1", "Pax-6 paired domain"][v].to_string();
                    let de = ["activator protein 4", "MA0001.2 AGL3 ; From JASPAR", "see also http://example.org//"][v].to_string();
                    (
                        if mask & 2 != 0 { Some(id) } else { None },
                        if mask & 1 != 0 { Some(ac) } else { None },
                        if mask & 4 != 0 { Some(na) } else { None },
                        if mask & 8 != 0 { Some(de) } else { None },
                    )
                }
                Fmt::Uniprobe => {
                    let id = [
                        format!("Arid3a_primary_{}", r),
                        format!("Gene:  Cha4-primary  Motif:  A.CTC  Score:  0.49{}", r),
                        format!("M{}", r),
                    ][v]
                        .clone();
                    (Some(id), None, None, None)
                }
            };
            RecordModel { id, accession, name, description, symbols, cells, style: spec.styles[(r + spec.style_off) % spec.styles.len()] }
        })
        .collect()
}

/// The generated-file menu for one reader.  `quick` leaves out the largest files.
pub fn menu(fmt: Fmt, alpha: Alpha, quick: bool) -> Vec<GenSpec> {
    let mut v = Vec::new();
    let base = |n: usize| GenSpec { fmt, alpha, n, widths: WIDTHS.to_vec(), modes: (0..N_MODES).collect(), meta_off: 0, order_off: 0, style_off: 0, styles: (0..n_styles(fmt)).collect(), vv: false, crlf: false };
    let nl = layouts(fmt, alpha).len();
    let nm = n_masks(fmt);
    let ns = n_styles(fmt);
    let mut k = 0usize;
    // (a) single records: every width x every content mode
    for &w in &WIDTHS {
        for m in 0..N_MODES {
            v.push(GenSpec { widths: vec![w], modes: vec![m], meta_off: k, order_off: k * 5, style_off: k, vv: k % 2 == 1, ..base(1) });
            k += 1;
        }
    }
    // (a2) wide motifs: position labels / row lengths with three digits (>= 100 positions)
    for (i, &w) in [100usize, 101].iter().enumerate() {
        v.push(GenSpec { widths: vec![w], modes: vec![1 + 2 * i], meta_off: i, order_off: 7 * i, style_off: i, vv: i == 1, ..base(1) });
    }
    // (b) single records: every column layout (all 24 orders of ACGT + 3 with the wildcard named)
    for o in 0..nl {
        v.push(GenSpec { widths: vec![2], modes: vec![0], meta_off: o + 1, order_off: o, style_off: o, vv: o % 3 == 0, ..base(1) });
    }
    // (c) single records: every metadata presence mask, (d) every writer style
    for mk in 0..nm {
        v.push(GenSpec { widths: vec![1], modes: vec![1], meta_off: mk, order_off: mk, style_off: mk / 3, vv: mk % 2 == 0, ..base(1) });
    }
    for s in 0..ns {
        v.push(GenSpec { widths: vec![7], modes: vec![1], meta_off: s + 1, order_off: 7 * s, style_off: s, ..base(1) });
    }
    // (e) short lists, rotating every per-record dimension; CRLF variants
    for n in [2usize, 3, 5] {
        for o in 0..4usize {
            let mut w = WIDTHS.to_vec();
            w.rotate_left(o);
            if alpha == Alpha::Protein {
                w = vec![[1, 2, 7, 2][o], 1];
            }
            v.push(GenSpec { widths: w, meta_off: 3 * o, order_off: 11 * o, style_off: o, vv: o % 2 == 1, ..base(n) });
        }
    }
    v.push(GenSpec { widths: vec![2, 1], crlf: true, meta_off: 1, vv: true, ..base(2) });
    v.push(GenSpec { widths: vec![1, 7], crlf: true, meta_off: 2, order_off: 3, style_off: 1, ..base(3) });
    // (f) medium lists
    let protein = alpha == Alpha::Protein;
    let small_w = if protein { vec![1, 2] } else { WIDTHS.to_vec() };
    v.push(GenSpec { widths: small_w.clone(), vv: true, ..base(17) });
    v.push(GenSpec { widths: vec![2, 1, 7], meta_off: 5, order_off: 13, style_off: 2, ..base(17) });
    let compact: Vec<usize> = match fmt {
        Fmt::Transfac => vec![3, 0],
        _ => (0..ns).collect(),
    };
    if protein {
        // 20 symbol lines per record: the 64-record protein files are left to the thorough tier
        if !quick {
            v.push(GenSpec { widths: vec![1], meta_off: 1, order_off: 1, style_off: 1, styles: compact.clone(), ..base(64) });
        }
    } else {
        v.push(GenSpec { widths: vec![1, 2, 7], meta_off: 1, order_off: 1, style_off: 1, ..base(64) });
    }
    // (g) hundreds of records: many buffer compactions.  Cost of the single-cut sweep is quadratic in the
    // file length, so the quick tier uses compact records (and DNA only); thorough adds the large ones.
    if !protein {
        v.push(GenSpec { widths: vec![1], modes: vec![0, 3], meta_off: 2, order_off: 2, styles: if fmt == Fmt::Transfac { vec![3] } else { compact.clone() }, vv: true, ..base(300) });
    }
    if !quick {
        v.push(GenSpec { widths: vec![1, 2], modes: vec![0, 1, 3], meta_off: 2, order_off: 2, vv: true, ..base(300) });
        if !protein {
            v.push(GenSpec { widths: vec![1, 2, 7], meta_off: 7, order_off: 9, style_off: 3, crlf: true, ..base(300) });
        }
    }
    v
}
