//! In-process watchdog (DESIGN §C15 "watchdog per case in the shard").
//!
//! The scripted `BufRead` already turns an unbounded number of `fill_buf` calls into a panic that
//! the checkers report as a hang.  A loop inside the library that never touches the stream cannot
//! be interrupted from the same thread, so a monitor thread looks at a heartbeat that the
//! checkers advance before every case; when it stands still for `LIMIT_S` seconds while a run is
//! active, the coordinates of the case are printed and the process exits with status 3 (the driver
//! reports a shard that died, together with this message).

use std::sync::atomic::{AtomicBool, AtomicU64, Ordering};
use std::sync::{Mutex, Once};
use std::time::Duration;

pub const LIMIT_S: u64 = 20;

static BEAT: AtomicU64 = AtomicU64::new(0);
static ACTIVE: AtomicBool = AtomicBool::new(false);
static COORD: [AtomicU64; 4] = [AtomicU64::new(0), AtomicU64::new(0), AtomicU64::new(0), AtomicU64::new(0)];
static START: Once = Once::new();
/// (format/alphabet label, chunking, input bytes) of the case being executed (C15 only: inputs are small)
static INPUT: Mutex<(String, String, Vec<u8>)> = Mutex::new((String::new(), String::new(), Vec::new()));
/// (format, alphabet, chunking as JSON) of the same case, for the machine-readable WATCHDOG-CASE line
static CASE: Mutex<(String, String, String)> = Mutex::new((String::new(), String::new(), String::new()));

/// Remember format / alphabet / chunking (JSON) of the case about to run.
pub fn set_case(fmt: &str, alpha: &str, chunking_json: String) {
    if let Ok(mut g) = CASE.lock() {
        g.0.clear();
        g.0.push_str(fmt);
        g.1.clear();
        g.1.push_str(alpha);
        g.2 = chunking_json;
    }
}

/// Remember the input of the case about to run so that a watchdog abort can print a replayable case.
pub fn set_input(label: &str, chunking: &str, data: &[u8]) {
    if let Ok(mut g) = INPUT.lock() {
        g.0.clear();
        g.0.push_str(label);
        g.1.clear();
        g.1.push_str(chunking);
        g.2.clear();
        g.2.extend_from_slice(data);
    }
}

/// Advance the heartbeat; (a, b, c, d) identify the work item (property / reader / file / position).
#[inline]
pub fn beat(a: u64, b: u64, c: u64, d: u64) {
    COORD[0].store(a, Ordering::Relaxed);
    COORD[1].store(b, Ordering::Relaxed);
    COORD[2].store(c, Ordering::Relaxed);
    COORD[3].store(d, Ordering::Relaxed);
    BEAT.fetch_add(1, Ordering::Relaxed);
}

/// Advance the heartbeat without changing the coordinates.
#[inline]
pub fn tick() {
    BEAT.fetch_add(1, Ordering::Relaxed);
}

pub fn start() {
    ACTIVE.store(true, Ordering::SeqCst);
    START.call_once(|| {
        std::thread::spawn(|| {
            let mut last = u64::MAX;
            let mut still = 0u64;
            loop {
                std::thread::sleep(Duration::from_millis(500));
                let now = BEAT.load(Ordering::Relaxed);
                if !ACTIVE.load(Ordering::SeqCst) || now != last {
                    last = now;
                    still = 0;
                    continue;
                }
                still += 1;
                if still >= 2 * LIMIT_S {
                    eprintln!(
                        "WATCHDOG: no progress for {} s in work item ({}, {}, {}, {}) - the case under execution does not terminate",
                        LIMIT_S,
                        COORD[0].load(Ordering::Relaxed),
                        COORD[1].load(Ordering::Relaxed),
                        COORD[2].load(Ordering::Relaxed),
                        COORD[3].load(Ordering::Relaxed)
                    );
                    if let Ok(g) = INPUT.lock() {
                        if !g.0.is_empty() {
                            eprintln!("WATCHDOG: last input handed to a reader: {} chunking {} bytes {:?}", g.0, g.1, g.2);
                            if let Ok(c) = CASE.lock() {
                                if !c.0.is_empty() {
                                    // one line the driver can parse and replay
                                    eprintln!(
                                        "WATCHDOG-CASE: {{\"format\": {:?}, \"alphabet\": {:?}, \"chunking\": {}, \"bytes\": {:?}, \"origin\": {{\"base\": \"watchdog\", \"detail\": \"case under execution when no progress was made for {} s\"}}}}",
                                        c.0, c.1, c.2, g.2, LIMIT_S
                                    );
                                }
                            }
                        }
                    }
                    std::process::exit(3);
                }
            }
        });
    });
}

pub fn stop() {
    ACTIVE.store(false, Ordering::SeqCst);
}
