//! C15 — motif file readers never panic or hang on malformed input (DESIGN §C15).
//!
//! Fault enumeration: every byte string of a stated finite family (all short strings, every prefix
//! / deletion / substitution / insertion of small valid files, line- and token-level structural
//! faults, pairs of faults at line-structure positions) is given to each of the seven readers under
//! three chunkings; `Reader::new` and every `next()` run under `catch_unwind`.

use std::collections::BTreeMap;

use serde_json::{json, Value};
use vx_core::util::panic_class;
use vx_core::{Ctx, Report, Violation};

use crate::chunked::Chunking;
use crate::drive::{bytes_from_json, bytes_json, lossy, run_reader, Alpha, Event, Fmt, Plan, Run, READERS};
use crate::watch;

/// The byte alphabet of DESIGN §C15 for substitutions and insertions (quick tier).
pub const MUT_BYTES: [u8; 19] = [b'\n', b'\r', b' ', b'\t', b'>', b'[', b']', b'/', b':', b'0', b'9', b'A', b'X', b'.', b'-', b'e', 0x00, 0xC3, 0xFF];

/// The 12-symbol alphabet of the short-string space.
pub const SHORT_ALPHABET: [u8; 12] = [b'\n', b' ', b'\t', b'>', b'/', b':', b'0', b'A', b'P', b'V', b'[', 0xFF];

// ---------------------------------------------------------------------------------------------
// base files
// ---------------------------------------------------------------------------------------------

pub struct Base {
    pub name: String,
    pub fmt: Fmt,
    pub alpha: Alpha,
    pub bytes: Vec<u8>,
}

const PROT: &[u8] = b"ACDEFGHIKLMNPQRSTVWY";

pub fn base_files(fmt: Fmt, alpha: Alpha) -> Vec<Base> {
    let mk = |name: &str, text: String| Base { name: format!("{}/{}/{}", fmt.name(), alpha.name(), name), fmt, alpha, bytes: text.into_bytes() };
    match (fmt, alpha) {
        (Fmt::Jaspar, _) => vec![
            mk(
                "one",
                concat!(">MA0001.1 RUNX1\n", "10 12  4  1  2  2  0\n", " 2  2  7  1  0  8  0\n", " 3  1  1  0 23  0 26\n", "11 11 14 24  1 16  0\n").to_string(),
            ),
            mk(
                "two",
                concat!(">MA0002.1\n", "1\t2\t3\n", "4\t5\t6\n", "7\t8\t9\n", "10\t11\t12\n", ">X2 Arnt::HIF1A\n", "0 99999\n", "4294967295 0\n", "1 1\n", "9 10\n").to_string(),
            ),
        ],
        (Fmt::Jaspar16, Alpha::Dna) => vec![
            mk(
                "one",
                concat!(">MA0004.1\tArnt\n", "A  [     4     19      0 ]\n", "C  [    16      0     20 ]\n", "G  [     0      1      0 ]\n", "T  [     0      0      0 ]\n").to_string(),
            ),
            mk(
                "two",
                concat!(">M1 a\n", "T [ 1 2 ]\n", "G [ 3 4 ]\n", "C [ 5 6 ]\n", "A [ 7 8 ]\n", ">M2\n", "A [9 10]\n", "C [0 0]\n", "N [1 1]\n", "G [2 2]\n", "T [3 4294967295]\n").to_string(),
            ),
        ],
        (Fmt::Jaspar16, Alpha::Protein) => {
            let mut t = String::from(">P1 prot\n");
            for (i, &l) in PROT.iter().enumerate() {
                t.push_str(&format!("{} [ {} {} ]\n", l as char, i, i + 1));
            }
            vec![mk("one", t)]
        }
        (Fmt::Transfac, Alpha::Dna) => vec![
            mk(
                "one",
                concat!(
                    "AC  M00001\n",
                    "XX\n",
                    "ID  V$AP4_01\n",
                    "XX\n",
                    "P0      A      C      G      T\n",
                    "01      1      2      2      0      S\n",
                    "02      2      1      2      0      R\n",
                    "03      3      0      1      1      A\n",
                    "XX\n",
                    "//\n"
                )
                .to_string(),
            ),
            mk(
                "two_vv",
                concat!(
                    "VV  TRANSFAC 9.2\n",
                    "XX\n",
                    "//\n",
                    "ID  a\n",
                    "NA  n\n",
                    "DE  d e\n",
                    "P0 A T\n",
                    "01 1 2 W\n",
                    "//\n",
                    "AC M2\n",
                    "PO\tA\tC\tG\tT\n",
                    "01\t1.0\t2.0\t3.0\t4.0\n",
                    "XX\n",
                    "CC c\n",
                    "//\n"
                )
                .to_string(),
            ),
            mk(
                "decorated",
                concat!(
                    "AC  M3\n",
                    "DT  19.10.1992 (created); ewi.\n",
                    "CO  Copyright (C), Biobase GmbH.\n",
                    "BF  T00036; AP-4.\n",
                    "P0  A C G T\n",
                    "01  3 0 0 2  W\n",
                    "BA  5 elements\n",
                    "BS  AGAAC; R05143; 7; 18;; p.\n",
                    "RN  [1]; RE0001814.\n",
                    "RX  PUBMED: 2833704.\n",
                    "RA  Mermod N.\n",
                    "RT  Enhancer\n",
                    "RL  Nature 332 (1988).\n",
                    "XX\n",
                    "RN  [2]\n",
                    "RL  Cell.\n",
                    "//\n"
                )
                .to_string(),
            ),
        ],
        (Fmt::Transfac, Alpha::Protein) => {
            let mut t = String::from("ID  p\nP0");
            for &l in PROT {
                t.push_str(&format!(" {}", l as char));
            }
            t.push('\n');
            for r in 0..2 {
                t.push_str(&format!("{:02}", r + 1));
                for i in 0..PROT.len() {
                    t.push_str(&format!(" {}", (i + r) % 10));
                }
                t.push('\n');
            }
            t.push_str("XX\n//\n");
            vec![mk("one", t)]
        }
        (Fmt::Uniprobe, Alpha::Dna) => vec![
            mk(
                "one",
                concat!("TEST001\n", "A:\t0.179\t0.210\t0.182\n", "C:\t0.268\t0.218\t0.213\n", "G:\t0.383\t0.352\t0.340\n", "T:\t0.170\t0.220\t0.265\n").to_string(),
            ),
            mk(
                "two",
                concat!(
                    "Arid3a_primary\n",
                    "A:\t0.25\t0.1\n",
                    "C:\t0.25\t0.2\n",
                    "G:\t0.25\t0.3\n",
                    "T:\t0.25\t0.4\n",
                    "\n",
                    "Gene:  X  Motif:  A.C\n",
                    "A:\t1\t0\n",
                    "C:\t0\t0.5\n",
                    "G:\t0\t0.5\n",
                    "T:\t0\t0\n"
                )
                .to_string(),
            ),
        ],
        (Fmt::Uniprobe, Alpha::Protein) => {
            let mut t = String::from("P1\n");
            for &l in PROT {
                t.push_str(&format!("{}:\t0.05\t0.05\n", l as char));
            }
            vec![mk("one", t)]
        }
    }
}

// ---------------------------------------------------------------------------------------------
// one case
// ---------------------------------------------------------------------------------------------

fn plan_for(len: usize) -> Plan {
    // a consumer that stops at the first Err / None must have stopped after len+2 records;
    // 2 further calls after an error and 1 after end of input are probed for panics only
    Plan { max_calls: len + 3, after_error: 2, after_end: 1, ignore_terminal: false }
}

/// Oracle. Returns (signature class, message) when the case violates C15.
fn verdict(run: &Run, len: usize) -> Option<(String, String)> {
    if let Some((phase, call, p)) = &run.panic {
        if run.hang() {
            return Some((format!("hang[{}] fill_buf-limit", phase.name()), format!("call {} ({}) asked the stream for data more than 10*(len+10) times: {}", call, phase.name(), p)));
        }
        let what = if *phase == crate::drive::Phase::New { "Reader::new".to_string() } else { format!("next() call {}", call) };
        return Some((format!("panic[{}] {}", phase.name(), panic_class(p)), format!("{} panicked: {}", what, p)));
    }
    if run.horizon_hit {
        return Some(("livelock more-than-len+2-records".into(), format!("{} records were returned from a {}-byte input without reaching an error or end of input", run.events.len(), len)));
    }
    None
}

#[derive(Clone)]
struct Origin {
    base: String,
    fault: &'static str,
    detail: String,
}

struct Smallest {
    len: usize,
    msg: String,
    case: Value,
}

struct Checker {
    smallest: BTreeMap<String, Smallest>,
    outcomes: [u64; 3],
}

fn case_json(fmt: Fmt, alpha: Alpha, data: &[u8], chunking: &Chunking, origin: &Origin) -> Value {
    json!({
        "format": fmt.name(),
        "alphabet": alpha.name(),
        "bytes": bytes_json(data),
        "lossy": lossy(data),
        "len": data.len(),
        "chunking": chunking.to_json(),
        "origin": {"base": origin.base, "fault": origin.fault, "detail": origin.detail},
    })
}

impl Checker {
    fn new() -> Self {
        Checker { smallest: BTreeMap::new(), outcomes: [0; 3] }
    }

    /// Run one input under the three chunkings {whole, 1-byte chunks, one cut at `fault_pos`}.
    fn check(&mut self, rep: &mut Report, fmt: Fmt, alpha: Alpha, data: &[u8], fault_pos: usize, nontrivial: bool, origin: &Origin) {
        let len = data.len();
        let plan = plan_for(len);
        let cut = fault_pos.clamp(1, len.saturating_sub(1).max(1));
        let mut chunkings = vec![Chunking::Whole];
        if len >= 2 {
            chunkings.push(Chunking::Uniform(1));
            chunkings.push(Chunking::Cuts(vec![cut]));
        }
        for chunking in &chunkings {
            watch::tick();
            if data.len() <= 4096 {
                watch::set_input(fmt.name(), &format!("{:?}", chunking), data);
                watch::set_case(fmt.name(), alpha.name(), chunking.to_json().to_string());
            }
            let run = run_reader(fmt, alpha, data, chunking.policy(), &plan);
            rep.eval_distinct(nontrivial);
            // terminal outcome statistics (first terminal item of the main phase)
            match run.events.iter().find(|e| !matches!(e, Event::Rec(_))) {
                Some(Event::Err(_)) => self.outcomes[1] += 1,
                Some(Event::End) => self.outcomes[0] += 1,
                _ => self.outcomes[2] += 1,
            }
            if let Some((class, msg)) = verdict(&run, len) {
                let sig = format!("C15 {} {}", fmt.name(), class);
                let msg = format!("{} [{} bytes, {:?}, {} {} {}]", msg, len, chunking, origin.base, origin.fault, origin.detail);
                let better = match self.smallest.get(&sig) {
                    None => true,
                    Some(s) => len < s.len,
                };
                if better {
                    self.smallest.insert(sig.clone(), Smallest { len, msg: msg.clone(), case: case_json(fmt, alpha, data, chunking, origin) });
                }
                rep.violation(sig, msg, || case_json(fmt, alpha, data, chunking, origin));
            }
        }
    }

    /// Make the first recorded violation of every signature the smallest input seen for it.
    fn finish(self, rep: &mut Report) {
        for (sig, s) in self.smallest {
            if let Some(v) = rep.violations.iter_mut().find(|v| v.sig == sig) {
                let space = v.case.get("space").cloned();
                let property = v.case.get("property").cloned();
                let mut case = s.case;
                if let Value::Object(m) = &mut case {
                    if let Some(x) = space {
                        m.insert("space".into(), x);
                    }
                    if let Some(x) = property {
                        m.insert("property".into(), x);
                    }
                }
                *v = Violation { sig: sig.clone(), msg: s.msg, case };
            }
        }
        rep.note(format!(
            "terminal outcomes over this shard's cases: {} end-of-input, {} error, {} panic/hang/livelock",
            self.outcomes[0], self.outcomes[1], self.outcomes[2]
        ));
    }
}

// ---------------------------------------------------------------------------------------------
// structural faults
// ---------------------------------------------------------------------------------------------

fn split_lines(data: &[u8]) -> Vec<Vec<u8>> {
    data.split_inclusive(|&b| b == b'\n').map(|l| l.to_vec()).collect()
}

/// (start, end) of maximal runs of non-whitespace bytes.
fn tokens(data: &[u8]) -> Vec<(usize, usize)> {
    let mut v = Vec::new();
    let mut i = 0;
    while i < data.len() {
        if data[i].is_ascii_whitespace() {
            i += 1;
            continue;
        }
        let s = i;
        while i < data.len() && !data[i].is_ascii_whitespace() {
            i += 1;
        }
        v.push((s, i));
    }
    v
}

/// Replacements for every maximal run of ASCII digits (numbers inside tokens: dates `19.10.1992`, `[1]`, `01`, `MA0001.1`)
const NUMBER_REPLACEMENTS: [&str; 18] = ["", "0", "00", "1", "9", "12", "13", "29", "30", "31", "32", "99", "255", "256", "65535", "65536", "4294967295", "18446744073709551616"];

const TOKEN_REPLACEMENTS: [&str; 10] = ["4294967296", "99999999999999999999", "-1", "1e999", "nan", "inf", "0.5", "+", "Z", "[]"];

/// Line- and token-level structural variants of a valid file: (name, detail, bytes, fault position).
fn structural_variants(data: &[u8]) -> Vec<(&'static str, String, Vec<u8>, usize)> {
    let mut out = Vec::new();
    let lines = split_lines(data);
    let starts: Vec<usize> = lines.iter().scan(0usize, |acc, l| { let s = *acc; *acc += l.len(); Some(s) }).collect();
    let join = |ls: &[Vec<u8>]| ls.concat();
    for (i, line) in lines.iter().enumerate() {
        let body_len = line.len() - usize::from(line.ends_with(b"\n"));
        let body = &line[..body_len];
        let eol = &line[body_len..];
        let at = starts[i];
        let with = |new: Vec<Vec<u8>>| {
            let mut ls = lines[..i].to_vec();
            ls.extend(new);
            ls.extend_from_slice(&lines[i + 1..]);
            join(&ls)
        };
        out.push(("line-deleted", format!("line {}", i), with(vec![]), at));
        out.push(("line-duplicated", format!("line {}", i), with(vec![line.clone(), line.clone()]), at + line.len()));
        if i + 1 < lines.len() {
            let mut ls = lines.clone();
            ls.swap(i, i + 1);
            out.push(("lines-swapped", format!("lines {} and {}", i, i + 1), join(&ls), at));
        }
        out.push(("line-emptied", format!("line {}", i), with(vec![eol.to_vec()]), at));
        out.push(("newline-removed", format!("line {}", i), with(vec![body.to_vec()]), at + body_len));
        let toks = tokens(body);
        if let Some(&(s, _)) = toks.last() {
            let mut b = body[..s].to_vec();
            while b.last().map_or(false, |c| c.is_ascii_whitespace()) {
                b.pop();
            }
            b.extend_from_slice(eol);
            out.push(("last-token-dropped (ragged)", format!("line {}", i), with(vec![b]), at + s));
        }
        let mut b = body.to_vec();
        b.extend_from_slice(b" 7");
        b.extend_from_slice(eol);
        out.push(("token-appended (ragged)", format!("line {}", i), with(vec![b]), at + body_len));
        let mut b = b" ".to_vec();
        b.extend_from_slice(line);
        out.push(("leading-space", format!("line {}", i), with(vec![b]), at));
        let mut b = body.to_vec();
        b.push(b' ');
        b.extend_from_slice(eol);
        out.push(("trailing-space", format!("line {}", i), with(vec![b]), at + body_len));
    }
    // everything after the first line removed (header without matrix), first line removed (matrix without header)
    if lines.len() > 1 {
        out.push(("header-only", "first line only".into(), lines[0].clone(), lines[0].len()));
        out.push(("header-twice-then-eof", "first line twice".into(), [lines[0].clone(), lines[0].clone()].concat(), lines[0].len()));
    }
    if data.ends_with(b"\n") {
        out.push(("missing-final-newline", "last byte removed".into(), data[..data.len() - 1].to_vec(), data.len() - 1));
    }
    for (t, &(s, e)) in tokens(data).iter().enumerate() {
        let splice = |new: &[u8]| {
            let mut v = data[..s].to_vec();
            v.extend_from_slice(new);
            v.extend_from_slice(&data[e..]);
            v
        };
        out.push(("token-deleted", format!("token {} {:?}", t, String::from_utf8_lossy(&data[s..e])), splice(b""), s));
        let mut dup = data[s..e].to_vec();
        dup.push(b' ');
        dup.extend_from_slice(&data[s..e]);
        out.push(("token-duplicated", format!("token {}", t), splice(&dup), e));
        for r in TOKEN_REPLACEMENTS {
            out.push(("token-replaced", format!("token {} {:?} -> {:?}", t, String::from_utf8_lossy(&data[s..e]), r), splice(r.as_bytes()), s));
        }
    }
    // every maximal run of digits, wherever it sits (inside dotted dates, brackets, identifiers)
    let mut i = 0;
    let mut run = 0;
    while i < data.len() {
        if !data[i].is_ascii_digit() {
            i += 1;
            continue;
        }
        let s = i;
        while i < data.len() && data[i].is_ascii_digit() {
            i += 1;
        }
        for r in NUMBER_REPLACEMENTS {
            let mut v = data[..s].to_vec();
            v.extend_from_slice(r.as_bytes());
            v.extend_from_slice(&data[i..]);
            out.push(("number-replaced", format!("digit run {} {:?} -> {:?}", run, String::from_utf8_lossy(&data[s..i]), r), v, s));
        }
        run += 1;
    }
    out
}

/// Positions of line structure: first byte, last byte before the newline, the newline of every line.
fn line_structure_positions(data: &[u8]) -> Vec<usize> {
    let mut v = Vec::new();
    let mut start = 0usize;
    for l in data.split_inclusive(|&b| b == b'\n') {
        let end = start + l.len();
        v.push(start);
        if l.len() >= 2 {
            v.push(end - 2);
        }
        v.push(end - 1);
        start = end;
    }
    v.sort_unstable();
    v.dedup();
    v
}

#[derive(Clone, Copy)]
enum PointFault {
    Delete,
    Sub(u8),
}

const PAIR_FAULTS: [PointFault; 7] = [PointFault::Delete, PointFault::Sub(b'\n'), PointFault::Sub(b' '), PointFault::Sub(b'>'), PointFault::Sub(b'0'), PointFault::Sub(b'A'), PointFault::Sub(0xFF)];

fn apply_point(data: &mut Vec<u8>, p: usize, f: PointFault) {
    match f {
        PointFault::Delete => {
            data.remove(p);
        }
        PointFault::Sub(b) => data[p] = b,
    }
}

fn fault_name(f: PointFault) -> String {
    match f {
        PointFault::Delete => "delete".into(),
        PointFault::Sub(b) => format!("sub 0x{:02x}", b),
    }
}

// ---------------------------------------------------------------------------------------------
// spaces
// ---------------------------------------------------------------------------------------------

fn short_string(mut index: u64, len: usize) -> Vec<u8> {
    let mut v = vec![0u8; len];
    for i in (0..len).rev() {
        v[i] = SHORT_ALPHABET[(index % 12) as usize];
        index /= 12;
    }
    v
}

fn run_short_strings(ctx: &mut Ctx, rep: &mut Report, ck: &mut Checker, base: &mut u64) {
    let maxlen = if ctx.quick() { 4 } else { 6 };
    rep.space(
        "short_strings",
        "7 readers x ALL byte strings of length 0..=4 (thorough 0..=6) over the 12-symbol alphabet {LF, space, tab, '>', '/', ':', '0', 'A', 'P', 'V', '[', 0xFF} (the empty input included) \
         x chunkings {whole, 1-byte chunks, one cut in the middle}; oracle: Reader::new, every next() up to the first Err/None, 2 further calls after an error and 1 after end of input all return without panic; \
         the scripted stream is asked for data at most 10*(len+10) times (else hang); at most len+2 records before Err/None (else livelock); non-trivial = all",
    );
    rep.sample_space(1, || json!({"alphabet": SHORT_ALPHABET, "max_len": maxlen, "example": "P0\\n"}));
    for (ri, (fmt, alpha)) in READERS.iter().copied().enumerate() {
        for len in 0..=maxlen {
            let total = 12u64.pow(len as u32);
            let mut start = 0u64;
            while start < total {
                let end = (start + 432).min(total);
                let idx = *base;
                *base += 1;
                if ctx.mine(idx) {
                    watch::beat(15, ri as u64, len as u64, start);
                    ctx.crumb(|| format!("C15 short_strings reader={} len={} start={}", fmt.name(), len, start));
                    for s in start..end {
                        let data = short_string(s, len);
                        let origin = Origin { base: "-".into(), fault: "short-string", detail: format!("index {} of length {}", s, len) };
                        ck.check(rep, fmt, alpha, &data, len / 2, true, &origin);
                    }
                }
                start = end;
            }
            if ctx.out_of_time() {
                rep.cap(format!("short_strings: wall-clock cap at reader {} length {}", fmt.name(), len));
                return;
            }
        }
    }
}

/// Per-format line menus of the `short_lines` space.
fn line_menu(fmt: Fmt) -> &'static [&'static str] {
    match fmt {
        Fmt::Jaspar => &[">", ">a b", "", "1", "1 2", " 3", "x", "1 2 "],
        Fmt::Jaspar16 => &[">a", "", "A [ 1 ]", "C [ 1 2 ]", "A [ ]", "A [", "Z [ 1 ]", "A 1"],
        Fmt::Transfac => &["VV 1", "XX", "//", "AC a", "P0 A C", "P0", "01 1 2", "01 1", "RN [1]", "DT 1.1.1 (created); x."],
        Fmt::Uniprobe => &["id", "", "A:\t0.5", "A:\t0.5\t0.5", "C:\t0.5", "A:", "A:\tx", "Z:\t1"],
    }
}

fn run_short_lines(ctx: &mut Ctx, rep: &mut Report, ck: &mut Checker, base: &mut u64) {
    let maxlines = if ctx.quick() { 5 } else { 6 };
    rep.space(
        "short_lines",
        "7 readers x ALL sequences of 1..=5 (thorough 1..=6) lines drawn from a per-format menu of 8-10 lines          [jaspar: '>', '>a b', '', '1', '1 2', ' 3', 'x', '1 2 '; jaspar16: '>a', '', 'A [ 1 ]', 'C [ 1 2 ]', 'A [ ]', 'A [', 'Z [ 1 ]', 'A 1';          transfac: 'VV 1', 'XX', '//', 'AC a', 'P0 A C', 'P0', '01 1 2', '01 1', 'RN [1]', 'DT 1.1.1 (created); x.'; uniprobe: 'id', '', 'A:<tab>0.5', 'A:<tab>0.5<tab>0.5', 'C:<tab>0.5', 'A:', 'A:<tab>x', 'Z:<tab>1']          x {final newline present, absent} x chunkings {whole, 1-byte chunks, one cut at the start of the last line}; same oracle as short_strings; non-trivial = all          (this family contains headers without matrix, ragged and empty rows, duplicated symbol lines, truncated last lines)",
    );
    rep.sample_space(1, || json!({"format": "jaspar", "lines": [">", "1", "1 2", "1", "1"], "final_newline": true}));
    for (ri, (fmt, alpha)) in READERS.iter().copied().enumerate() {
        let menu: Vec<String> = line_menu(fmt).iter().map(|l| l.to_string()).collect();
        let m = menu.len() as u64;
        for nl in 1..=maxlines {
            let total = m.pow(nl as u32);
            let mut start = 0u64;
            while start < total {
                let end = (start + 250).min(total);
                let idx = *base;
                *base += 1;
                if ctx.mine(idx) {
                    watch::beat(15, ri as u64, 300 + nl as u64, start);
                    ctx.crumb(|| format!("C15 short_lines reader={} lines={} start={}", fmt.name(), nl, start));
                    for s in start..end {
                        let mut x = s;
                        let mut picks = vec![0usize; nl];
                        for i in (0..nl).rev() {
                            picks[i] = (x % m) as usize;
                            x /= m;
                        }
                        let mut data = Vec::new();
                        let mut last_start = 0;
                        for &pk in &picks {
                            last_start = data.len();
                            data.extend_from_slice(menu[pk].as_bytes());
                            data.push(b'\n');
                        }
                        for final_nl in [true, false] {
                            let d = if final_nl { &data[..] } else { &data[..data.len() - 1] };
                            let origin = Origin { base: "-".into(), fault: "short-lines", detail: format!("lines {:?} final newline {}", picks, final_nl) };
                            ck.check(rep, fmt, alpha, d, last_start, true, &origin);
                        }
                    }
                }
                start = end;
            }
            if ctx.out_of_time() {
                rep.cap(format!("short_lines: wall-clock cap at reader {} with {} lines", fmt.name(), nl));
                return;
            }
        }
    }
}

const TAG_CHARS: &[u8] = b"ABCDEFGHIJKLMNOPQRSTUVWXYZ0123456789";
const TAG_TAILS: [&str; 4] = ["", "  x", "  1.1.1992 (created); x.", " [1]"];

/// Every two-character line tag over [A-Z0-9] x four line tails, alone (with and without newline) and in front of every
/// line of the TRANSFAC base files (a tag known to one table of the reader but not to another must give Err, not a panic).
fn run_tag_lines(ctx: &mut Ctx, rep: &mut Report, ck: &mut Checker, base: &mut u64, bases: &[(usize, Base)]) {
    rep.space(
        "tag_lines",
        "TRANSFAC readers (DNA, protein): ALL 1296 two-character tags over [A-Z0-9] x line tails {'', '  x', '  1.1.1992 (created); x.', ' [1]'} x placements {the line alone with final newline, alone without, \
         inserted in front of EVERY line of each TRANSFAC base file, appended after the last line} x chunkings {whole, 1-byte chunks, one cut at the inserted line}; same oracle as short_strings; non-trivial = all",
    );
    rep.sample_space(1, || json!({"tag": "TY", "tail": "  x", "placement": "before line 2 of transfac/dna/bare"}));
    let tf: Vec<&(usize, Base)> = bases.iter().filter(|(_, b)| b.fmt == Fmt::Transfac).collect();
    for (a, &c0) in TAG_CHARS.iter().enumerate() {
        let idx = *base;
        *base += 1;
        if !ctx.mine(idx) {
            continue;
        }
        for (bi, &c1) in TAG_CHARS.iter().enumerate() {
            watch::beat(15, 700, a as u64, bi as u64);
            ctx.crumb(|| format!("C15 tag_lines tag={}{}", c0 as char, c1 as char));
            for tail in TAG_TAILS {
                let mut line = vec![c0, c1];
                line.extend_from_slice(tail.as_bytes());
                let detail = format!("tag line {:?}", String::from_utf8_lossy(&line));
                for (_, (fmt, alpha)) in READERS.iter().copied().enumerate().filter(|(_, r)| r.0 == Fmt::Transfac) {
                    let mut with_nl = line.clone();
                    with_nl.push(b'\n');
                    let origin = Origin { base: "-".into(), fault: "tag-line-alone", detail: detail.clone() };
                    ck.check(rep, fmt, alpha, &with_nl, 0, true, &origin);
                    ck.check(rep, fmt, alpha, &line, 0, true, &origin);
                }
                for (_, b) in &tf {
                    let lines = split_lines(&b.bytes);
                    let mut at = 0usize;
                    for k in 0..=lines.len() {
                        let mut v = b.bytes[..at].to_vec();
                        v.extend_from_slice(&line);
                        v.push(b'\n');
                        v.extend_from_slice(&b.bytes[at..]);
                        let origin = Origin { base: b.name.clone(), fault: "tag-line-inserted", detail: format!("{} before line {}", detail, k) };
                        ck.check(rep, b.fmt, b.alpha, &v, at, true, &origin);
                        if k < lines.len() {
                            at += lines[k].len();
                        }
                    }
                }
            }
        }
        if ctx.out_of_time() {
            rep.cap(format!("tag_lines: wall-clock cap at first character {}", c0 as char));
            return;
        }
    }
}

fn run_structural(ctx: &mut Ctx, rep: &mut Report, ck: &mut Checker, base: &mut u64, bases: &[(usize, Base)]) {
    rep.space(
        "structural",
        "small valid base files (1 and 2 records per reader, see samples) x structural faults: for EVERY line {deleted, duplicated (duplicated symbol line / header), swapped with the next, emptied, newline removed, last token dropped (ragged), extra token appended (ragged), leading space, trailing space}; \
         header only; header twice; missing final newline; for EVERY whitespace-separated token {deleted, duplicated, replaced by each of 4294967296, 99999999999999999999, -1, 1e999, nan, inf, 0.5, +, Z, []}; \
         for EVERY maximal run of digits (inside dotted dates, brackets, identifiers too) replaced by each of '', 0, 00, 1, 9, 12, 13, 29, 30, 31, 32, 99, 255, 256, 65535, 65536, 4294967295, 18446744073709551616 \
         x chunkings {whole, 1-byte chunks, one cut at the fault}; same oracle as short_strings; non-trivial = all",
    );
    for (ri, b) in bases {
        let variants = structural_variants(&b.bytes);
        for (vi, (fault, detail, bytes, pos)) in variants.iter().enumerate() {
            let idx = *base;
            *base += 1;
            if !ctx.mine(idx) {
                continue;
            }
            watch::beat(15, *ri as u64, 100, vi as u64);
            ctx.crumb(|| format!("C15 structural base={} variant={} {} {}", b.name, vi, fault, detail));
            let origin = Origin { base: b.name.clone(), fault, detail: detail.clone() };
            if *fault == "last-token-dropped (ragged)" {
                rep.sample_space(2, || json!({"base": b.name, "fault": fault, "detail": detail, "text": lossy(bytes)}));
            }
            ck.check(rep, b.fmt, b.alpha, bytes, *pos, true, &origin);
        }
        if ctx.out_of_time() {
            rep.cap(format!("structural: wall-clock cap at {}", b.name));
            return;
        }
    }
}

fn run_mutations(ctx: &mut Ctx, rep: &mut Report, ck: &mut Checker, base: &mut u64, bases: &[(usize, Base)], full_bytes: bool, space: &str) {
    let all: Vec<u8> = (0..=255u8).collect();
    let menu: &[u8] = if full_bytes { &all } else { &MUT_BYTES };
    for (ri, b) in bases {
        let data = &b.bytes;
        let len = data.len();
        // kind 0 prefix, 1 delete, 2 substitute, 3 insert
        for kind in 0..4usize {
            let npos = if kind == 3 || kind == 0 { len + 1 } else { len };
            for p in 0..npos {
                let idx = *base;
                *base += 1;
                if !ctx.mine(idx) {
                    continue;
                }
                watch::beat(15, *ri as u64, kind as u64, p as u64);
                ctx.crumb(|| format!("C15 {} base={} kind={} (0 prefix,1 delete,2 substitute,3 insert) pos={}", space, b.name, kind, p));
                rep.space(space, "");
                match kind {
                    0 => {
                        let origin = Origin { base: b.name.clone(), fault: "prefix", detail: format!("first {} of {} bytes", p, len) };
                        ck.check(rep, b.fmt, b.alpha, &data[..p], p.saturating_sub(1), p < len, &origin);
                    }
                    1 => {
                        let mut v = data.clone();
                        v.remove(p);
                        let origin = Origin { base: b.name.clone(), fault: "delete", detail: format!("byte {} (0x{:02x})", p, data[p]) };
                        ck.check(rep, b.fmt, b.alpha, &v, p, true, &origin);
                    }
                    2 => {
                        let mut v = data.clone();
                        for &x in menu {
                            v[p] = x;
                            let origin = Origin { base: b.name.clone(), fault: "substitute", detail: format!("byte {} 0x{:02x} -> 0x{:02x}", p, data[p], x) };
                            ck.check(rep, b.fmt, b.alpha, &v, p, x != data[p], &origin);
                        }
                    }
                    _ => {
                        for &x in menu {
                            let mut v = data.clone();
                            v.insert(p, x);
                            let origin = Origin { base: b.name.clone(), fault: "insert", detail: format!("0x{:02x} before byte {}", x, p) };
                            ck.check(rep, b.fmt, b.alpha, &v, p, true, &origin);
                        }
                    }
                }
            }
            if ctx.out_of_time() {
                rep.cap(format!("{}: wall-clock cap at {} kind {}", space, b.name, kind));
                return;
            }
        }
    }
}

/// Runs of valid multi-byte UTF-8 characters inserted at every position: malformed input whose
/// remainder (the part error messages quote or slice) is long and not ASCII, with every alignment
/// of the character boundaries relative to the insertion point (ASCII pad 0..=3 x character widths 2, 3, 4).
fn run_utf8_runs(ctx: &mut Ctx, rep: &mut Report, ck: &mut Checker, base: &mut u64, bases: &[(usize, Base)]) {
    rep.space(
        "utf8_runs",
        "small valid base files x EVERY insertion position 0..=len x {0,1,2,3} ASCII pad bytes followed by a run of >= 96 bytes of valid multi-byte UTF-8 characters of width 2 (U+00E9), 3 (U+20AC) or 4 (U+1F600),          i.e. every alignment of multi-byte character boundaries relative to any byte offset the reader may slice at; plus runs of 1, 2, 4, 23 and 100 bytes that are NOT valid UTF-8 (0xFF, 0x80, 0xC3) at every insertion position; x chunkings {whole, 1-byte chunks, one cut at the fault}; same oracle as short_strings",
    );
    let chars: [&str; 3] = ["\u{e9}", "\u{20ac}", "\u{1f600}"];
    for (ri, b) in bases {
        let data = &b.bytes;
        for p in 0..=data.len() {
            let idx = *base;
            *base += 1;
            if !ctx.mine(idx) {
                continue;
            }
            watch::beat(16, *ri as u64, 0, p as u64);
            for pad in 0..4usize {
                for (wi, ch) in chars.iter().enumerate() {
                    let mut ins: Vec<u8> = vec![b'x'; pad];
                    while ins.len() < 96 + pad {
                        ins.extend_from_slice(ch.as_bytes());
                    }
                    let mut v = data[..p].to_vec();
                    v.extend_from_slice(&ins);
                    v.extend_from_slice(&data[p..]);
                    let origin = Origin { base: b.name.clone(), fault: "utf8-run", detail: format!("{} pad bytes + run of {}-byte characters before byte {}", pad, wi + 2, p) };
                    ck.check(rep, b.fmt, b.alpha, &v, p, true, &origin);
                }
            }
            // runs of bytes that are NOT valid UTF-8 (0xFF; lone continuation bytes 0x80; lone lead bytes 0xC3): a reader
            // that decodes lossily sees three bytes per invalid byte and its offsets drift by twice the run length
            for &bad in &[0xFFu8, 0x80, 0xC3] {
                for &n in &[1usize, 2, 4, 23, 100] {
                    let mut v = data[..p].to_vec();
                    v.extend(std::iter::repeat(bad).take(n));
                    v.extend_from_slice(&data[p..]);
                    let origin = Origin { base: b.name.clone(), fault: "invalid-utf8-run", detail: format!("{} x 0x{:02x} before byte {}", n, bad, p) };
                    ck.check(rep, b.fmt, b.alpha, &v, p, true, &origin);
                }
            }
        }
        if ctx.out_of_time() {
            rep.cap(format!("utf8_runs: wall-clock cap at {}", b.name));
            return;
        }
    }
}

/// Case flips: every ASCII letter of every base file with its case flipped (keywords, tags and
/// symbols that parsers may match case-insensitively but dispatch on case-sensitively).
fn run_case_flips(ctx: &mut Ctx, rep: &mut Report, ck: &mut Checker, base: &mut u64, bases: &[(usize, Base)]) {
    rep.space(
        "case_flips",
        "small valid base files x EVERY position holding an ASCII letter x that letter with its case flipped (single flips), plus every maximal run of letters flipped as a whole and with only its first letter flipped; \
         x chunkings {whole, 1-byte chunks, one cut at the fault}; same oracle as short_strings",
    );
    for (ri, b) in bases {
        let data = &b.bytes;
        let idx = *base;
        *base += 1;
        if !ctx.mine(idx) {
            continue;
        }
        watch::beat(17, *ri as u64, 0, 0);
        for p in 0..data.len() {
            if data[p].is_ascii_alphabetic() {
                let mut v = data.clone();
                v[p] ^= 0x20;
                let origin = Origin { base: b.name.clone(), fault: "case-flip", detail: format!("byte {} {:?} -> {:?}", p, data[p] as char, v[p] as char) };
                ck.check(rep, b.fmt, b.alpha, &v, p, true, &origin);
            }
        }
        // whole words
        let mut p = 0;
        while p < data.len() {
            if data[p].is_ascii_alphabetic() {
                let mut e = p;
                while e < data.len() && data[e].is_ascii_alphabetic() {
                    e += 1;
                }
                if e - p >= 2 {
                    let mut v = data.clone();
                    for x in v[p..e].iter_mut() {
                        *x ^= 0x20;
                    }
                    let origin = Origin { base: b.name.clone(), fault: "case-flip-word", detail: format!("bytes {}..{}", p, e) };
                    ck.check(rep, b.fmt, b.alpha, &v, p, true, &origin);
                }
                p = e;
            } else {
                p += 1;
            }
        }
    }
}

fn run_pairs(ctx: &mut Ctx, rep: &mut Report, ck: &mut Checker, base: &mut u64, bases: &[(usize, Base)]) {
    rep.space(
        "two_faults",
        "thorough only: base files x every pair p<q of line-structure positions {first byte, last byte before the newline, the newline of every line} x every pair of point faults from {delete, substitute LF, space, '>', '0', 'A', 0xFF} x the three chunkings (cut at p); same oracle; non-trivial = all",
    );
    for (ri, b) in bases {
        let pos = line_structure_positions(&b.bytes);
        for (pi, &p) in pos.iter().enumerate() {
            let idx = *base;
            *base += 1;
            if !ctx.mine(idx) {
                continue;
            }
            watch::beat(15, *ri as u64, 200, p as u64);
            ctx.crumb(|| format!("C15 two_faults base={} first position={}", b.name, p));
            for &q in &pos[pi + 1..] {
                for fq in PAIR_FAULTS {
                    for fp in PAIR_FAULTS {
                        let mut v = b.bytes.clone();
                        apply_point(&mut v, q, fq);
                        apply_point(&mut v, p, fp);
                        let origin = Origin { base: b.name.clone(), fault: "two-faults", detail: format!("{} at {}, {} at {}", fault_name(fp), p, fault_name(fq), q) };
                        ck.check(rep, b.fmt, b.alpha, &v, p, true, &origin);
                    }
                }
            }
        }
        if ctx.out_of_time() {
            rep.cap(format!("two_faults: wall-clock cap at {}", b.name));
            return;
        }
    }
}

// ---------------------------------------------------------------------------
// long runs of one filler line (stack depth / per-line state over thousands of lines)
// ---------------------------------------------------------------------------

const FILLERS: [&str; 5] = ["\n", " \n", "\t\n", "\r\n", "XX\n"];

/// The input of one long-run case: `n` copies of `filler` inserted before line `at` of the base file
/// (`at` = number of lines: appended after the last line).
fn long_run_bytes(base: &[u8], filler: &str, n: usize, at: usize) -> Vec<u8> {
    let lines: Vec<&[u8]> = base.split_inclusive(|&b| b == b'\n').collect();
    let mut out = Vec::with_capacity(base.len() + n * filler.len());
    for (i, l) in lines.iter().enumerate() {
        if i == at {
            for _ in 0..n {
                out.extend_from_slice(filler.as_bytes());
            }
        }
        out.extend_from_slice(l);
    }
    if at >= lines.len() {
        for _ in 0..n {
            out.extend_from_slice(filler.as_bytes());
        }
    }
    out
}

fn long_run_case(b: &Base, fi: usize, n: usize, at: usize) -> Value {
    json!({"kind": "long_run", "format": b.fmt.name(), "alphabet": b.alpha.name(), "base": b.name, "base_text": lossy(&b.bytes),
           "filler": FILLERS[fi], "filler_index": fi, "repeat": n, "before_line": at})
}

fn check_long_run(rep: &mut Report, b: &Base, fi: usize, n: usize, at: usize) {
    let data = long_run_bytes(&b.bytes, FILLERS[fi], n, at);
    for policy in [crate::chunked::Policy::Whole, crate::chunked::Policy::Uniform(4096)] {
        watch::tick();
        let run = run_reader(b.fmt, b.alpha, &data, policy, &plan_for(data.len()));
        rep.eval_distinct(true);
        if let Some((class, msg)) = verdict(&run, data.len()) {
            rep.violation(
                format!("C15 {} long-run {}", b.fmt.name(), class),
                format!("{} [{} x {:?} before line {} of {}]", msg, n, FILLERS[fi], at, b.name),
                || long_run_case(b, fi, n, at),
            );
            break;
        }
    }
}

fn run_long_runs(ctx: &mut Ctx, rep: &mut Report, base: &mut u64, bases: &[(usize, Base)]) {
    rep.space(
        "long_runs",
        "base files (first one per reader) x a run of N in {3000, 50000, 400000} copies of one filler line {LF, space LF, tab LF, CR LF, 'XX' LF} inserted before EVERY line and after the last one \
         x chunkings {whole, 4096-byte chunks}; same oracle as short_strings (no panic, no hang, and no stack exhaustion: a crash of the process is attributed to the case through its breadcrumb)",
    );
    let mut seen = std::collections::BTreeSet::new();
    for (_, b) in bases {
        if !seen.insert((b.fmt.name(), b.alpha.name())) {
            continue;
        }
        let nlines = b.bytes.split_inclusive(|&x| x == b'\n').count();
        for fi in 0..FILLERS.len() {
            for &n in &[3000usize, 50_000, 400_000] {
                for at in 0..=nlines {
                    let idx = *base;
                    *base += 1;
                    if !ctx.mine(idx) {
                        continue;
                    }
                    if !vx_core::util::crumb(|| json!({"module": "C15", "case": long_run_case(b, fi, n, at)}).to_string()) {
                        continue;
                    }
                    check_long_run(rep, b, fi, n, at);
                }
            }
        }
        if ctx.out_of_time() {
            rep.cap(format!("long_runs: wall-clock cap at {}", b.name));
            return;
        }
    }
}

pub fn run(ctx: &mut Ctx, rep: &mut Report) {
    watch::start();
    let quick = ctx.quick();
    let mut ck = Checker::new();
    let mut base = 0u64;
    let mut bases: Vec<(usize, Base)> = Vec::new();
    for (ri, (fmt, alpha)) in READERS.iter().copied().enumerate() {
        for b in base_files(fmt, alpha) {
            bases.push((ri, b));
        }
    }
    // how the valid base files read (a base file that does not parse is still a legitimate C15 input, but say so)
    for (_, b) in &bases {
        let run = run_reader(b.fmt, b.alpha, &b.bytes, crate::chunked::Policy::Whole, &plan_for(b.bytes.len()));
        let nrec = run.events.iter().filter(|e| matches!(e, Event::Rec(_))).count();
        let clean = run.panic.is_none() && !run.events.iter().any(|e| matches!(e, Event::Err(_)));
        if !clean {
            rep.note(format!("base file {} does not read cleanly on this tree ({} records, then {:?})", b.name, nrec, run.events.last().map(|e| e.short())));
        }
    }

    if ctx.wants("short_strings") {
        run_short_strings(ctx, rep, &mut ck, &mut base);
    }
    if !ctx.capped && ctx.wants("short_lines") {
        run_short_lines(ctx, rep, &mut ck, &mut base);
    }
    if !ctx.capped && ctx.wants("structural") {
        run_structural(ctx, rep, &mut ck, &mut base, &bases);
    }
    if !ctx.capped && ctx.wants("tag_lines") {
        run_tag_lines(ctx, rep, &mut ck, &mut base, &bases);
    }
    if !ctx.capped && ctx.wants("mutations") {
        rep.space(
            "mutations",
            if quick {
                "small valid base files (2 per DNA reader, 3 for TRANSFAC, 1 per protein reader; 60-330 bytes) x {EVERY prefix (length 0..=len), EVERY single-byte deletion, EVERY position x substitution by each byte of {LF,CR,space,tab,'>','[',']','/',':','0','9','A','X','.','-','e',0x00,0xC3,0xFF}, EVERY position 0..=len x insertion of each of these bytes} \
                 x chunkings {whole, 1-byte chunks, one cut at the fault}; same oracle as short_strings; non-trivial = the input differs from the valid file"
            } else {
                "small valid base files (2 per DNA reader, 3 for TRANSFAC, 1 per protein reader; 60-330 bytes) x {EVERY prefix (length 0..=len), EVERY single-byte deletion, EVERY position x substitution by EVERY byte value 0..=255, EVERY position 0..=len x insertion of EVERY byte value} \
                 x chunkings {whole, 1-byte chunks, one cut at the fault}; same oracle as short_strings; non-trivial = the input differs from the valid file"
            },
        );
        for (_, b) in bases.iter().take(2) {
            rep.sample_space(2, || json!({"base": b.name, "len": b.bytes.len(), "text": lossy(&b.bytes)}));
        }
        run_mutations(ctx, rep, &mut ck, &mut base, &bases, !quick, "mutations");
    }
    if !ctx.capped && ctx.wants("case_flips") {
        run_case_flips(ctx, rep, &mut ck, &mut base, &bases);
    }
    if !ctx.capped && ctx.wants("utf8_runs") {
        run_utf8_runs(ctx, rep, &mut ck, &mut base, &bases);
    }
    if !ctx.capped && ctx.wants("long_runs") {
        run_long_runs(ctx, rep, &mut base, &bases);
    }
    if !quick && !ctx.capped && ctx.wants("two_faults") {
        run_pairs(ctx, rep, &mut ck, &mut base, &bases);
    }
    if !quick && !ctx.capped && ctx.wants("bundled_mutations") {
        rep.space(
            "bundled_mutations",
            "thorough only: the 8 bundled files of lightmotif-io/tests (319-2326 bytes) as base files x {every prefix, every single-byte deletion, every position x substitution / insertion of the 19-byte alphabet} x the three chunkings; same oracle",
        );
        let mut extra = Vec::new();
        for (path, fmt) in crate::c14::CORPUS.iter().skip(2) {
            match std::fs::read(path) {
                Ok(bytes) => {
                    let ri = READERS.iter().position(|r| r.0 == *fmt && r.1 == Alpha::Dna).unwrap_or(0);
                    extra.push((ri, Base { name: path.to_string(), fmt: *fmt, alpha: Alpha::Dna, bytes }));
                }
                Err(e) => rep.not_covered(format!("bundled file {} could not be read: {}", path, e)),
            }
        }
        run_mutations(ctx, rep, &mut ck, &mut base, &extra, false, "bundled_mutations");
    }
    ck.finish(rep);
    rep.not_covered("Python clause of C15 (lightmotif.load raising ValueError/OSError instead of PanicException) is checked by vx-py, not here");
    rep.not_covered("I/O errors returned by the underlying stream are not injected: the property quantifies over byte strings and chunkings");
    watch::stop();
}

pub fn replay(_ctx: &mut Ctx, rep: &mut Report, case: &Value) {
    watch::start();
    rep.space("replay", "replay of one recorded (input bytes, chunking) case");
    // monitored runs hand over {"module": .., "case": ..}
    let case = if case.get("case").is_some() && case.get("format").is_none() { &case["case"] } else { case };
    if case["kind"].as_str() == Some("long_run") {
        let fmt = case["format"].as_str().and_then(Fmt::from_name).expect("format");
        let alpha = case["alphabet"].as_str().and_then(Alpha::from_name).expect("alphabet");
        let name = case["base"].as_str().unwrap_or("");
        match base_files(fmt, alpha).into_iter().find(|b| b.name == name) {
            Some(b) => check_long_run(rep, &b, case["filler_index"].as_u64().unwrap() as usize, case["repeat"].as_u64().unwrap() as usize, case["before_line"].as_u64().unwrap() as usize),
            None => rep.machinery(format!("C15 replay: unknown base file {}", name)),
        }
        watch::stop();
        return;
    }
    let fmt = case["format"].as_str().and_then(Fmt::from_name).expect("format");
    let alpha = case["alphabet"].as_str().and_then(Alpha::from_name).expect("alphabet");
    let data = bytes_from_json(&case["bytes"]).expect("bytes");
    let chunking = Chunking::from_json(&case["chunking"]).expect("chunking");
    let run = run_reader(fmt, alpha, &data, chunking.policy(), &plan_for(data.len()));
    rep.eval_distinct(true);
    if let Some((class, msg)) = verdict(&run, data.len()) {
        let origin = Origin {
            base: case["origin"]["base"].as_str().unwrap_or("-").to_string(),
            fault: "replay",
            detail: case["origin"]["detail"].as_str().unwrap_or("").to_string(),
        };
        rep.violation(format!("C15 {} {}", fmt.name(), class), format!("{} [{} bytes, {:?}]", msg, data.len(), chunking), || case_json(fmt, alpha, &data, &chunking, &origin));
    } else {
        rep.note(format!("calls returned: {:?}", run.events.iter().map(|e| e.short()).collect::<Vec<_>>()));
    }
    watch::stop();
}
