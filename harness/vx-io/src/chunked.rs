//! Scripted `BufRead`: the byte stream of one file, delivered in chunks whose boundaries are decided
//! by a *policy* (DESIGN §0 "schedules", §C14).
//!
//! Model.  A chunking of a stream of `len` bytes is a set of absolute cut positions
//! `0 < c1 < c2 < ... < len`; the reader hands out the chunks `[0,c1) [c1,c2) ... [ck,len)` in order.
//! `fill_buf` returns the unconsumed part of the current chunk (exactly what `std::io::BufReader`
//! does when its consumer took only part of the buffer) and only decides a new chunk end once the
//! current chunk is used up.  After the last chunk `fill_buf` returns the empty slice for ever.
//!
//! Policies:
//!  * `Whole`          – no cut;
//!  * `Uniform(k)`     – cuts at every multiple of k (a `BufReader` of capacity k over an in-memory source);
//!  * `Cuts(list)`     – an explicit recorded cut list (used by `replay`, no explorer involved);
//!  * `Explore{..}`    – every new chunk end is an answer of the `vx_core::Chooser`: answer 0 (default)
//!                       = "all remaining bytes", answer j>0 = "cut at the j-th admissible position after
//!                       the current one".  With deviation bound d the `ChoiceExplorer` therefore visits
//!                       every chunking with at most d cuts drawn from the admissible positions, once each.
//!
//! Hang guard: `fill_buf` panics once it has been called more than `limit` times; the checkers turn
//! that panic into a hang / livelock verdict.

use std::cell::RefCell;
use std::io::{BufRead, Read};

use vx_core::Chooser;

pub const FILL_LIMIT_MSG: &str = "vx-io hang guard: fill_buf call limit exceeded";

#[derive(Default, Debug, Clone)]
pub struct Trace {
    /// number of `fill_buf` calls so far
    pub fills: u64,
    /// cut positions actually decided (ascending)
    pub cuts: Vec<usize>,
    /// total bytes consumed
    pub consumed: usize,
}

pub enum Policy<'c, 'p> {
    Whole,
    Uniform(usize),
    Cuts(&'c [usize]),
    Explore {
        ch: &'c mut Chooser<'p>,
        /// admissible positions for the first cut (None = every position 1..len-1)
        first: Option<&'c [usize]>,
        /// admissible positions for every later cut (None = every position)
        rest: Option<&'c [usize]>,
    },
}

pub struct ScriptedReader<'d, 'c, 'p> {
    data: &'d [u8],
    pos: usize,
    chunk_end: usize,
    policy: Policy<'c, 'p>,
    trace: &'c RefCell<Trace>,
    limit: u64,
}

/// The limit on `fill_buf` calls used everywhere: 10 * (len + 10).
pub fn fill_limit(len: usize) -> u64 {
    10 * (len as u64 + 10)
}

impl<'d, 'c, 'p> ScriptedReader<'d, 'c, 'p> {
    pub fn new(data: &'d [u8], policy: Policy<'c, 'p>, trace: &'c RefCell<Trace>) -> Self {
        *trace.borrow_mut() = Trace::default();
        Self { data, pos: 0, chunk_end: 0, policy, trace, limit: fill_limit(data.len()) }
    }

    fn next_end(&mut self) -> usize {
        let len = self.data.len();
        let pos = self.pos;
        let ncuts = self.trace.borrow().cuts.len();
        match &mut self.policy {
            Policy::Whole => len,
            Policy::Uniform(k) => (pos + (*k).max(1)).min(len),
            Policy::Cuts(list) => list.iter().copied().find(|&c| c > pos && c < len).unwrap_or(len),
            Policy::Explore { ch, first, rest } => {
                let adm = if ncuts == 0 { *first } else { *rest };
                match adm {
                    None => {
                        // alternatives: 0 = all remaining, j = cut at pos + j (j in 1..len-pos-1)
                        let n = len - pos;
                        let j = ch.choose(n.max(1));
                        if j == 0 {
                            len
                        } else {
                            pos + j
                        }
                    }
                    Some(list) => {
                        let lo = list.partition_point(|&c| c <= pos);
                        let hi = list.partition_point(|&c| c < len);
                        let n = 1 + hi.saturating_sub(lo);
                        let j = ch.choose(n);
                        if j == 0 {
                            len
                        } else {
                            list[lo + j - 1]
                        }
                    }
                }
            }
        }
    }
}

impl BufRead for ScriptedReader<'_, '_, '_> {
    fn fill_buf(&mut self) -> std::io::Result<&[u8]> {
        {
            let mut t = self.trace.borrow_mut();
            t.fills += 1;
            if t.fills > self.limit {
                drop(t);
                panic!("{} ({} calls, {} of {} bytes consumed)", FILL_LIMIT_MSG, self.limit, self.pos, self.data.len());
            }
        }
        if self.pos == self.chunk_end && self.pos < self.data.len() {
            let end = self.next_end();
            debug_assert!(end > self.pos && end <= self.data.len());
            if end < self.data.len() {
                self.trace.borrow_mut().cuts.push(end);
            }
            self.chunk_end = end;
        }
        Ok(&self.data[self.pos..self.chunk_end])
    }

    fn consume(&mut self, amt: usize) {
        assert!(amt <= self.chunk_end - self.pos, "vx-io: consume({}) beyond the {} bytes handed out", amt, self.chunk_end - self.pos);
        self.pos += amt;
        self.trace.borrow_mut().consumed = self.pos;
    }
}

impl Read for ScriptedReader<'_, '_, '_> {
    fn read(&mut self, buf: &mut [u8]) -> std::io::Result<usize> {
        let avail = self.fill_buf()?;
        let n = avail.len().min(buf.len());
        buf[..n].copy_from_slice(&avail[..n]);
        self.consume(n);
        Ok(n)
    }
}

/// JSON form of a chunking, understood by `chunking_from_json`.
#[derive(Clone, Debug, PartialEq)]
pub enum Chunking {
    Whole,
    Uniform(usize),
    Cuts(Vec<usize>),
}

impl Chunking {
    pub fn to_json(&self) -> serde_json::Value {
        match self {
            Chunking::Whole => serde_json::json!({"kind": "whole"}),
            Chunking::Uniform(k) => serde_json::json!({"kind": "uniform", "size": k}),
            Chunking::Cuts(c) => serde_json::json!({"kind": "cuts", "cuts": c}),
        }
    }

    pub fn from_json(v: &serde_json::Value) -> Option<Chunking> {
        match v.get("kind")?.as_str()? {
            "whole" => Some(Chunking::Whole),
            "uniform" => Some(Chunking::Uniform(v.get("size")?.as_u64()? as usize)),
            "cuts" => Some(Chunking::Cuts(v.get("cuts")?.as_array()?.iter().filter_map(|x| x.as_u64().map(|y| y as usize)).collect())),
            _ => None,
        }
    }

    pub fn policy(&self) -> Policy<'_, 'static> {
        match self {
            Chunking::Whole => Policy::Whole,
            Chunking::Uniform(k) => Policy::Uniform(*k),
            Chunking::Cuts(c) => Policy::Cuts(c),
        }
    }
}
