//! C14 — well-formed motif files load completely and exactly under any stream chunking (DESIGN §C14).
//!
//! Inputs: files produced by `writer.rs` from an explicit record-list menu, and the files bundled
//! with the repository.  Schedules: the scripted `BufRead` of `chunked.rs`, whose chunk ends are the
//! answers of `vx_core::ChoiceExplorer` (deviation bound = number of cuts), plus uniform chunk sizes.

use std::collections::BTreeMap;

use serde_json::{json, Value};
use vx_core::util::panic_class;
use vx_core::{fnv1a, ChoiceExplorer, Ctx, Report};

use crate::chunked::{Chunking, Policy};
use crate::drive::{bytes_from_json, bytes_json, lossy, run_reader, Alpha, Event, Fmt, Obs, Plan, Run, READERS};
use crate::watch;
use crate::writer::{self, GenSpec, RecordModel};

pub const PAIR_LIMIT: usize = 400;

// ---------------------------------------------------------------------------------------------
// oracle for generated files
// ---------------------------------------------------------------------------------------------

pub struct GenFile {
    pub label: String,
    pub fmt: Fmt,
    pub alpha: Alpha,
    pub recs: Vec<RecordModel>,
    pub bytes: Vec<u8>,
    pub expect: Vec<(Obs, bool)>,
}

impl GenFile {
    pub fn from_spec(spec: &GenSpec) -> GenFile {
        let recs = writer::build_records(spec);
        let bytes = writer::write_file(spec.fmt, &recs, spec.vv, spec.crlf);
        Self::from_parts(spec.label(), spec.fmt, spec.alpha, recs, bytes)
    }

    pub fn from_parts(label: String, fmt: Fmt, alpha: Alpha, recs: Vec<RecordModel>, bytes: Vec<u8>) -> GenFile {
        let expect = recs.iter().map(|r| writer::expected(fmt, alpha, r)).collect();
        GenFile { label, fmt, alpha, recs, bytes, expect }
    }

    fn plan(&self) -> Plan {
        Plan { max_calls: self.recs.len() + 2, after_error: 0, after_end: 0, ignore_terminal: true }
    }

    fn case(&self, chunking: &Chunking) -> Value {
        json!({
            "kind": "generated",
            "format": self.fmt.name(),
            "alphabet": self.alpha.name(),
            "spec": self.label,
            "bytes": bytes_json(&self.bytes),
            "lossy": lossy(&self.bytes),
            "chunking": chunking.to_json(),
            "records": self.recs.iter().map(|r| r.to_json()).collect::<Vec<_>>(),
        })
    }
}

fn compare_record(i: usize, got: &Obs, want: &Obs, counts_demanded: bool) -> Result<(), (String, String)> {
    for (field, g, w) in [
        ("id", &got.id, &want.id),
        ("accession", &got.accession, &want.accession),
        ("name", &got.name, &want.name),
        ("description", &got.description, &want.description),
    ] {
        if g != w {
            return Err((format!("metadata {}", field), format!("record {}: {} is {:?}, written {:?}", i, field, g, w)));
        }
    }
    let want_rows = want.rows.as_ref().expect("expected rows");
    let rows = match &got.rows {
        Some(r) => r,
        None => return Err(("matrix missing".into(), format!("record {}: no matrix returned, {} positions written", i, want_rows.len()))),
    };
    if rows.len() != want_rows.len() {
        return Err(("matrix rows".into(), format!("record {}: matrix has {} positions, {} written", i, rows.len(), want_rows.len())));
    }
    for (p, (gr, wr)) in rows.iter().zip(want_rows).enumerate() {
        if gr.len() != wr.len() {
            return Err(("matrix columns".into(), format!("record {}: row {} has {} columns, alphabet has {}", i, p, gr.len(), wr.len())));
        }
        for (c, (g, w)) in gr.iter().zip(wr).enumerate() {
            if g.to_bits() != w.to_bits() {
                let class = if *w == 0.0 { "matrix other-column-nonzero" } else { "matrix cell" };
                return Err((class.into(), format!("record {}: entry (position {}, column {}) is {}, written {}", i, p, c, g, w)));
            }
        }
    }
    if counts_demanded && got.counts != want.counts {
        return Err(("to_counts".into(), format!("record {}: to_counts() = {:?}, written {:?}", i, got.counts, want.counts)));
    }
    Ok(())
}

/// Oracle: exactly the written records in order, then end of input twice.  Returns (class, message).
fn judge(file: &GenFile, run: &Run) -> Result<(), (String, String)> {
    let n = file.recs.len();
    if let Some((phase, call, p)) = &run.panic {
        if run.hang() {
            return Err(("hang fill_buf-limit".into(), format!("call {} ({}): {}", call, phase.name(), p)));
        }
        return Err((format!("panic[{}] {}", phase.name(), panic_class(p)), format!("panic in call {} ({}): {}", call, phase.name(), p)));
    }
    for i in 0..n {
        match run.events.get(i) {
            Some(Event::Rec(o)) => compare_record(i, o, &file.expect[i].0, file.expect[i].1)?,
            Some(Event::Err(e)) => {
                return Err((format!("error-on-valid {}", e), format!("record {} of {}: reader returned error {} for a well-formed file", i, n, e)));
            }
            Some(Event::End) => return Err(("missing-record".into(), format!("end of input after {} records, {} written", i, n))),
            None => return Err(("missing-call".into(), format!("only {} calls were made", run.events.len()))),
        }
    }
    for k in 0..2 {
        match run.events.get(n + k) {
            Some(Event::End) => {}
            Some(ev) => {
                return Err((
                    if k == 0 { "extra-item-after-last-record".to_string() } else { "end-of-input-not-sticky".to_string() },
                    format!("call {} after the {} written records returned {} instead of end of input", n + k, n, ev.short()),
                ))
            }
            None => return Err(("missing-call".into(), format!("only {} calls were made", run.events.len()))),
        }
    }
    Ok(())
}

// ---------------------------------------------------------------------------------------------
// counting helpers
// ---------------------------------------------------------------------------------------------

#[derive(Default)]
struct Tally(BTreeMap<&'static str, (u64, u64)>);

impl Tally {
    fn add(&mut self, space: &'static str, nontrivial: bool) {
        let e = self.0.entry(space).or_default();
        e.0 += 1;
        if nontrivial {
            e.1 += 1;
        }
    }
    fn flush(&mut self, rep: &mut Report) {
        for (k, (e, n)) in std::mem::take(&mut self.0) {
            if let Some(s) = rep.spaces.get_mut(k) {
                s.evaluations += e;
                s.nontrivial += n;
            }
        }
    }
}

fn sig(fmt: Fmt, whole_ok: bool, chunking: &Chunking, class: &str) -> String {
    if whole_ok && *chunking != Chunking::Whole {
        format!("C14 {} chunking-dependent result: {}", fmt.name(), class)
    } else {
        format!("C14 {} {}", fmt.name(), class)
    }
}

/// Positions for the restricted triple-cut space: line starts +-1 (record boundaries are line
/// starts) and one position inside the first multi-digit number of every line.
fn structure_positions(bytes: &[u8]) -> Vec<usize> {
    let len = bytes.len();
    let mut v = Vec::new();
    let mut line_start = 0usize;
    let mut need_number = true;
    let mut i = 0usize;
    while i < len {
        if i == line_start {
            for p in [i.wrapping_sub(1), i, i + 1] {
                if p >= 1 && p < len {
                    v.push(p);
                }
            }
            need_number = true;
        }
        if need_number && bytes[i].is_ascii_digit() && i + 1 < len && bytes[i + 1].is_ascii_digit() {
            v.push(i + 1);
            need_number = false;
        }
        if bytes[i] == b'\n' {
            line_start = i + 1;
        }
        i += 1;
    }
    v.sort_unstable();
    v.dedup();
    v
}

fn nblocks(len: usize) -> usize {
    ((len * len) >> 22).clamp(1, 64)
}

// ---------------------------------------------------------------------------------------------
// generated files
// ---------------------------------------------------------------------------------------------

const SP_CUT1: &str = "gen_cuts_le1";
const SP_CUT2: &str = "gen_cuts_2";
const SP_CUT3: &str = "gen_cuts_3_structural";
const SP_UNIFORM: &str = "gen_uniform";
const SP_CORPUS: &str = "corpus";

fn declare_spaces(rep: &mut Report, quick: bool) {
    rep.space(
        SP_CUT1,
        "writer-generated files: 7 readers {jaspar, jaspar16 dna/protein, transfac dna/protein, uniprobe dna/protein} x file menu \
         [single records: widths {1,2,7,25} x content modes {wiring codes (all cells of a record distinct), magnitude menu {0,1,9,10,99999,u32::MAX} cycled over cells, ten-digit values, all zero}; \
         every column layout (all 24 orders of ACGT + 3 layouts naming the wildcard; 4 layouts for protein); every metadata presence mask (description; AC/ID/NA/DE: 16 masks); every writer style (separators, padding, TRANSFAC decoration lines, blank lines); \
         lists of 2,3,5,17,64,300 records rotating all of these per record (quick tier: 300-record files for the DNA readers only, width 1, compact styles; protein lists up to 17 records; thorough adds 64- and 300-record protein files and 300-record DNA files of widths 1,2,7 with every style, 20-170 KB); CRLF variants; optional VV header] \
         x {no cut, every single cut position 1..len-1} enumerated by the deviation-bounded choice explorer (bound 1) over the scripted BufRead's fill_buf answers; \
         oracle: exactly the written records in order (id/accession/name/description as written, every entry at (position, symbol column), other columns 0; TRANSFAC entries as f32 and to_counts() when all counts are exact in f32; UniPROBE entries = the printed shortest-round-trip f32), then None twice; \
         non-trivial = every execution (a 0-cut run is the content check of its file)",
    );
    rep.space(
        SP_CUT2,
        if quick {
            "the same files restricted to length <= 400 bytes (quick: <= 260 bytes) x every pair of cut positions (choice explorer, bound 2; executions with < 2 cuts are counted under gen_cuts_le1); same oracle; all non-trivial"
        } else {
            "the same files restricted to length <= 400 bytes x every pair of cut positions (choice explorer, bound 2; executions with < 2 cuts are counted under gen_cuts_le1); same oracle; all non-trivial"
        },
    );
    if !quick {
        rep.space(
            SP_CUT3,
            "files <= 400 bytes x every triple of cut positions drawn from {line start -1, line start, line start +1 (record boundaries are line starts), one position inside the first multi-digit number of each line} (choice explorer, bound 3, admissible positions restricted); same oracle; all non-trivial",
        );
    }
    rep.space(
        SP_UNIFORM,
        "every generated file x uniform chunk size k in 1..=min(len,128) and {4096, 8192} (cuts at every multiple of k); same oracle; non-trivial = k < len",
    );
}

/// Explore one (file, block) work item with the given bound; `first` restricts the first cut.
fn explore_file(file: &GenFile, bound: usize, first: Option<&[usize]>, rest: Option<&[usize]>, count_zero: bool, min_cuts_counted: usize, rep: &mut Report, tally: &mut Tally, whole_ok: &mut Option<bool>) {
    let plan = file.plan();
    let mut ex = ChoiceExplorer::new(bound);
    ex.explore(&mut |ch| {
        watch::tick();
        let run = run_reader(file.fmt, file.alpha, &file.bytes, Policy::Explore { ch, first, rest }, &plan);
        let ncuts = run.trace.cuts.len();
        let verdict = judge(file, &run);
        if ncuts == 0 && whole_ok.is_none() {
            *whole_ok = Some(verdict.is_ok());
        }
        if ncuts == 0 && !count_zero {
            return;
        }
        if ncuts < min_cuts_counted {
            return;
        }
        let space = match ncuts {
            0 | 1 => SP_CUT1,
            2 => SP_CUT2,
            _ => SP_CUT3,
        };
        tally.add(space, true);
        if let Err((class, msg)) = verdict {
            let chunking = if ncuts == 0 { Chunking::Whole } else { Chunking::Cuts(run.trace.cuts.clone()) };
            rep.space(space, "");
            rep.violation(sig(file.fmt, whole_ok.unwrap_or(false), &chunking, &class), format!("{} [{}; {:?}]", msg, file.label, chunking), || file.case(&chunking));
        }
    });
}

fn run_generated(ctx: &mut Ctx, rep: &mut Report, base: &mut u64) {
    let quick = ctx.quick();
    declare_spaces(rep, quick);
    let pair_limit = if quick { 260 } else { PAIR_LIMIT };
    let mut tally = Tally::default();
    for (ri, (fmt, alpha)) in READERS.iter().copied().enumerate() {
        let specs = writer::menu(fmt, alpha, quick);
        for (fi, spec) in specs.iter().enumerate() {
            let file = GenFile::from_spec(spec);
            let f = &file;
            let len = file.bytes.len();
            let t_file = std::time::Instant::now(); // only read when VX_IO_TIMING is set (menu sizing aid)
            let nb = nblocks(len);
            let mut whole_ok: Option<bool> = None;
            // --- single cuts, in nb strided blocks
            for b in 0..nb {
                let idx = *base;
                *base += 1;
                if !ctx.mine(idx) {
                    continue;
                }
                watch::beat(14, ri as u64, fi as u64, b as u64);
                ctx.crumb(|| format!("C14 single cuts file={} block={}/{}", f.label, b, nb));
                let block: Vec<usize> = (1..len).filter(|p| p % nb == b).collect();
                rep.space(SP_CUT1, "");
                if b == 0 {
                    rep.sample_space(3, || json!({"file": f.label, "len": len, "records": f.recs.len(), "chunkings": "no cut + every single cut", "head": lossy(&f.bytes[..len.min(160)])}));
                }
                explore_file(f, 1, Some(&block), None, b == 0, 0, rep, &mut tally, &mut whole_ok);
                tally.flush(rep);
                if ctx.out_of_time() {
                    rep.cap(format!("{}: wall-clock cap in file {} block {}/{}", SP_CUT1, f.label, b, nb));
                    return;
                }
            }
            // --- pairs and restricted triples on small files
            if len <= pair_limit {
                let idx = *base;
                *base += 1;
                if ctx.mine(idx) {
                        watch::beat(14, ri as u64, fi as u64, 1000);
                    ctx.crumb(|| format!("C14 pairs file={}", f.label));
                    rep.space(SP_CUT2, "");
                    rep.sample_space(2, || json!({"file": f.label, "len": len, "records": f.recs.len(), "chunkings": format!("all {} pairs of cut positions", (len.saturating_sub(1)) * (len.saturating_sub(2)) / 2)}));
                    explore_file(f, 2, None, None, false, 2, rep, &mut tally, &mut whole_ok);
                    tally.flush(rep);
                }
            }
            if !quick && len <= PAIR_LIMIT {
                let idx = *base;
                *base += 1;
                if ctx.mine(idx) {
                        watch::beat(14, ri as u64, fi as u64, 2000);
                    ctx.crumb(|| format!("C14 triples file={}", f.label));
                    let pos = structure_positions(&f.bytes);
                    rep.space(SP_CUT3, "");
                    rep.sample_space(2, || json!({"file": f.label, "len": len, "admissible_cut_positions": pos}));
                    explore_file(f, 3, Some(&pos), Some(&pos), false, 3, rep, &mut tally, &mut whole_ok);
                    tally.flush(rep);
                }
            }
            // --- uniform chunk sizes
            let idx = *base;
            *base += 1;
            if ctx.mine(idx) {
                watch::beat(14, ri as u64, fi as u64, 3000);
                ctx.crumb(|| format!("C14 uniform file={}", f.label));
                rep.space(SP_UNIFORM, "");
                rep.sample_space(2, || json!({"file": f.label, "len": len, "chunk_sizes": format!("1..={} and 4096, 8192", len.min(128))}));
                let plan = f.plan();
                let base_ok = judge(f, &run_reader(f.fmt, f.alpha, &f.bytes, Policy::Whole, &plan)).is_ok();
                for k in (1..=len.min(128)).chain([4096, 8192]) {
                    let run = run_reader(f.fmt, f.alpha, &f.bytes, Policy::Uniform(k), &plan);
                    tally.add(SP_UNIFORM, k < len);
                    if let Err((class, msg)) = judge(f, &run) {
                        let chunking = Chunking::Uniform(k);
                        rep.violation(sig(f.fmt, base_ok, &chunking, &class), format!("{} [{}; {:?}]", msg, f.label, chunking), || f.case(&chunking));
                    }
                }
                tally.flush(rep);
            }
            if std::env::var_os("VX_IO_TIMING").is_some() {
                eprintln!("{:8.3}s len={:6} {}", t_file.elapsed().as_secs_f64(), len, spec.label());
            }
            if ctx.out_of_time() {
                rep.cap(format!("generated files: wall-clock cap after file {}", spec.label()));
                return;
            }
        }
    }
}

// ---------------------------------------------------------------------------------------------
// bundled corpora (differential oracle)
// ---------------------------------------------------------------------------------------------

pub const CORPUS: [(&str, Fmt); 10] = [
    ("/repo/lightmotif-io/benches/JASPAR2024.pwm", Fmt::Jaspar16),
    ("/repo/lightmotif-io/benches/prodoric.transfac", Fmt::Transfac),
    ("/repo/lightmotif-io/tests/MA0001.3.pfm", Fmt::Jaspar16),
    ("/repo/lightmotif-io/tests/MA0017.3.pfm", Fmt::Jaspar16),
    ("/repo/lightmotif-io/tests/M00005.transfac", Fmt::Transfac),
    ("/repo/lightmotif-io/tests/MA0001.2.transfac", Fmt::Transfac),
    ("/repo/lightmotif-io/tests/MX000001.transfac", Fmt::Transfac),
    ("/repo/lightmotif-io/tests/Cha4.uniprobe", Fmt::Uniprobe),
    ("/repo/lightmotif-io/tests/Gal4.uniprobe", Fmt::Uniprobe),
    ("/repo/lightmotif-io/tests/demo.uniprobe", Fmt::Uniprobe),
];

/// Number of records of a bundled file counted on the text alone (no parser involved).
fn count_records_textually(fmt: Fmt, bytes: &[u8]) -> usize {
    let lines: Vec<&[u8]> = bytes.split(|&b| b == b'\n').collect();
    match fmt {
        Fmt::Jaspar | Fmt::Jaspar16 => lines.iter().filter(|l| l.first() == Some(&b'>')).count(),
        Fmt::Transfac => {
            let n = lines.iter().filter(|l| l.starts_with(b"//")).count();
            if bytes.starts_with(b"VV") {
                n.saturating_sub(1)
            } else {
                n
            }
        }
        Fmt::Uniprobe => lines
            .iter()
            .filter(|l| !l.iter().all(|b| b.is_ascii_whitespace()))
            .filter(|l| !(l.len() >= 2 && l[0].is_ascii_uppercase() && l[1] == b':'))
            .count(),
    }
}

fn corpus_plan(len: usize) -> Plan {
    Plan { max_calls: len + 2, after_error: 0, after_end: 1, ignore_terminal: false }
}

fn corpus_case(path: &str, fmt: Fmt, bytes: &[u8], chunking: &Chunking) -> Value {
    let mut v = json!({
        "kind": "corpus",
        "format": fmt.name(),
        "alphabet": "dna",
        "path": path,
        "len": bytes.len(),
        "fnv1a": format!("{:016x}", fnv1a(bytes)),
        "chunking": chunking.to_json(),
    });
    if bytes.len() <= 65536 {
        v["bytes"] = bytes_json(bytes);
        v["lossy"] = json!(lossy(bytes));
    }
    v
}

/// Baseline checks of a bundled file read in one piece. Returns (class, msg) problems.
fn corpus_baseline_problems(fmt: Fmt, bytes: &[u8], base: &Run) -> Vec<(String, String)> {
    let mut out = Vec::new();
    if let Some((phase, call, p)) = &base.panic {
        out.push((format!("panic[{}] {}", phase.name(), panic_class(p)), format!("panic in call {}: {}", call, p)));
        return out;
    }
    let nrec = base.events.iter().filter(|e| matches!(e, Event::Rec(_))).count();
    if let Some(e) = base.events.iter().find(|e| matches!(e, Event::Err(_))) {
        out.push(("error-on-bundled-file".into(), format!("after {} records the reader returned {}", nrec, e.short())));
        return out;
    }
    let want = count_records_textually(fmt, bytes);
    if nrec != want {
        out.push(("record-count".into(), format!("{} records returned, the text holds {} record headers/terminators", nrec, want)));
    }
    let tail: Vec<&Event> = base.events.iter().skip(nrec).collect();
    if tail.len() != 2 || tail.iter().any(|e| **e != Event::End) {
        out.push(("end-of-input".into(), format!("after the records the calls returned {:?}, expected end of input twice", tail.iter().map(|e| e.short()).collect::<Vec<_>>())));
    }
    out
}

fn corpus_diff(base: &Run, run: &Run) -> Option<(String, String)> {
    if let Some((phase, call, p)) = &run.panic {
        if run.hang() {
            return Some(("hang fill_buf-limit".into(), p.clone()));
        }
        return Some((format!("panic[{}] {}", phase.name(), panic_class(p)), format!("panic in call {}: {}", call, p)));
    }
    if run.events.len() != base.events.len() {
        return Some((
            "different number of items".into(),
            format!("{} items under this chunking, {} when read in one piece", run.events.len(), base.events.len()),
        ));
    }
    for (i, (a, b)) in run.events.iter().zip(&base.events).enumerate() {
        if a != b {
            return Some(("different item".into(), format!("item {}: {} under this chunking, {} when read in one piece", i, a.short(), b.short())));
        }
    }
    None
}

fn corpus_cut_positions(len: usize, quick: bool) -> Vec<usize> {
    if len <= 4096 {
        return (1..len).collect();
    }
    let target = if quick { 1024 } else { 16384 };
    let stride = (len / target).max(1) | 1;
    (1..len).filter(|p| p % stride == 1 % stride).collect()
}

fn run_corpus(ctx: &mut Ctx, rep: &mut Report, base_idx: &mut u64) {
    let quick = ctx.quick();
    rep.space(
        SP_CORPUS,
        "bundled files (benches/JASPAR2024.pwm 2346 records, benches/prodoric.transfac 353 records, the 8 files of lightmotif-io/tests; DNA readers) x \
         {every uniform chunk size 1..=128, 4096, 8192; single cuts: every position for files <= 4096 bytes, otherwise every position p = 1 mod s with s = (len/1024)|1 (thorough: (len/16384)|1); all pairs of cuts for files <= 400 bytes}; \
         oracle: the whole-file read returns only records, as many as a textual count of headers/terminators, then None twice; every chunking returns the identical item sequence (ids, metadata, all matrix entries); non-trivial = chunkings with at least one cut inside the file",
    );
    let mut tally = Tally::default();
    for (ci, (path, fmt)) in CORPUS.iter().enumerate() {
        let bytes = match std::fs::read(path) {
            Ok(b) => b,
            Err(e) => {
                rep.not_covered(format!("bundled file {} could not be read: {}", path, e));
                continue;
            }
        };
        let len = bytes.len();
        let plan = corpus_plan(len);
        let alpha = Alpha::Dna;
        let mut baseline: Option<Run> = None;
        let get_base = |b: &mut Option<Run>| {
            if b.is_none() {
                *b = Some(run_reader(*fmt, alpha, &bytes, Policy::Whole, &plan));
            }
        };
        // work item 0: the baseline itself
        let idx = *base_idx;
        *base_idx += 1;
        if ctx.mine(idx) {
            watch::beat(140, ci as u64, 0, 0);
            get_base(&mut baseline);
            let b = baseline.as_ref().unwrap();
            tally.add(SP_CORPUS, false);
            rep.sample_space(3, || json!({"path": path, "format": fmt.name(), "len": len, "records_read": b.events.iter().filter(|e| matches!(e, Event::Rec(_))).count()}));
            for (class, msg) in corpus_baseline_problems(*fmt, &bytes, b) {
                rep.violation(format!("C14 {} corpus {}", fmt.name(), class), format!("{} [{}]", msg, path), || corpus_case(path, *fmt, &bytes, &Chunking::Whole));
            }
        }
        // uniform sizes
        for k in (1..=len.min(128)).chain([4096, 8192]) {
            let idx = *base_idx;
            *base_idx += 1;
            if !ctx.mine(idx) {
                continue;
            }
            watch::beat(140, ci as u64, 1, k as u64);
            get_base(&mut baseline);
            let b = baseline.as_ref().unwrap();
            let run = run_reader(*fmt, alpha, &bytes, Policy::Uniform(k), &plan);
            tally.add(SP_CORPUS, k < len);
            if let Some((class, msg)) = corpus_diff(b, &run) {
                let ch = Chunking::Uniform(k);
                rep.violation(format!("C14 {} corpus chunking-dependent result: {}", fmt.name(), class), format!("{} [{}; {:?}]", msg, path, ch), || corpus_case(path, *fmt, &bytes, &ch));
            }
            if ctx.out_of_time() {
                tally.flush(rep);
                rep.cap(format!("corpus: wall-clock cap in {} uniform size {}", path, k));
                return;
            }
        }
        // single cuts (work items of 16 cuts)
        let cuts = corpus_cut_positions(len, quick);
        for group in cuts.chunks(16) {
            let idx = *base_idx;
            *base_idx += 1;
            if !ctx.mine(idx) {
                continue;
            }
            get_base(&mut baseline);
            let b = baseline.as_ref().unwrap();
            for &c in group {
                watch::beat(140, ci as u64, 2, c as u64);
                let cl = [c];
                let run = run_reader(*fmt, alpha, &bytes, Policy::Cuts(&cl), &plan);
                tally.add(SP_CORPUS, true);
                if let Some((class, msg)) = corpus_diff(b, &run) {
                    let ch = Chunking::Cuts(vec![c]);
                    rep.violation(format!("C14 {} corpus chunking-dependent result: {}", fmt.name(), class), format!("{} [{}; {:?}]", msg, path, ch), || corpus_case(path, *fmt, &bytes, &ch));
                }
            }
            if ctx.out_of_time() {
                tally.flush(rep);
                rep.cap(format!("corpus: wall-clock cap in {} single cuts", path));
                return;
            }
        }
        // all pairs for the small files, through the choice explorer
        if len <= PAIR_LIMIT {
            let idx = *base_idx;
            *base_idx += 1;
            if ctx.mine(idx) {
                watch::beat(140, ci as u64, 3, 0);
                get_base(&mut baseline);
            let b = baseline.as_ref().unwrap();
                let mut ex = ChoiceExplorer::new(2);
                ex.explore(&mut |ch| {
                    watch::tick();
                    let run = run_reader(*fmt, alpha, &bytes, Policy::Explore { ch, first: None, rest: None }, &plan);
                    if run.trace.cuts.len() < 2 {
                        return;
                    }
                    tally.add(SP_CORPUS, true);
                    if let Some((class, msg)) = corpus_diff(b, &run) {
                        let chk = Chunking::Cuts(run.trace.cuts.clone());
                        rep.violation(format!("C14 {} corpus chunking-dependent result: {}", fmt.name(), class), format!("{} [{}; {:?}]", msg, path, chk), || corpus_case(path, *fmt, &bytes, &chk));
                    }
                });
            }
        }
        tally.flush(rep);
    }
}

pub fn run(ctx: &mut Ctx, rep: &mut Report) {
    watch::start();
    let mut base = 0u64;
    if ctx.wants("generated") {
        run_generated(ctx, rep, &mut base);
    }
    if !ctx.capped && ctx.wants("corpus") {
        run_corpus(ctx, rep, &mut base);
    }
    rep.note("JASPAR (raw) has no bundled data file; it is covered by the generated files only");
    rep.note("headers containing '>' inside the description and blank lines between JASPAR records are not generated (the latter are rejected by design, DESIGN section 7)");
    watch::stop();
}

pub fn replay(_ctx: &mut Ctx, rep: &mut Report, case: &Value) {
    watch::start();
    rep.space("replay", "replay of one recorded (file, chunking) case");
    rep.eval_distinct(true);
    let fmt = case["format"].as_str().and_then(Fmt::from_name).expect("format");
    let alpha = case["alphabet"].as_str().and_then(Alpha::from_name).expect("alphabet");
    let chunking = Chunking::from_json(&case["chunking"]).expect("chunking");
    match case["kind"].as_str().unwrap_or("generated") {
        "generated" => {
            let bytes = bytes_from_json(&case["bytes"]).expect("bytes");
            let recs: Vec<RecordModel> = case["records"].as_array().expect("records").iter().map(|r| RecordModel::from_json(r).expect("record")).collect();
            let file = GenFile::from_parts(case["spec"].as_str().unwrap_or("replay").to_string(), fmt, alpha, recs, bytes);
            let plan = file.plan();
            let whole_ok = judge(&file, &run_reader(fmt, alpha, &file.bytes, Policy::Whole, &plan)).is_ok();
            let run = run_reader(fmt, alpha, &file.bytes, chunking.policy(), &plan);
            if let Err((class, msg)) = judge(&file, &run) {
                rep.violation(sig(fmt, whole_ok, &chunking, &class), format!("{} [{}; {:?}]", msg, file.label, chunking), || file.case(&chunking));
            }
        }
        "corpus" => {
            let path = case["path"].as_str().unwrap_or("").to_string();
            let bytes = match bytes_from_json(&case["bytes"]) {
                Some(b) => b,
                None => std::fs::read(&path).expect("bundled file"),
            };
            let plan = corpus_plan(bytes.len());
            let base = run_reader(fmt, alpha, &bytes, Policy::Whole, &plan);
            if chunking == Chunking::Whole {
                for (class, msg) in corpus_baseline_problems(fmt, &bytes, &base) {
                    rep.violation(format!("C14 {} corpus {}", fmt.name(), class), format!("{} [{}]", msg, path), || corpus_case(&path, fmt, &bytes, &Chunking::Whole));
                }
            } else {
                let run = run_reader(fmt, alpha, &bytes, chunking.policy(), &plan);
                if let Some((class, msg)) = corpus_diff(&base, &run) {
                    rep.violation(format!("C14 {} corpus chunking-dependent result: {}", fmt.name(), class), format!("{} [{}; {:?}]", msg, path, chunking), || corpus_case(&path, fmt, &bytes, &chunking));
                }
            }
        }
        k => panic!("unknown case kind {}", k),
    }
    watch::stop();
}
