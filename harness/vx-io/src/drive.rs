//! Drives the four real readers of `lightmotif-io` over a scripted byte stream and records what
//! each call returned, each call under `vx_core::catch`.

use std::cell::RefCell;

use lightmotif::abc::{Alphabet, Dna, Protein, Symbol};
use lightmotif_io::error::Error;
use vx_core::catch;

use crate::chunked::{Policy, ScriptedReader, Trace, FILL_LIMIT_MSG};

#[derive(Clone, Copy, Debug, PartialEq, Eq, Hash)]
pub enum Fmt {
    Jaspar,
    Jaspar16,
    Transfac,
    Uniprobe,
}

#[derive(Clone, Copy, Debug, PartialEq, Eq, Hash)]
pub enum Alpha {
    Dna,
    Protein,
}

impl Fmt {
    pub fn name(self) -> &'static str {
        match self {
            Fmt::Jaspar => "jaspar",
            Fmt::Jaspar16 => "jaspar16",
            Fmt::Transfac => "transfac",
            Fmt::Uniprobe => "uniprobe",
        }
    }
    pub fn from_name(s: &str) -> Option<Fmt> {
        [Fmt::Jaspar, Fmt::Jaspar16, Fmt::Transfac, Fmt::Uniprobe].into_iter().find(|f| f.name() == s)
    }
}

impl Alpha {
    pub fn name(self) -> &'static str {
        match self {
            Alpha::Dna => "dna",
            Alpha::Protein => "protein",
        }
    }
    pub fn from_name(s: &str) -> Option<Alpha> {
        [Alpha::Dna, Alpha::Protein].into_iter().find(|f| f.name() == s)
    }
    /// Letters of the alphabet in column order (taken from the core crate, which is not the code under test here).
    pub fn letters(self) -> Vec<u8> {
        fn of<A: Alphabet>() -> Vec<u8> {
            let mut v = vec![0u8; A::symbols().len()];
            for s in A::symbols() {
                v[s.as_index()] = s.as_ascii();
            }
            v
        }
        match self {
            Alpha::Dna => of::<Dna>(),
            Alpha::Protein => of::<Protein>(),
        }
    }
}

/// The seven (format, alphabet) readers that exist.
pub const READERS: [(Fmt, Alpha); 7] = [
    (Fmt::Jaspar, Alpha::Dna),
    (Fmt::Jaspar16, Alpha::Dna),
    (Fmt::Jaspar16, Alpha::Protein),
    (Fmt::Transfac, Alpha::Dna),
    (Fmt::Transfac, Alpha::Protein),
    (Fmt::Uniprobe, Alpha::Dna),
    (Fmt::Uniprobe, Alpha::Protein),
];

/// What a returned record exposes through the public accessors.
#[derive(Clone, Debug, PartialEq)]
pub struct Obs {
    pub id: Option<String>,
    pub accession: Option<String>,
    pub name: Option<String>,
    pub description: Option<String>,
    /// `None` only for a TRANSFAC record without a matrix block
    pub rows: Option<Vec<Vec<f64>>>,
    /// TRANSFAC only: `Record::to_counts()`
    pub counts: Option<Vec<Vec<u32>>>,
}

#[derive(Clone, Debug, PartialEq)]
pub enum Event {
    Rec(Box<Obs>),
    Err(String),
    End,
}

impl Event {
    pub fn short(&self) -> String {
        match self {
            Event::Rec(o) => format!("record(id={:?})", o.id),
            Event::Err(e) => format!("error({})", e),
            Event::End => "end-of-input".into(),
        }
    }
}

#[derive(Clone, Copy, Debug, PartialEq, Eq)]
pub enum Phase {
    New,
    Next,
    AfterError,
    AfterEnd,
}

impl Phase {
    pub fn name(self) -> &'static str {
        match self {
            Phase::New => "new",
            Phase::Next => "next",
            Phase::AfterError => "after-error",
            Phase::AfterEnd => "after-end",
        }
    }
}

/// How long to keep calling `next()`.
#[derive(Clone, Copy, Debug)]
pub struct Plan {
    /// stop after this many calls in total whatever they return
    pub max_calls: usize,
    /// keep calling after the first `Err` this many more times (0 = stop at the first error)
    pub after_error: usize,
    /// keep calling after the first `None` this many more times
    pub after_end: usize,
    /// if true an `Err` does not end the main phase (used by C14: it wants exactly n+2 calls)
    pub ignore_terminal: bool,
}

#[derive(Clone, Debug)]
pub struct Run {
    pub events: Vec<Event>,
    /// (phase, call index, message) of a panic; the run stops there
    pub panic: Option<(Phase, usize, String)>,
    /// the main phase hit `max_calls` without seeing Err / None
    pub horizon_hit: bool,
    pub trace: Trace,
}

impl Run {
    pub fn hang(&self) -> bool {
        matches!(&self.panic, Some((_, _, m)) if m.contains(FILL_LIMIT_MSG))
    }
}

fn err_kind(e: &Error) -> String {
    match e {
        Error::InvalidData => "InvalidData".to_string(),
        Error::Io(e) => format!("Io:{:?}", e.kind()),
        Error::Nom(e) => format!("Nom:{:?}", e.code),
    }
}

fn rows_u32<A: Alphabet>(m: &lightmotif::dense::DenseMatrix<u32, A::K>) -> Vec<Vec<f64>> {
    (0..m.rows()).map(|i| m[i].iter().map(|&x| x as f64).collect()).collect()
}

fn rows_f32<A: Alphabet>(m: &lightmotif::dense::DenseMatrix<f32, A::K>) -> Vec<Vec<f64>> {
    (0..m.rows()).map(|i| m[i].iter().map(|&x| x as f64).collect()).collect()
}

fn iterate<I, R>(
    make: impl FnOnce() -> I,
    obs: impl Fn(&R) -> Obs,
    plan: &Plan,
    trace: &RefCell<Trace>,
) -> Run
where
    I: Iterator<Item = Result<R, Error>>,
{
    let mut run = Run { events: Vec::new(), panic: None, horizon_hit: false, trace: Trace::default() };
    let mut it = match catch(make) {
        Ok(it) => it,
        Err(p) => {
            run.panic = Some((Phase::New, 0, p));
            run.trace = trace.borrow().clone();
            return run;
        }
    };
    let mut phase = Phase::Next;
    let mut extra_left = 0usize;
    let mut calls = 0usize;
    loop {
        if calls >= plan.max_calls {
            if phase == Phase::Next && !plan.ignore_terminal {
                run.horizon_hit = true;
            }
            break;
        }
        if phase != Phase::Next {
            if extra_left == 0 {
                break;
            }
            extra_left -= 1;
        }
        let r = catch(|| it.next().map(|r| r.map(|rec| obs(&rec))));
        calls += 1;
        match r {
            Err(p) => {
                run.panic = Some((phase, calls - 1, p));
                break;
            }
            Ok(None) => {
                run.events.push(Event::End);
                if phase == Phase::Next && !plan.ignore_terminal {
                    phase = Phase::AfterEnd;
                    extra_left = plan.after_end;
                }
            }
            Ok(Some(Err(e))) => {
                run.events.push(Event::Err(err_kind(&e)));
                if phase == Phase::Next && !plan.ignore_terminal {
                    phase = Phase::AfterError;
                    extra_left = plan.after_error;
                }
            }
            Ok(Some(Ok(o))) => run.events.push(Event::Rec(Box::new(o))),
        }
    }
    // dropping the reader must not panic either
    if let Err(p) = catch(move || drop(it)) {
        if run.panic.is_none() {
            run.panic = Some((phase, calls, format!("while dropping the reader: {}", p)));
        }
    }
    run.trace = trace.borrow().clone();
    run
}

fn run_alpha<A: Alphabet>(fmt: Fmt, data: &[u8], policy: Policy, plan: &Plan) -> Run {
    let trace = RefCell::new(Trace::default());
    let rd = ScriptedReader::new(data, policy, &trace);
    match fmt {
        Fmt::Jaspar => unreachable!("jaspar (raw) is DNA only"),
        Fmt::Jaspar16 => iterate(
            move || lightmotif_io::jaspar16::read::<_, A>(rd),
            |r: &lightmotif_io::jaspar16::Record<A>| Obs {
                id: Some(r.id().to_string()),
                accession: None,
                name: None,
                description: r.description().map(String::from),
                rows: Some(rows_u32::<A>(r.matrix().matrix())),
                counts: None,
            },
            plan,
            &trace,
        ),
        Fmt::Transfac => iterate(
            move || lightmotif_io::transfac::read::<_, A>(rd),
            |r: &lightmotif_io::transfac::Record<A>| Obs {
                id: r.id().map(String::from),
                accession: r.accession().map(String::from),
                name: r.name().map(String::from),
                description: r.description().map(String::from),
                rows: r.data().map(|m| rows_f32::<A>(m)),
                counts: r.to_counts().map(|c| {
                    let m = c.matrix();
                    (0..m.rows()).map(|i| m[i].to_vec()).collect()
                }),
            },
            plan,
            &trace,
        ),
        Fmt::Uniprobe => iterate(
            move || lightmotif_io::uniprobe::read::<_, A>(rd),
            |r: &lightmotif_io::uniprobe::Record<A>| Obs {
                id: Some(r.id().to_string()),
                accession: None,
                name: None,
                description: None,
                rows: Some(rows_f32::<A>(r.matrix().matrix())),
                counts: None,
            },
            plan,
            &trace,
        ),
    }
}

/// Construct the reader for (fmt, alpha) over `data` chunked by `policy` and call `next()` per `plan`.
pub fn run_reader(fmt: Fmt, alpha: Alpha, data: &[u8], policy: Policy, plan: &Plan) -> Run {
    match (fmt, alpha) {
        (Fmt::Jaspar, _) => {
            let trace = RefCell::new(Trace::default());
            let rd = ScriptedReader::new(data, policy, &trace);
            iterate(
                move || lightmotif_io::jaspar::read(rd),
                |r: &lightmotif_io::jaspar::Record| Obs {
                    id: Some(r.id().to_string()),
                    accession: None,
                    name: None,
                    description: r.description().map(String::from),
                    rows: Some(rows_u32::<Dna>(r.matrix().matrix())),
                    counts: None,
                },
                plan,
                &trace,
            )
        }
        (_, Alpha::Dna) => run_alpha::<Dna>(fmt, data, policy, plan),
        (_, Alpha::Protein) => run_alpha::<Protein>(fmt, data, policy, plan),
    }
}

pub fn bytes_json(data: &[u8]) -> serde_json::Value {
    serde_json::json!(data)
}

pub fn bytes_from_json(v: &serde_json::Value) -> Option<Vec<u8>> {
    Some(v.as_array()?.iter().map(|x| x.as_u64().unwrap_or(0) as u8).collect())
}

pub fn lossy(data: &[u8]) -> String {
    let s = String::from_utf8_lossy(data);
    if s.len() > 4000 {
        let mut cut = 4000;
        while !s.is_char_boundary(cut) {
            cut -= 1;
        }
        format!("{}... [{} bytes in total]", &s[..cut], data.len())
    } else {
        s.into_owned()
    }
}
