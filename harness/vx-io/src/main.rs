fn main() {
    vx_core::cli::main(|_prop, _ctx, _rep| false, |_prop, _ctx, _rep, _case| false);
}
