//! vx-io: checkers for the motif-file reader properties (C14, C15).  Invoked by /verif/bin/check.

mod chunked;
mod drive;
mod watch;
mod writer;

mod c14;
mod c15;

fn main() {
    vx_core::cli::main(
        |prop, ctx, rep| {
            match prop {
                "C14" => c14::run(ctx, rep),
                "C15" => c15::run(ctx, rep),
                _ => return false,
            }
            true
        },
        |prop, ctx, rep, case| {
            match prop {
                "C14" => c14::replay(ctx, rep, case),
                "C15" => c15::replay(ctx, rep, case),
                _ => return false,
            }
            true
        },
    );
}
