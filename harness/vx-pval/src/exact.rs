//! Shared pieces of the C11 / C12 / C13 checkers (DESIGN §C11, §C12/C13, §1.3):
//!
//!  * `Mat`   – an explicit DNA scoring matrix (rows of five f32 cells, A C T G N) plus an explicit
//!              background (integer counts handed to `Background::from_counts`); this is what a
//!              replay file stores, and the only thing the library objects are built from;
//!  * `Exact` – the brute-force oracle: every K'^M word over the symbols whose background
//!              frequency is non-zero, with its exact f64 score and its background probability,
//!              sorted once, tail sums by suffix accumulation, look-ups by binary search;
//!  * the matrix / background menus that all three properties enumerate.
//!
//! Nothing here looks at the code under test except for *building* the log-odds menu through the
//! public `CountMatrix -> to_freq -> to_scoring` route (the resulting cells are then frozen into a
//! `Mat`, and the matrix every check runs on is `ScoringMatrix::new(background, cells)`).

use generic_array::GenericArray;
use lightmotif::abc::{Background, Dna, Protein, Pseudocounts};
use lightmotif::dense::DenseMatrix;
use lightmotif::num::{U21, U5};
use lightmotif::pwm::{CountMatrix, ScoringMatrix};
use serde_json::{json, Value};

/// Protein ranks carrying the four DNA columns in `Mat::scoring_protein` (scattered, the last non-wildcard rank included).
pub const PROTEIN_SUPPORT: [usize; 4] = [19, 2, 11, 6];

/// Absolute allowance on every probability comparison (DESIGN §C11: f32 backgrounds do not sum to 1).
pub const EPS_P: f64 = 1e-6;

/// Allowance when a TFM-PVALUE probability is compared with the exact reference value `x`: relative
/// (both are f64 sums of the same products of f32 frequencies; only the summation order differs), so
/// that tail probabilities far below 1e-6 (skewed backgrounds, p below machine epsilon) are decided too.
pub fn eps_rel(x: f64) -> f64 {
    EPS_P * x.abs().min(1.0)
}

// ------------------------------------------------------------------------------------------------
// explicit matrices
// ------------------------------------------------------------------------------------------------

#[derive(Clone, Debug)]
pub struct Mat {
    /// M rows of K = 5 cells in the library's symbol order A, C, T, G, N.
    pub rows: Vec<[f32; 5]>,
    /// Counts handed to `Background::from_counts` (frequency = count / total in f32).
    pub bg_counts: [usize; 5],
    /// How the matrix was generated (for humans; not used by replay).
    pub origin: String,
    /// Short class tag that becomes part of violation signatures:
    /// `bg4` (wildcard background frequency 0), `bg5,N=finite`, `bg5,N=-inf`, `bg4,N>0` ...
    pub class: String,
}

fn f32_to_json(x: f32) -> Value {
    if x.is_finite() {
        json!(x as f64) // exact widening; serde prints the shortest f64 that round-trips
    } else {
        json!(format!("{}", x))
    }
}

fn f32_from_json(v: &Value) -> f32 {
    match v {
        Value::String(s) => match s.as_str() {
            "-inf" => f32::NEG_INFINITY,
            "inf" => f32::INFINITY,
            _ => f32::NAN,
        },
        _ => v.as_f64().unwrap() as f32,
    }
}

impl Mat {
    pub fn width(&self) -> usize {
        self.rows.len()
    }

    /// Reference background frequencies: count / total, both converted to f32 first
    /// (the documented behaviour of `from_counts`).
    pub fn bg_freq(&self) -> [f32; 5] {
        let total: usize = self.bg_counts.iter().sum();
        let mut f = [0f32; 5];
        for k in 0..5 {
            f[k] = self.bg_counts[k] as f32 / total as f32;
        }
        f
    }

    /// Sum over rows of (max - min) of the finite non-wildcard cells.
    pub fn range_sum(&self) -> f64 {
        self.rows
            .iter()
            .map(|r| {
                let mx = r[..4].iter().cloned().fold(f32::NEG_INFINITY, f32::max) as f64;
                let mn = r[..4].iter().cloned().fold(f32::INFINITY, f32::min) as f64;
                mx - mn
            })
            .sum()
    }

    /// Classify the wildcard column / background for signatures.
    pub fn classify(rows: &[[f32; 5]], bg_counts: &[usize; 5]) -> String {
        let all_neg_inf = rows.iter().all(|r| r[4] == f32::NEG_INFINITY);
        let any_pos = rows.iter().any(|r| r[4].is_finite() && r[4] > 0.0);
        let n = if all_neg_inf {
            "N=-inf"
        } else if any_pos {
            "N>0"
        } else {
            "N=finite"
        };
        if bg_counts[4] == 0 {
            if all_neg_inf {
                "bg4".to_string()
            } else {
                format!("bg4,{}", n)
            }
        } else {
            format!("bg5,{}", n)
        }
    }

    pub fn new(rows: Vec<[f32; 5]>, bg_counts: [usize; 5], origin: String) -> Mat {
        let class = Mat::classify(&rows, &bg_counts);
        Mat { rows, bg_counts, origin, class }
    }

    /// The library objects every check runs on.
    pub fn background(&self) -> Background<Dna> {
        let counts: GenericArray<usize, U5> = GenericArray::from(self.bg_counts);
        Background::<Dna>::from_counts(&counts).expect("menu background must be valid")
    }

    pub fn scoring(&self) -> ScoringMatrix<Dna> {
        let data = DenseMatrix::<f32, U5>::from_rows(self.rows.iter().map(|r| &r[..]).collect::<Vec<_>>());
        ScoringMatrix::new(self.background(), data)
    }

    /// The same score distribution carried by a PROTEIN matrix (TfmPvalue is generic over the alphabet; its symbol
    /// loops run to K-1 = 20): DNA column k sits at protein rank PROTEIN_SUPPORT[k] with the DNA background count,
    /// every other residue has background count 0 and a copy of a DNA cell of its row (so the per-row minima and
    /// maxima, hence ranges and offsets, are unchanged), X carries the DNA wildcard cell. Words over the four
    /// supported residues have exactly the DNA probabilities and scores: `Exact::new(self)` is the oracle for both.
    /// Only for backgrounds that give the DNA wildcard no mass.
    pub fn scoring_protein(&self) -> Option<ScoringMatrix<Protein>> {
        if self.bg_counts[4] != 0 {
            return None;
        }
        let mut counts = [0usize; 21];
        for k in 0..4 {
            counts[PROTEIN_SUPPORT[k]] = self.bg_counts[k];
        }
        let rows: Vec<[f32; 21]> = self
            .rows
            .iter()
            .map(|r| {
                let mut o = [0f32; 21];
                for j in 0..20 {
                    o[j] = r[j % 4];
                }
                for k in 0..4 {
                    o[PROTEIN_SUPPORT[k]] = r[k];
                }
                o[20] = r[4];
                o
            })
            .collect();
        let bg = Background::<Protein>::from_counts(&GenericArray::<usize, U21>::from(counts)).expect("embedded background must be valid");
        let data = DenseMatrix::<f32, U21>::from_rows(rows.iter().map(|r| &r[..]).collect::<Vec<_>>());
        Some(ScoringMatrix::new(bg, data))
    }

    /// A copy whose class (hence every signature) says that the protein embedding was checked.
    pub fn as_protein_embedded(&self) -> Mat {
        let mut m = self.clone();
        m.class = format!("protein-embedded,{}", self.class);
        m
    }

    /// The rows as a Rust array literal (for the `rust_repro` snippets).
    pub fn rust_rows(&self) -> String {
        let rows: Vec<String> = self
            .rows
            .iter()
            .map(|r| {
                let cells: Vec<String> = r.iter().map(|x| if x.is_finite() { format!("{:?}f32", x) } else { "f32::NEG_INFINITY".to_string() }).collect();
                format!("[{}]", cells.join(", "))
            })
            .collect();
        format!("[{}]", rows.join(", "))
    }

    pub fn json(&self) -> Value {
        json!({
            "width": self.rows.len(),
            "matrix_ACTGN": self.rows.iter().map(|r| Value::Array(r.iter().map(|&x| f32_to_json(x)).collect())).collect::<Vec<_>>(),
            "bg_counts_ACTGN": self.bg_counts,
            "bg_freq_f32": self.bg_freq().iter().map(|&x| x as f64).collect::<Vec<_>>(),
            "origin": self.origin,
            "class": self.class,
        })
    }

    pub fn from_json(v: &Value) -> Mat {
        let rows: Vec<[f32; 5]> = v["matrix_ACTGN"]
            .as_array()
            .expect("matrix_ACTGN")
            .iter()
            .map(|r| {
                let r = r.as_array().unwrap();
                let mut o = [0f32; 5];
                for k in 0..5 {
                    o[k] = f32_from_json(&r[k]);
                }
                o
            })
            .collect();
        let c = v["bg_counts_ACTGN"].as_array().expect("bg_counts_ACTGN");
        let mut bg = [0usize; 5];
        for k in 0..5 {
            bg[k] = c[k].as_u64().unwrap() as usize;
        }
        Mat::new(rows, bg, v["origin"].as_str().unwrap_or("replay").to_string())
    }
}

// ------------------------------------------------------------------------------------------------
// brute-force oracle
// ------------------------------------------------------------------------------------------------

pub struct Exact {
    /// Distinct attainable finite scores, ascending.
    pub scores: Vec<f64>,
    /// tail[i] = P(S >= scores[i]).
    pub tail: Vec<f64>,
    /// Number of words enumerated (K'^M).
    pub words: u64,
    /// K' = number of symbols with non-zero background frequency.
    pub letters: usize,
}

impl Exact {
    /// Enumerate all K'^M words.  Per-letter probability = f32 frequency widened to f64 and divided
    /// by the f64 total of the five frequencies; word score = f64 sum of the f32 cells (exact: at
    /// most 8 addends of 24 significant bits); a word with a -inf cell scores -inf and belongs to
    /// no tail `P(S >= x)` with finite x.
    pub fn new(mat: &Mat) -> Exact {
        let f = mat.bg_freq();
        let total: f64 = f.iter().map(|&x| x as f64).sum();
        let letters: Vec<usize> = (0..5).filter(|&k| f[k] > 0.0).collect();
        let mut cur: Vec<(f64, f64)> = vec![(0.0, 1.0)];
        let mut words: u64 = 1;
        for row in &mat.rows {
            words *= letters.len() as u64;
            let mut next = Vec::with_capacity(cur.len() * letters.len());
            for &(s, p) in &cur {
                for &k in &letters {
                    let cell = row[k];
                    if cell == f32::NEG_INFINITY {
                        continue; // every completion scores -inf
                    }
                    next.push((s + cell as f64, p * (f[k] as f64 / total)));
                }
            }
            cur = next;
        }
        cur.sort_by(|a, b| a.0.partial_cmp(&b.0).expect("finite scores"));
        let mut scores: Vec<f64> = Vec::new();
        let mut mass: Vec<f64> = Vec::new();
        for (s, p) in cur {
            if scores.last() == Some(&s) {
                *mass.last_mut().unwrap() += p;
            } else {
                scores.push(s);
                mass.push(p);
            }
        }
        let mut tail = vec![0f64; scores.len()];
        let mut acc = 0f64;
        for i in (0..scores.len()).rev() {
            acc += mass[i];
            tail[i] = acc;
        }
        Exact { scores, tail, words, letters: letters.len() }
    }

    pub fn min(&self) -> f64 {
        self.scores[0]
    }

    pub fn max(&self) -> f64 {
        *self.scores.last().unwrap()
    }

    /// Mass of all finite-scoring words (1 up to rounding unless -inf cells are reachable).
    pub fn total(&self) -> f64 {
        self.tail[0]
    }

    /// P(S >= x).
    pub fn tail_ge(&self, x: f64) -> f64 {
        let i = self.scores.partition_point(|&s| s < x);
        if i < self.scores.len() {
            self.tail[i]
        } else {
            0.0
        }
    }

    /// Largest attainable score strictly below x.
    pub fn largest_below(&self, x: f64) -> Option<f64> {
        let i = self.scores.partition_point(|&s| s < x);
        if i == 0 {
            None
        } else {
            Some(self.scores[i - 1])
        }
    }
}

/// `cap` evenly ranked indices out of 0..n (all of them when n <= cap); always contains 0 and n-1.
pub fn ranked(n: usize, cap: usize) -> Vec<usize> {
    if n <= cap {
        return (0..n).collect();
    }
    let mut v: Vec<usize> = (0..cap).map(|i| ((i as u128 * (n as u128 - 1)) / (cap as u128 - 1)) as usize).collect();
    v.dedup();
    v
}

/// Distance from |x| to the next larger f64.
pub fn ulp64(x: f64) -> f64 {
    let x = x.abs();
    if !x.is_finite() {
        return f64::NAN;
    }
    f64::from_bits(x.to_bits() + 1) - x
}

// ------------------------------------------------------------------------------------------------
// menus
// ------------------------------------------------------------------------------------------------

/// Count rows (A, C, T, G): the distinct rows of JASPAR MA0045 (the one matrix the crate's own
/// tests use), reordered so that the first window is the pair named in DESIGN §7 item 13, plus a
/// degenerate and a flat row.
pub const COUNT_ROWS: [[u32; 4]; 16] = [
    [7, 0, 4, 3],
    [3, 5, 2, 4],
    [9, 1, 3, 1],
    [3, 6, 1, 4],
    [11, 0, 0, 3],
    [11, 0, 1, 2],
    [3, 3, 6, 2],
    [4, 1, 1, 8],
    [3, 4, 1, 6],
    [8, 5, 0, 1],
    [8, 1, 1, 4],
    [9, 0, 3, 2],
    [9, 5, 0, 0],
    [2, 7, 5, 0],
    [14, 0, 0, 0],
    [4, 3, 4, 3],
];

/// Background configurations: (tag, counts for from_counts, pseudocount also given to N?).
/// uniform; non-uniform (.1,.2,.3,.4,0); wildcard frequency .1 with finite N cells (N takes part);
/// wildcard frequency .1 with N cells = -inf (what `to_scoring` produces for scalar pseudocounts).
pub const BG_CONFIGS: [(&str, [usize; 5], bool); 4] = [
    ("uniform", [1, 1, 1, 1, 0], false),
    ("nonuniform(.1,.2,.3,.4,0)", [1, 2, 3, 4, 0], false),
    ("wildcard(.2,.3,.1,.3,.1)+N-pseudocount", [2, 3, 1, 3, 1], true),
    ("wildcard(.2,.3,.1,.3,.1)", [2, 3, 1, 3, 1], false),
];

/// Build one log-odds matrix through the public conversion route and freeze its cells.
pub fn logodds(window_start: usize, m: usize, pseudo: f32, bgi: usize) -> Mat {
    let (tag, counts, n_pseudo) = BG_CONFIGS[bgi];
    let rows: Vec<[u32; 5]> = (0..m)
        .map(|j| {
            let r = COUNT_ROWS[(window_start + j) % COUNT_ROWS.len()];
            [r[0], r[1], r[2], r[3], 0]
        })
        .collect();
    let cm = CountMatrix::<Dna>::new(DenseMatrix::<u32, U5>::from_rows(rows.iter().map(|r| &r[..]).collect::<Vec<_>>())).expect("count matrix");
    let bg = Background::<Dna>::from_counts(&GenericArray::from(counts)).expect("background");
    let pssm = if n_pseudo {
        let pc: Pseudocounts<Dna> = Pseudocounts::from(GenericArray::<f32, U5>::from([pseudo; 5]));
        cm.to_freq(pc).to_scoring(bg)
    } else {
        cm.to_freq(pseudo).to_scoring(bg)
    };
    let cells: Vec<[f32; 5]> = (0..m)
        .map(|i| {
            let r = &pssm.matrix()[i];
            [r[0], r[1], r[2], r[3], r[4]]
        })
        .collect();
    let mat = Mat::new(
        cells,
        counts,
        format!("log-odds: COUNT_ROWS[{}..+{}] (cyclic), pseudocount {}{}, background {}", window_start, m, pseudo, if n_pseudo { " on all five symbols" } else { "" }, tag),
    );
    // the frozen cells rebuild the very same matrix
    assert!(mat.scoring() == pssm, "frozen cells must rebuild the same ScoringMatrix");
    mat
}

/// Hand-written matrices (non-wildcard cells); the wildcard column is attached per configuration.
pub fn hand_rows() -> Vec<(&'static str, Vec<[f32; 4]>)> {
    vec![
        ("int2", vec![[0.0, 1.0, 2.0, 3.0], [3.0, -1.0, 0.0, 1.0]]),
        // a non-negative row whose minimum lies strictly between 0 and 0.1: its integer minimum is 0 at granularity 0.1
        // and positive at every finer one
        ("smallpos2", vec![[0.0, 1.0, 2.0, 3.0], [0.03, 0.08, 0.17, 0.25]]),
        ("int3", vec![[0.0, 1.0, 2.0, 3.0], [2.0, -1.0, 0.0, 1.0], [-2.0, 3.0, 0.0, 1.0]]),
        ("int4", vec![[1.0, 0.0, 0.0, -1.0], [0.0, 2.0, -2.0, 0.0], [3.0, 0.0, 1.0, 2.0], [-1.0, -1.0, 2.0, 0.0]]),
        ("int5", vec![[0.0, 1.0, 2.0, 3.0], [1.0, 0.0, 0.0, -1.0], [0.0, 4.0, -2.0, 0.0], [3.0, 0.0, 1.0, 2.0], [-1.0, -3.0, 2.0, 0.0]]),
        ("halves2", vec![[0.5, -1.5, 1.0, 0.0], [2.5, 0.5, -0.5, 1.5]]),
        ("halves3", vec![[0.5, -1.5, 1.0, 0.0], [2.5, 0.5, -0.5, 1.5], [-1.0, 0.0, 0.5, 1.0]]),
        ("tenths3", vec![[0.1, 0.2, 0.3, 0.4], [-0.1, 0.7, 0.0, 0.3], [1.1, -0.9, 0.2, 0.6]]),
        ("narrow3", vec![[0.0001, 0.0002, 0.0004, 0.0008], [0.0003, 0.0, 0.0005, 0.0009], [0.0007, 0.0006, 0.0001, 0.0]]),
        ("narrow_offset2", vec![[5.001, 5.0015, 5.002, 5.0005], [5.0012, 5.0002, 5.0018, 5.001]]),
        ("const2", vec![[1.5; 4]; 2]),
        ("const4", vec![[-2.0; 4]; 4]),
        ("constrow3", vec![[1.0; 4], [0.0, 2.0, -1.0, 0.5], [3.0; 4]]),
        // an uninformative position in the MIDDLE of an informative motif (equal counts in one column)
        ("midconst4", vec![[0.0, 1.0, 2.0, 3.0], [2.0; 4], [1.0, -1.0, 0.5, 0.0], [0.25, 1.5, -2.0, 0.7]]),
        ("midconst6", vec![[1.2, -0.8, 0.3, -2.1], [0.9, 0.1, -1.4, -0.2], [0.0; 4], [-0.6, 1.1, 0.2, -1.9], [0.4, -2.3, 1.0, 0.1], [-1.0, 0.8, 0.6, -0.3]]),
        // row minima of the form -x.x1: the per-row offsets at granularity g/10 differ from ten times
        // those at g by 9 units per row (exercises the window re-centring of approximate_score)
        ("drift4", vec![[-0.11, 0.3, 0.5, 1.0], [-1.21, 0.0, 0.2, 0.4], [-0.31, 0.1, 0.5, 0.0], [-2.11, 1.0, 0.3, 0.5]]),
        // the cells of log-odds COUNT_ROWS[6..+6], pseudocount 1, background (.2,.3,.1,.3,.1), frozen, so that the
        // same matrix is also queried under the 4-letter backgrounds
        (
            "frozen6",
            vec![
                [0.152_003_01, -0.432_959_47, 1.959_358, -0.847_997],
                [0.473_931_25, -1.432_959_4, 0.152_003_01, 0.736_965_54],
                [0.152_003_01, -0.111_031_34, 0.152_003_01, 0.374_395_46],
                [1.321_928_1, 0.152_003_01, -0.847_997, -1.432_959_4],
                [1.321_928_1, -1.432_959_4, 0.152_003_01, -0.111_031_34],
                [1.473_931_3, -2.432_959_6, 1.152_003, -0.847_997],
            ],
        ),
        ("wide4", vec![[-8.0, 2.0, 1.0, 0.0], [1.5, -7.25, 0.0, 1.0], [0.0, 1.0, -9.5, 2.0], [2.0, 0.0, 1.0, -6.0]]),
        // rows whose entries are ALL positive (the per-row offset is then the negative of a positive minimum),
        // with four decimals so that several refinement steps are needed
        ("positive4", vec![[0.1234, 1.5678, 2.3456, 0.9876], [3.1415, 0.2718, 1.4142, 1.7320], [0.5772, 2.2360, 0.6931, 1.6180], [1.2020, 0.9159, 2.6457, 0.3010]]),
        (
            "positive6",
            vec![
                [0.1234, 1.5678, 2.3456, 0.9876],
                [3.1415, 0.2718, 1.4142, 1.7320],
                [0.5772, 2.2360, 0.6931, 1.6180],
                [1.2020, 0.9159, 2.6457, 0.3010],
                [2.0794, 1.0986, 0.4342, 1.9459],
                [0.7071, 1.3247, 2.5029, 0.1100],
            ],
        ),
        // log-odds-like under the skewed configuration: the three rare symbols (A, C, G) score high, the common one (T)
        // low, so that the BEST words are the improbable ones: dozens of attainable tail probabilities lie below
        // machine epsilon (2.2e-16) and p-values in 1e-17..1e-15 select a few of them
        (
            "rarehigh6",
            vec![
                [3.10, 2.30, -0.40, 1.20],
                [2.75, 3.40, -0.15, 0.95],
                [1.85, 2.60, -0.55, 3.35],
                [3.60, 1.40, -0.25, 2.05],
                [2.20, 3.05, -0.35, 1.65],
                [2.90, 1.10, -0.45, 3.55],
            ],
        ),
        // low-information matrix (every weight within +-0.1): at granularity 0.1 every cell is -1, 0 or 1, so the coarse
        // threshold sits next to the best score and finer steps gain up to 9 units per row over ten times the coarse score
        (
            "lowinfo5",
            vec![[0.07, -0.03, 0.02, -0.09], [-0.05, 0.08, -0.01, 0.04], [0.03, -0.07, 0.09, -0.02], [-0.08, 0.01, 0.06, -0.04], [0.05, -0.06, -0.03, 0.1]],
        ),
        // one all-positive and one all-negative row among mixed ones
        ("signrows4", vec![[0.3141, 1.2718, 2.1414, 0.7320], [-0.5772, -2.2360, -0.6931, -1.6180], [1.2020, -0.9159, 0.6457, -0.3010], [0.0794, 1.0986, -0.4342, 0.9459]]),
    ]
}

/// Wildcard-column / background configurations for the hand menu:
/// (tag, background counts, rule for the N cell).
#[derive(Clone, Copy)]
pub enum WildCell {
    NegInf,
    RowMin,
    Zero,
    PlusOne,
    /// strictly the largest cell of its row (row maximum + 1)
    RowMaxPlus,
    /// NaN (only under backgrounds that never draw the wildcard: the column must not matter)
    NotANumber,
}

pub const HAND_CONFIGS: [(&str, [usize; 5], WildCell); 15] = [
    ("uniform, N=-inf", [1, 1, 1, 1, 0], WildCell::NegInf),
    ("nonuniform(.1,.2,.3,.4,0), N=-inf", [1, 2, 3, 4, 0], WildCell::NegInf),
    ("wildcard(.2,.3,.1,.3,.1), N=row minimum", [2, 3, 1, 3, 1], WildCell::RowMin),
    ("wildcard(.2,.3,.1,.3,.1), N=-inf", [2, 3, 1, 3, 1], WildCell::NegInf),
    ("nonuniform(.1,.2,.3,.4,0), N=0.0 (never drawn)", [1, 2, 3, 4, 0], WildCell::Zero),
    ("nonuniform(.1,.2,.3,.4,0), N=+1.0 (never drawn)", [1, 2, 3, 4, 0], WildCell::PlusOne),
    // heavily skewed background: word probabilities down to 2^-10M, i.e. tail probabilities (and p-value queries)
    // far below 1e-6 and, for M >= 6, below machine epsilon
    ("skewed(2^-10,2^-10,2^-10,1-3*2^-10,0), N=-inf", [1, 1, 1021, 1, 0], WildCell::NegInf),
    // even more skewed: a prefix of four rare symbols already weighs 2^-56 < machine epsilon, so partial sums of the
    // convolutions / Q-value maps fall below 2.2e-16 long before the last row
    ("very skewed(2^-14 x3, rest), N=-inf", [1, 1, 16381, 1, 0], WildCell::NegInf),
    // the wildcard is drawn (frequency .1) AND scores strictly above every symbol of its row
    ("wildcard(.2,.3,.1,.3,.1), N=row maximum + 1", [2, 3, 1, 3, 1], WildCell::RowMaxPlus),
    // a non-wildcard symbol with background frequency exactly 0 but finite scores (hand-built matrix)
    ("zero-frequency symbol(.5,0,.25,.25,0), N=-inf", [2, 0, 1, 1, 0], WildCell::NegInf),
    // a symbol that is possible but rarer than f32::EPSILON (2^-24)
    ("tiny frequency(.5,.25,.25-2^-24,2^-24,0), N=-inf", [8388608, 4194304, 1, 4194303, 0], WildCell::NegInf),
    // three symbols of frequency 2^-44: words of three rare symbols weigh 2^-132 (below the smallest normal f32)
    ("extreme skew(2^-44 x3, rest), N=-inf", [1, 1, 17592186044413, 1, 0], WildCell::NegInf),
    // a NaN wildcard column under a background that never draws the wildcard
    ("uniform, N=NaN (never drawn)", [1, 1, 1, 1, 0], WildCell::NotANumber),
    // equal frequencies on the four symbols AND a wildcard frequency: "uniform" on the K-1 symbols but not 1/(K-1)
    ("equal symbols with wildcard mass(.2 x5), N=-inf", [1, 1, 1, 1, 1], WildCell::NegInf),
    ("equal symbols with wildcard mass(.125 x4, .5), N=-inf", [1, 1, 1, 1, 4], WildCell::NegInf),
];

pub fn hand(hi: usize, ci: usize) -> Mat {
    let (name, rows4) = hand_rows().swap_remove(hi);
    let (tag, counts, wc) = HAND_CONFIGS[ci];
    let rows: Vec<[f32; 5]> = rows4
        .iter()
        .map(|r| {
            let n = match wc {
                WildCell::NegInf => f32::NEG_INFINITY,
                WildCell::RowMin => r.iter().cloned().fold(f32::INFINITY, f32::min),
                WildCell::Zero => 0.0,
                WildCell::PlusOne => 1.0,
                WildCell::RowMaxPlus => r.iter().cloned().fold(f32::NEG_INFINITY, f32::max) + 1.0,
                WildCell::NotANumber => f32::NAN,
            };
            [r[0], r[1], r[2], r[3], n]
        })
        .collect();
    Mat::new(rows, counts, format!("hand matrix {}: {}", name, tag))
}

/// Shard key of a menu index.  Consecutive indices cycle through the 4 background configurations,
/// so taking `index % nshards` directly would give every shard a single background; rotating by
/// one per block of 16 spreads widths, windows and backgrounds evenly.  Deterministic and global.
pub fn shard_key(index: u64) -> u64 {
    index + index / 16
}

/// One entry of the enumeration: a stable global index (shard key) and the matrix.
pub struct Entry {
    pub index: u64,
    pub space: &'static str,
    pub mat: Mat,
}

/// The (matrix, background) menu shared by C11 / C12 / C13.
///
/// * `logodds`: for every width M in `widths`, `windows(M)` cyclic windows of COUNT_ROWS
///   x pseudocounts x the 4 background configurations;
/// * `hand`:    18 hand matrices x 6 wildcard/background configurations.
///
/// The index is the position in this list, which is the same on every shard.
pub fn menu(widths: &[usize], windows: &dyn Fn(usize) -> usize, pseudos: &[f32]) -> Vec<Entry> {
    let mut out = Vec::new();
    let mut index = 0u64;
    for &m in widths {
        for w in 0..windows(m) {
            // spread the windows over the row list when fewer than 16 are taken
            let start = (w * COUNT_ROWS.len()) / windows(m);
            for &pc in pseudos {
                for bgi in 0..BG_CONFIGS.len() {
                    out.push(Entry { index, space: "logodds", mat: logodds(start, m, pc, bgi) });
                    index += 1;
                }
            }
        }
    }
    for hi in 0..hand_rows().len() {
        for ci in 0..HAND_CONFIGS.len() {
            out.push(Entry { index, space: "hand", mat: hand(hi, ci) });
            index += 1;
        }
    }
    out
}

pub fn menu_text(widths: &[usize], windows: &dyn Fn(usize) -> usize, pseudos: &[f32]) -> String {
    let w: Vec<String> = widths.iter().map(|&m| format!("M={}:{}", m, windows(m))).collect();
    format!(
        "widths x cyclic windows of the 16 count rows ({}) x pseudocounts {:?} x 4 background configurations (uniform; (.1,.2,.3,.4,0); (.2,.3,.1,.3,.1) with finite N cells; the same with N cells -inf)",
        w.join(", "),
        pseudos
    )
}

pub fn hand_text() -> String {
    let names: Vec<&str> = hand_rows().iter().map(|h| h.0).collect();
    format!(
        "{} hand matrices ({}: integers, halves, tenths, narrow range, narrow range with offset, constant (small == large branch), constant rows, offset drift, frozen log-odds cells, wide range) x {} wildcard/background configurations (uniform N=-inf; (.1,.2,.3,.4,0) N=-inf; (.2,.3,.1,.3,.1) N=row minimum; (.2,.3,.1,.3,.1) N=-inf; (.1,.2,.3,.4,0) N=0.0; (.1,.2,.3,.4,0) N=+1.0; skewed (2^-10,2^-10,1-3*2^-10,2^-10,0) N=-inf: tails below machine epsilon; very skewed (2^-14 x3) N=-inf; (.2,.3,.1,.3,.1) N=row maximum + 1; (.5,0,.25,.25,0) with a zero-frequency symbol N=-inf; a symbol of frequency 2^-24 N=-inf; three symbols of frequency 2^-44 N=-inf; uniform with a NaN wildcard column)",
        names.len(),
        names.join(" "),
        HAND_CONFIGS.len()
    )
}
