//! vx-pval: checkers for the p-value properties C11 (MEME-style distribution), C12 / C13
//! (TFM-PVALUE).  Invoked by /verif/bin/check.

mod exact;

mod c11;
mod c12;
mod c13;

fn main() {
    vx_core::cli::main(
        |prop, ctx, rep| {
            match prop {
                "C11" => c11::run(ctx, rep),
                "C12" => c12::run(ctx, rep),
                "C13" => c13::run(ctx, rep),
                _ => return false,
            }
            true
        },
        |prop, ctx, rep, case| {
            match prop {
                "C11" => c11::replay(ctx, rep, case),
                "C12" => c12::replay(ctx, rep, case),
                "C13" => c13::replay(ctx, rep, case),
                _ => return false,
            }
            true
        },
    );
}
