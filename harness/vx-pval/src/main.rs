//! vx-pval: checkers for the p-value properties C11 (MEME-style distribution), C12 / C13
//! (TFM-PVALUE).  Invoked by /verif/bin/check.

mod exact;

mod c11;
mod c12;
mod c13;
mod reuse;

fn main() {
    vx_core::cli::main(
        |prop, ctx, rep| {
            match prop {
                "C11" => c11::run(ctx, rep),
                "C12" => {
                    c12::run(ctx, rep);
                    if ctx.wants("reuse") {
                        reuse::run("C12", ctx, rep);
                    }
                }
                "C13" => {
                    c13::run(ctx, rep);
                    if ctx.wants("reuse") {
                        reuse::run("C13", ctx, rep);
                    }
                }
                _ => return false,
            }
            true
        },
        |prop, ctx, rep, case| {
            match prop {
                "C11" => c11::replay(ctx, rep, case),
                "C12" if case["kind"].as_str() == Some("reuse") => reuse::replay("C12", rep, case),
                "C12" => c12::replay(ctx, rep, case),
                "C13" if case["kind"].as_str() == Some("reuse") => reuse::replay("C13", rep, case),
                "C13" => c13::replay(ctx, rep, case),
                _ => return false,
            }
            true
        },
    );
}
