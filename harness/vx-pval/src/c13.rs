//! C13 — TFM-PVALUE score thresholds are consistent with the exact score distribution (DESIGN §C12/C13).
//!
//! For every (matrix, background) of the shared menu and every query p of a stated grid, every
//! refinement step of `TfmPvalue::approximate_score` down to granularity 1e-9 and the final
//! `TfmPvalue::score` are compared with the brute-force tail.  With t the reported threshold, g the
//! step's granularity and d = (M+2)g the statement demands
//!
//!     P(S >= t+d) <= p      and      P(S >= u-d) >= p  for u = largest attainable score < t-d
//!
//! (second clause vacuous without such a u); probabilities get the 1e-6 allowance, and the final
//! value uses max(d, 64 ulp(|t| + sum of row ranges)).

use lightmotif::pwm::ScoringMatrix;
use lightmotif_tfmpvalue::TfmPvalue;
use serde_json::{json, Value};
use vx_core::util::panic_class;
use vx_core::{catch, Ctx, Report};

use crate::c12::{query_cap, TierCfg, HORIZON, MAX_ITER};
use crate::exact::{self, ulp64, Exact, Mat};

#[derive(Clone, Debug)]
pub struct Step {
    pub g: f64,
    pub score: f64,
    pub range: (f64, f64),
    pub converged: bool,
}

pub struct Failure {
    pub sig: String,
    pub msg: String,
    pub step: Option<usize>,
}

pub struct QueryOutcome {
    pub steps: Vec<Step>,
    pub final_t: Option<f64>,
    pub evals: u64,
    pub failures: Vec<Failure>,
    pub late: bool,
}

fn fmt_steps(steps: &[Step]) -> Value {
    Value::Array(
        steps
            .iter()
            .map(|s| json!({"g": s.g, "score": s.score, "range_start": s.range.0, "range_end": s.range.1, "converged": s.converged}))
            .collect(),
    )
}

/// The two inequalities of the statement for one threshold; returns (kind, message) per failure.
fn clauses(ex: &Exact, p: f64, t: f64, d: f64) -> Vec<(&'static str, String)> {
    let mut v = Vec::new();
    if !t.is_finite() {
        v.push(("threshold not finite", format!("threshold {} for p = {:e}", t, p)));
        return v;
    }
    let above = ex.tail_ge(t + d);
    if above > p + exact::eps_rel(p) {
        v.push(("P(S >= t+d) exceeds p", format!("p = {:e}: threshold t = {} (d = {:e}) but exact P(S >= t+d) = {:e} > p", p, t, d, above)));
    }
    if let Some(u) = ex.largest_below(t - d) {
        let below = ex.tail_ge(u - d);
        if below < p - exact::eps_rel(p) {
            v.push((
                "P(S >= u-d) below p (threshold too high)",
                format!("p = {:e}: threshold t = {} (d = {:e}); largest attainable score below t-d is u = {} and exact P(S >= u-d) = {:e} < p", p, t, d, u, below),
            ));
        }
    }
    v
}

pub fn check_query<A: lightmotif::abc::Alphabet>(mat: &Mat, pssm: &ScoringMatrix<A>, ex: &Exact, p: f64) -> QueryOutcome {
    let m = mat.width();
    let mut out = QueryOutcome { steps: Vec::new(), final_t: None, evals: 0, failures: Vec::new(), late: false };
    let cls = &mat.class;

    let mut steps: Vec<Step> = Vec::new();
    let mut livelock = false;
    let r = catch(|| {
        let mut t = TfmPvalue::new(pssm);
        for it in t.approximate_score(p) {
            steps.push(Step { g: it.granularity, score: it.score, range: (*it.range.start(), *it.range.end()), converged: it.converged });
            if steps.len() > MAX_ITER {
                livelock = true;
                break;
            }
        }
    });
    out.steps = steps;
    if let Err(e) = &r {
        out.evals += 1;
        out.failures.push(Failure {
            sig: format!("C13 [{}] panic in approximate_score {}", cls, panic_class(e)),
            msg: format!("approximate_score({:e}) panicked at refinement step {}: {}", p, out.steps.len(), e),
            step: Some(out.steps.len()),
        });
    }
    if livelock {
        out.evals += 1;
        out.failures.push(Failure {
            sig: format!("C13 [{}] livelock: more than {} refinement steps", cls, MAX_ITER),
            msg: format!("approximate_score({:e}) has not converged after {} steps (granularity {:e})", p, out.steps.len(), out.steps.last().unwrap().g),
            step: None,
        });
    }

    for (i, st) in out.steps.iter().enumerate() {
        if st.g < HORIZON {
            out.late = true;
            continue;
        }
        out.evals += 1;
        let d = (m as f64 + 2.0) * st.g;
        for (kind, msg) in clauses(ex, p, st.score, d) {
            out.failures.push(Failure { sig: format!("C13 [{}] step: {}", cls, kind), msg: format!("step {} (g={:e}) of approximate_score: {}", i, st.g, msg), step: Some(i) });
        }
    }

    if r.is_ok() && !livelock {
        out.evals += 1;
        match catch(|| TfmPvalue::new(pssm).score(p)) {
            Err(e) => out.failures.push(Failure {
                sig: format!("C13 [{}] panic in score {}", cls, panic_class(&e)),
                msg: format!("score({:e}) panicked: {}", p, e),
                step: None,
            }),
            Ok(t) => {
                out.final_t = Some(t);
                match out.steps.last().cloned() {
                    None => out.failures.push(Failure {
                        sig: format!("C13 [{}] final: no refinement step", cls),
                        msg: format!("approximate_score({:e}) yielded nothing but score() returned {}", p, t),
                        step: None,
                    }),
                    Some(last) => {
                        if t.to_bits() != last.score.to_bits() {
                            out.failures.push(Failure {
                                sig: format!("C13 [{}] final: score() differs from the last refinement step", cls),
                                msg: format!("score({:e}) = {} but the last step of approximate_score reports {}", p, t, last.score),
                                step: None,
                            });
                        }
                        let floor = 64.0 * ulp64(t.abs() + mat.range_sum());
                        let d = ((m as f64 + 2.0) * last.g).max(if floor.is_finite() { floor } else { 0.0 });
                        for (kind, msg) in clauses(ex, p, t, d) {
                            out.failures.push(Failure { sig: format!("C13 [{}] final: {}", cls, kind), msg: format!("score() at final g={:e}: {}", last.g, msg), step: None });
                        }
                    }
                }
            }
        }
    }
    out
}

/// The query grid of one matrix: (p, kind); only p strictly inside (0,1).
pub fn queries(ex: &Exact, cap: usize) -> Vec<(f64, &'static str)> {
    let n = ex.scores.len();
    let mut q: Vec<(f64, &'static str)> = Vec::new();
    for i in exact::ranked(n, cap) {
        let t = ex.tail[i];
        q.push((t, "attainable tail probability"));
        q.push((t * (1.0 - 1e-7), "just below an attainable tail probability (x(1-1e-7))"));
        q.push((t * (1.0 + 1e-7), "just above an attainable tail probability (x(1+1e-7))"));
        if i + 1 < n {
            q.push(((t * ex.tail[i + 1]).sqrt(), "geometric midpoint of adjacent tail probabilities"));
        }
    }
    for p in [1e-17, 1e-16, 2.2e-16, 1e-15, 1e-12, 1e-9, 1e-6, 0.5, 0.999] {
        q.push((p, "fixed"));
    }
    q.retain(|&(p, _)| p > 0.0 && p < 1.0);
    q
}

pub fn case_json(mat: &Mat, p: f64, kind: &str, step: Option<usize>, o: &QueryOutcome) -> Value {
    let mut v = mat.json();
    let m = v.as_object_mut().unwrap();
    m.insert("pvalue".into(), json!(p));
    // serde_json (without its float_roundtrip feature) may parse a decimal one ulp off: replays use the bit pattern
    m.insert("pvalue_bits".into(), json!(format!("{:016x}", p.to_bits())));
    m.insert("query_kind".into(), json!(kind));
    m.insert("failing_step".into(), json!(step));
    m.insert("observed_steps".into(), fmt_steps(&o.steps));
    m.insert("observed_final_score".into(), json!(o.final_t));
    m.insert(
        "rust_repro".into(),
        json!(format!(
            "let pssm = ScoringMatrix::<Dna>::new(Background::from_counts(&GenericArray::from({:?})).unwrap(), DenseMatrix::from_rows({})); let mut t = TfmPvalue::new(&pssm); for it in t.approximate_score({:?}) {{ println!(\"{{:?}}\", it); }}",
            mat.bg_counts, mat.rust_rows(), p
        )),
    );
    v
}

pub fn run(ctx: &mut Ctx, rep: &mut Report) {
    let cfg = TierCfg::of(ctx);
    let cap = query_cap(ctx.quick());
    let win = |m: usize| cfg.windows(m);
    let entries = exact::menu(&cfg.widths, &win, &cfg.pseudos);
    let grid = format!(
        "queries per matrix: p = every attainable tail probability P(S >= a) (at most {} evenly ranked ones), each x(1-1e-7) and x(1+1e-7), geometric midpoints of adjacent ones, 1e-17, 1e-16, 2.2e-16, 1e-15, 1e-12, 1e-9, 1e-6, .5, .999 (below machine epsilon: attainable under the skewed background), restricted to 0 < p < 1; \
         every refinement step of approximate_score with g >= 1e-9 and the final score(); oracle: brute-force tail over all K'^M words, d = (M+2)g, 1e-6 on probabilities; \
         every matrix whose background gives the wildcard no mass (quick: widths <= 4) is ALSO checked as a protein matrix carrying the same distribution (DNA columns at protein ranks 19, 2, 11, 6 with the DNA background counts, all other residues background 0 and copies of cells of their row, X = the DNA wildcard cell): same queries, same oracle; one evaluation = one (matrix, background, p, step) check; non-trivial = smallest attainable tail < p < total mass",
        cap
    );
    rep.space("logodds", &format!("product: {} ; {}", exact::menu_text(&cfg.widths, &win, &cfg.pseudos), grid));
    rep.space("hand", &format!("product: {} ; {}", exact::hand_text(), grid));
    let mut capped_queries = false;
    let mut late = 0u64;
    for e in &entries {
        if !ctx.mine(exact::shard_key(e.index)) {
            continue;
        }
        rep.space(e.space, "");
        let ex = Exact::new(&e.mat);
        let pssm = e.mat.scoring();
        // quick tier: widths up to 4 (the protein loops are five times longer); thorough: every matrix
        let prot = if ctx.quick() && e.mat.width() > 4 { None } else { e.mat.scoring_protein().map(|pp| (e.mat.as_protein_embedded(), pp)) };
        if ex.scores.len() > cap {
            capped_queries = true;
        }
        let qs = queries(&ex, cap);
        ctx.crumb(|| format!("C13 entry {} {}", e.index, e.mat.origin));
        let pmin_tail = *ex.tail.last().unwrap();
        for (qi, &(p, kind)) in qs.iter().enumerate() {
            let o = check_query(&e.mat, &pssm, &ex, p);
            let nontrivial = p > pmin_tail && p < ex.total();
            for _ in 0..o.evals {
                rep.eval_distinct(nontrivial);
            }
            if o.late {
                late += 1;
            }
            for f in &o.failures {
                rep.violation(f.sig.clone(), f.msg.clone(), || case_json(&e.mat, p, kind, f.step, &o));
            }
            // the same distribution carried by a protein matrix (symbol loops to K-1 = 20; see Mat::scoring_protein)
            if let Some((pm, pp)) = &prot {
                let o = check_query(pm, pp, &ex, p);
                for _ in 0..o.evals {
                    rep.eval_distinct(nontrivial);
                }
                for f in &o.failures {
                    rep.violation(f.sig.clone(), f.msg.clone(), || {
                        let mut v = case_json(pm, p, kind, f.step, &o);
                        v["embedding"] = json!("protein");
                        v
                    });
                }
            }
            if e.mat.width() == 3 && kind.starts_with("geometric") && qi > 10 {
                rep.sample_space(2, || {
                    let mut v = case_json(&e.mat, p, kind, None, &o);
                    v["oracle"] = json!({"words_enumerated": ex.words, "letters": ex.letters, "distinct_scores": ex.scores.len()});
                    v
                });
            }
            if qi % 64 == 63 && ctx.out_of_time() {
                break;
            }
        }
        if ctx.out_of_time() {
            rep.cap(format!("C13: wall-clock cap reached at menu entry {} of {} ({})", e.index, entries.len(), e.mat.origin));
            return;
        }
    }
    if capped_queries {
        rep.note(format!("stated bound: matrices with more than {} distinct attainable scores are queried at {} evenly ranked tail probabilities (largest and smallest included)", cap, cap));
    }
    if late > 0 {
        rep.note("some queries had not converged when the 1e-9 horizon of the step-by-step check was reached; their later steps are covered only through the final score() (DESIGN C13: reported, not a verdict)");
    }
}

pub fn replay(_ctx: &mut Ctx, rep: &mut Report, case: &Value) {
    rep.space("replay", "replay of one recorded (matrix, background, p): all refinement steps and the final score()");
    let mat = Mat::from_json(case);
    let p = match case["pvalue_bits"].as_str().and_then(|h| u64::from_str_radix(h, 16).ok()) {
        Some(bits) => f64::from_bits(bits),
        None => case["pvalue"].as_f64().expect("pvalue"),
    };
    let kind = case["query_kind"].as_str().unwrap_or("replay").to_string();
    let ex = Exact::new(&mat);
    let protein = case["embedding"].as_str() == Some("protein");
    let o = if protein {
        let pm = mat.as_protein_embedded();
        let pp = mat.scoring_protein().expect("protein embedding of a background with wildcard mass");
        check_query(&pm, &pp, &ex, p)
    } else {
        let pssm = mat.scoring();
        check_query(&mat, &pssm, &ex, p)
    };
    let mat = if protein { mat.as_protein_embedded() } else { mat };
    for _ in 0..o.evals.max(1) {
        rep.eval_distinct(true);
    }
    for f in &o.failures {
        rep.violation(f.sig.clone(), f.msg.clone(), || {
            let mut v = case_json(&mat, p, &kind, f.step, &o);
            if protein {
                v["embedding"] = json!("protein");
            }
            v
        });
    }
}
