//! Reuse histories for C12 / C13: ONE `TfmPvalue` object answers a sequence of queries.
//!
//! The per-query checkers (c12.rs / c13.rs) use a fresh object per query.  A `TfmPvalue` is a
//! stateful cache (granularity, integer matrix, Q-values), so the properties must also hold for
//! the k-th query of one object.  Explicit-state flavour: a state is the history of queries
//! answered so far; every history up to a depth bound over a small operation alphabet is
//! re-executed on a fresh object, and the answer to its LAST query is compared, bit for bit, with
//! the answer a fresh object gives to the same query (differential oracle: "the state reached from
//! elsewhere").  Since fresh-object answers are decided against the exact distribution by the
//! `logodds` / `hand` spaces, equality transfers the C12 / C13 bounds to reused objects.

use lightmotif::abc::Dna;
use lightmotif::pwm::ScoringMatrix;
use lightmotif_tfmpvalue::TfmPvalue;
use serde_json::{json, Value};
use vx_core::util::panic_class;
use vx_core::{catch, Ctx, Report};

use crate::exact::{self, Exact, Mat};

#[derive(Clone, Copy, Debug, PartialEq)]
pub enum Op {
    /// approximate_pvalue(s), first `n` steps only (0 = run to the end = pvalue())
    P(usize, usize),
    /// approximate_score(p), first `n` steps only (0 = run to the end = score())
    S(usize, usize),
}

/// One observed answer: per step (granularity, range start, range end, score, converged) as bit patterns.
pub type Obs = Vec<(u64, u64, u64, u64, bool)>;

fn run_op(t: &mut TfmPvalue<Dna, &ScoringMatrix<Dna>>, op: Op, scores: &[f64], ps: &[f64]) -> Obs {
    let mut out = Vec::new();
    match op {
        Op::P(qi, n) => {
            for (k, it) in t.approximate_pvalue(scores[qi]).enumerate() {
                out.push((it.granularity.to_bits(), it.range.start().to_bits(), it.range.end().to_bits(), it.score.to_bits(), it.converged));
                if (n > 0 && k + 1 >= n) || k > 40 {
                    break;
                }
            }
        }
        Op::S(qi, n) => {
            for (k, it) in t.approximate_score(ps[qi]).enumerate() {
                out.push((it.granularity.to_bits(), it.range.start().to_bits(), it.range.end().to_bits(), it.score.to_bits(), it.converged));
                if (n > 0 && k + 1 >= n) || k > 40 {
                    break;
                }
            }
        }
    }
    out
}

fn fmt_obs(o: &Obs) -> Value {
    Value::Array(
        o.iter()
            .map(|s| json!({"g": f64::from_bits(s.0), "lo": f64::from_bits(s.1), "hi": f64::from_bits(s.2), "score": f64::from_bits(s.3), "converged": s.4}))
            .collect(),
    )
}

pub fn ops() -> Vec<Op> {
    let mut v = Vec::new();
    for qi in 0..3 {
        v.push(Op::P(qi, 1));
        v.push(Op::P(qi, 0));
    }
    for qi in 0..2 {
        v.push(Op::S(qi, 1));
        v.push(Op::S(qi, 2));
        v.push(Op::S(qi, 0));
    }
    v
}

fn op_json(op: Op, scores: &[f64], ps: &[f64]) -> Value {
    match op {
        Op::P(q, n) => json!({"op": "approximate_pvalue", "score": scores[q], "steps": if n == 0 { json!("all") } else { json!(n) }}),
        Op::S(q, n) => json!({"op": "approximate_score", "pvalue": ps[q], "steps": if n == 0 { json!("all") } else { json!(n) }}),
    }
}

/// The query values of one matrix: a score below the minimum (converges at the first step), a
/// middle attainable score, the maximum; p = 0.5 and a small attainable tail.
pub fn query_values(ex: &Exact) -> (Vec<f64>, Vec<f64>) {
    let n = ex.scores.len();
    let scores = vec![ex.min() - 3.0, ex.scores[n / 2], ex.max()];
    // p-values strictly between two attainable tails (geometric midpoints), so that last-ulp noise in the
    // accumulated probabilities cannot flip the `sum >= pvalue` comparisons of the library
    let mid = |i: usize| {
        let hi = ex.tail_ge(ex.scores[i]);
        let lo = if i + 1 < n { ex.tail_ge(ex.scores[i + 1]) } else { hi * 0.5 };
        (hi * lo.max(1e-12)).sqrt()
    };
    let ps = vec![mid(n / 2), mid((n * 9) / 10).max(1e-9)];
    (scores, ps)
}

/// Which of the two properties is being decided: C12 judges the p-value queries, C13 the score queries.
pub fn judged(prop: &str, op: Op) -> bool {
    matches!((prop, op), ("C12", Op::P(..)) | ("C13", Op::S(..)))
}

pub fn check_history(prop: &str, mat: &Mat, pssm: &ScoringMatrix<Dna>, hist: &[Op], scores: &[f64], ps: &[f64]) -> Option<(String, String)> {
    let last = *hist.last().unwrap();
    let reused = catch(|| {
        let mut t = TfmPvalue::new(pssm);
        let mut o = Vec::new();
        for &op in hist {
            o = run_op(&mut t, op, scores, ps);
        }
        o
    });
    let fresh = catch(|| {
        let mut t = TfmPvalue::new(pssm);
        run_op(&mut t, last, scores, ps)
    });
    match (reused, fresh) {
        (Ok(a), Ok(b)) => {
            if !same_answer(&a, &b) {
                Some((
                    format!("{} [{}] reuse: answer depends on earlier queries on the same object", prop, mat.class),
                    format!("after {} earlier queries the object answers {} ; a fresh object answers {}", hist.len() - 1, fmt_obs(&a), fmt_obs(&b)),
                ))
            } else {
                None
            }
        }
        (Err(p), Ok(_)) => Some((format!("{} [{}] reuse: panic {}", prop, mat.class, panic_class(&p)), format!("panic on a reused object only: {}", p))),
        // a panic that a fresh object shows too belongs to the per-query spaces
        _ => None,
    }
}

/// Two answers agree when their common prefix of refinement steps has the same granularities and
/// scores, and probabilities within 1e-9 (the Q-value maps are hash maps whose iteration order -- hence
/// the floating-point summation order -- depends on the capacity history of the object; the last-ulp
/// noise this causes can also move the exact-equality convergence test by one step, so the number of
/// steps is compared only up to that: the answers must agree on every step both have, and the final
/// probabilities must agree).
fn same_answer(a: &Obs, b: &Obs) -> bool {
    if a.is_empty() != b.is_empty() {
        return false;
    }
    if a.is_empty() {
        return true;
    }
    let close = |x: u64, y: u64, tol: f64| {
        let (x, y) = (f64::from_bits(x), f64::from_bits(y));
        (x.is_nan() && y.is_nan()) || x == y || (x - y).abs() <= tol * (1.0 + x.abs().max(y.abs()))
    };
    for (x, y) in a.iter().zip(b.iter()) {
        if x.0 != y.0 || !close(x.1, y.1, 1e-9) || !close(x.2, y.2, 1e-9) || !close(x.3, y.3, 1e-12) {
            return false;
        }
    }
    let (la, lb) = (a.last().unwrap(), b.last().unwrap());
    close(la.1, lb.1, 1e-9) && close(la.3, lb.3, 1e-9) && (a.len() as i64 - b.len() as i64).abs() <= 3
}

pub fn case_json(mat: &Mat, hist: &[Op], scores: &[f64], ps: &[f64]) -> Value {
    let mut v = mat.json();
    v["kind"] = json!("reuse");
    v["history"] = Value::Array(hist.iter().map(|&o| op_json(o, scores, ps)).collect());
    v["ops"] = json!(hist
        .iter()
        .map(|o| match o {
            Op::P(q, n) => json!(["P", q, n]),
            Op::S(q, n) => json!(["S", q, n]),
        })
        .collect::<Vec<_>>());
    v
}

fn entries_hint(quick: bool) -> &'static str {
    if quick {
        "all log-odds menu"
    } else {
        "all log-odds menu (6 windows per width)"
    }
}

pub fn run(prop: &str, ctx: &mut Ctx, rep: &mut Report) {
    let depth = if ctx.quick() { 3 } else { 4 };
    let oplist = ops();
    rep.space(
        "reuse",
        &format!(
            "query histories on ONE TfmPvalue object: operation alphabet = {} queries (approximate_pvalue for 3 scores {{below the minimum, middle, maximum}} stopped after 1 step or run to convergence; approximate_score for 2 p-values stopped after 1 or 2 steps or run to convergence); \
             ALL histories of length 2..={} whose last query belongs to this property, re-executed on a fresh object, on the {} matrices of width 2..=4 under every background configuration + every hand matrix of width <= 4 (quick: under 3 of the 15 wildcard/background configurations); \
             oracle: the answer to the last query equals the answer of a fresh object on every refinement step (probabilities within 1e-9: hash-map iteration order changes the summation order) (whose answers the logodds/hand spaces check against the exact distribution)",
            oplist.len(),
            depth,
            entries_hint(ctx.quick())
        ),
    );
    // matrices: small widths (cheap), all background configurations
    let widths = [2usize, 3, 4];
    let win = |_m: usize| if ctx.quick() { 2 } else { 6 };
    // all log-odds entries of these widths + every hand matrix of width <= 4 under the uniform / N=-inf-with-wildcard-
    // background / skewed configurations (thorough: every configuration)
    let mut entries: Vec<exact::Entry> = exact::menu(&widths, &win, &[0.25])
        .into_iter()
        .filter(|e| e.space == "logodds" || (e.mat.width() <= 4 && (!ctx.quick() || e.mat.origin.contains("uniform, N=-inf") || e.mat.origin.contains("wildcard(.2,.3,.1,.3,.1), N=-inf") || e.mat.origin.contains(": skewed"))))
        .collect();
    let _ = &mut entries;
    let nh = entries.len();
    let _ = nh;
    let mut states = 0u64;
    let mut transitions = 0u64;
    for e in &entries {
        if !ctx.mine(exact::shard_key(e.index)) {
            continue;
        }
        let ex = Exact::new(&e.mat);
        if ex.scores.len() < 3 {
            continue;
        }
        let pssm = e.mat.scoring();
        let (scores, ps) = query_values(&ex);
        // all histories of length 2..=depth
        let mut stack: Vec<Vec<Op>> = oplist.iter().map(|&o| vec![o]).collect();
        while let Some(h) = stack.pop() {
            if h.len() >= 2 && judged(prop, *h.last().unwrap()) {
                transitions += h.len() as u64;
                states += 1;
                rep.eval_distinct(true);
                if let Some((sig, msg)) = check_history(prop, &e.mat, &pssm, &h, &scores, &ps) {
                    rep.violation(sig, msg, || case_json(&e.mat, &h, &scores, &ps));
                }
                if h.len() == 2 && states % 97 == 1 {
                    rep.sample_space(2, || case_json(&e.mat, &h, &scores, &ps));
                }
            }
            if h.len() < depth {
                for &o in &oplist {
                    let mut n = h.clone();
                    n.push(o);
                    stack.push(n);
                }
            }
        }
        if ctx.out_of_time() {
            rep.cap(format!("reuse: wall-clock cap at menu entry {}", e.index));
            break;
        }
    }
    rep.add_states(states, transitions, transitions, depth as u64);
}

pub fn replay(prop: &str, rep: &mut Report, case: &Value) {
    rep.space("replay", "replay of one recorded query history on one TfmPvalue object");
    let mat = Mat::from_json(case);
    let ex = Exact::new(&mat);
    let pssm = mat.scoring();
    let (scores, ps) = query_values(&ex);
    let hist: Vec<Op> = case["ops"]
        .as_array()
        .unwrap()
        .iter()
        .map(|o| {
            let q = o[1].as_u64().unwrap() as usize;
            let n = o[2].as_u64().unwrap() as usize;
            if o[0].as_str().unwrap() == "P" {
                Op::P(q, n)
            } else {
                Op::S(q, n)
            }
        })
        .collect();
    rep.eval_distinct(true);
    if let Some((sig, msg)) = check_history(prop, &mat, &pssm, &hist, &scores, &ps) {
        rep.violation(sig, msg, || case_json(&mat, &hist, &scores, &ps));
    }
}
