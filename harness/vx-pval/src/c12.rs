//! C12 — TFM-PVALUE p-value ranges are consistent with the exact score distribution (DESIGN §C12/C13).
//!
//! For every (matrix, background) of the shared menu and every query score of a stated grid, every
//! refinement step of `TfmPvalue::approximate_pvalue` down to granularity 1e-9 is compared with the
//! brute-force tail, then `TfmPvalue::pvalue` (run to convergence) is compared at its final
//! granularity.  The inequalities are exactly those of the statement:
//!
//!     0 <= pmin <= pmax <= 1,   P(S >= s+(M+1)g) <= pmin,   pmax <= P(S >= s-(M+2)g)
//!
//! with a 1e-6 absolute allowance on probabilities (f32 backgrounds) and, for the *final* value
//! only, the floating-point floor max(margin, 64 ulp(|s| + sum of row ranges)) on the score margin.

use lightmotif::pwm::ScoringMatrix;
use lightmotif_tfmpvalue::TfmPvalue;
use serde_json::{json, Value};
use vx_core::util::panic_class;
use vx_core::{catch, Ctx, Report};

use crate::exact::{self, ulp64, Exact, Mat, EPS_P};

/// Refinement steps are checked one by one while g >= 1e-9 (repeated division by ten lands on
/// 1.0000000000000005e-9 or a neighbour, hence the slack in the constant).
pub const HORIZON: f64 = 0.99e-9;
/// More refinement iterations than this is a livelock verdict.
pub const MAX_ITER: usize = 40;
/// Cap on the number of attainable scores used as query anchors per matrix (evenly ranked):
/// 600 in the quick tier (DESIGN), 2400 in the thorough tier.
pub fn query_cap(quick: bool) -> usize {
    if quick {
        600
    } else {
        2400
    }
}

#[derive(Clone, Debug)]
pub struct Step {
    pub g: f64,
    pub pmin: f64,
    pub pmax: f64,
    pub converged: bool,
}

pub struct Failure {
    pub sig: String,
    pub msg: String,
    /// index of the refinement step (None: the final `pvalue()` or the query as a whole)
    pub step: Option<usize>,
}

pub struct QueryOutcome {
    pub steps: Vec<Step>,
    pub final_p: Option<f64>,
    /// number of inequality evaluations performed (checked steps + final)
    pub evals: u64,
    pub failures: Vec<Failure>,
    /// not converged when the 1e-9 horizon was reached
    pub late: bool,
}

fn fmt_steps(steps: &[Step]) -> Value {
    Value::Array(steps.iter().map(|s| json!({"g": s.g, "pmin": s.pmin, "pmax": s.pmax, "converged": s.converged})).collect())
}

/// Run one query against the real code and the oracle.
pub fn check_query<A: lightmotif::abc::Alphabet>(mat: &Mat, pssm: &ScoringMatrix<A>, ex: &Exact, s: f64) -> QueryOutcome {
    let m = mat.width();
    let mut out = QueryOutcome { steps: Vec::new(), final_p: None, evals: 0, failures: Vec::new(), late: false };
    let cls = &mat.class;

    // ---- every refinement step, on a fresh object -------------------------------------------
    let mut steps: Vec<Step> = Vec::new();
    let mut livelock = false;
    let r = catch(|| {
        let mut t = TfmPvalue::new(pssm);
        for it in t.approximate_pvalue(s) {
            steps.push(Step { g: it.granularity, pmin: *it.range.start(), pmax: *it.range.end(), converged: it.converged });
            if steps.len() > MAX_ITER {
                livelock = true;
                break;
            }
        }
    });
    out.steps = steps;
    if let Err(p) = &r {
        out.evals += 1;
        out.failures.push(Failure {
            sig: format!("C12 [{}] panic in approximate_pvalue {}", cls, panic_class(p)),
            msg: format!("approximate_pvalue({}) panicked at refinement step {}: {}", s, out.steps.len(), p),
            step: Some(out.steps.len()),
        });
    }
    if livelock {
        out.evals += 1;
        out.failures.push(Failure {
            sig: format!("C12 [{}] livelock: more than {} refinement steps", cls, MAX_ITER),
            msg: format!("approximate_pvalue({}) has not converged after {} steps (granularity {:e})", s, out.steps.len(), out.steps.last().unwrap().g),
            step: None,
        });
    }

    for (i, st) in out.steps.iter().enumerate() {
        if st.g < HORIZON {
            out.late = true; // not converged when the horizon was reached
            continue;
        }
        out.evals += 1;
        let g = st.g;
        let lo = ex.tail_ge(s + (m as f64 + 1.0) * g);
        let hi = ex.tail_ge(s - (m as f64 + 2.0) * g);
        let mut fail = |kind: &str, msg: String| {
            out.failures.push(Failure { sig: format!("C12 [{}] step: {}", cls, kind), msg, step: Some(i) });
        };
        if st.pmin.is_nan() || st.pmax.is_nan() {
            fail("NaN in range", format!("step {} (g={:e}) of approximate_pvalue({}): range {:?}..={:?}", i, g, s, st.pmin, st.pmax));
            continue;
        }
        if st.pmin > st.pmax {
            fail("range not ordered (pmin > pmax)", format!("step {} (g={:e}) of approximate_pvalue({}): pmin {:e} > pmax {:e}", i, g, s, st.pmin, st.pmax));
        }
        if st.pmin < -EPS_P {
            fail("pmin < 0", format!("step {} (g={:e}) of approximate_pvalue({}): pmin {:e}", i, g, s, st.pmin));
        }
        if st.pmax > 1.0 + EPS_P {
            fail("pmax > 1", format!("step {} (g={:e}) of approximate_pvalue({}): pmax {}", i, g, s, st.pmax));
        }
        if st.pmin < lo - exact::eps_rel(lo) {
            fail(
                "pmin below P(S >= s+(M+1)g)",
                format!("step {} (g={:e}) of approximate_pvalue({}): pmin {} < exact P(S >= s+{}g) = {}", i, g, s, st.pmin, m + 1, lo),
            );
        }
        if st.pmax > hi + exact::eps_rel(hi) {
            fail(
                "pmax above P(S >= s-(M+2)g)",
                format!("step {} (g={:e}) of approximate_pvalue({}): pmax {} > exact P(S >= s-{}g) = {}", i, g, s, st.pmax, m + 2, hi),
            );
        }
    }

    // ---- the final value ----------------------------------------------------------------------
    if r.is_ok() && !livelock {
        out.evals += 1;
        match catch(|| TfmPvalue::new(pssm).pvalue(s)) {
            Err(p) => out.failures.push(Failure {
                sig: format!("C12 [{}] panic in pvalue {}", cls, panic_class(&p)),
                msg: format!("pvalue({}) panicked: {}", s, p),
                step: None,
            }),
            Ok(p) => {
                out.final_p = Some(p);
                let last = out.steps.last().cloned();
                let mut fail = |kind: &str, msg: String| {
                    out.failures.push(Failure { sig: format!("C12 [{}] final: {}", cls, kind), msg, step: None });
                };
                match last {
                    None => fail("no refinement step", format!("approximate_pvalue({}) yielded nothing but pvalue() returned {}", s, p)),
                    Some(last) => {
                        if p.to_bits() != last.pmin.to_bits() {
                            fail(
                                "pvalue() differs from the last refinement step",
                                format!("pvalue({}) = {:e} but the last step of approximate_pvalue reports pmin {:e}", s, p, last.pmin),
                            );
                        }
                        let g = last.g;
                        let floor = 64.0 * ulp64(s.abs() + mat.range_sum());
                        let dl = ((m as f64 + 1.0) * g).max(floor);
                        let du = ((m as f64 + 2.0) * g).max(floor);
                        let lo = ex.tail_ge(s + dl);
                        let hi = ex.tail_ge(s - du);
                        if p.is_nan() {
                            fail("NaN", format!("pvalue({}) is NaN", s));
                        } else {
                            if p < -EPS_P || p > 1.0 + EPS_P {
                                fail("pvalue outside [0,1]", format!("pvalue({}) = {}", s, p));
                            }
                            if p < lo - exact::eps_rel(lo) {
                                fail(
                                    "pvalue below P(S >= s+(M+1)g)",
                                    format!("pvalue({}) = {} (final g={:e}, margin {:e}) < exact {}", s, p, g, dl, lo),
                                );
                            }
                            if p > hi + exact::eps_rel(hi) {
                                fail(
                                    "pvalue above P(S >= s-(M+2)g)",
                                    format!("pvalue({}) = {} (final g={:e}, margin {:e}) > exact {}", s, p, g, du, hi),
                                );
                            }
                        }
                    }
                }
            }
        }
    }
    out
}

/// The query grid of one matrix: (score, kind).
pub fn queries(ex: &Exact, cap: usize) -> Vec<(f64, &'static str)> {
    let n = ex.scores.len();
    let mut q: Vec<(f64, &'static str)> = Vec::new();
    q.push((ex.min() - 1.0, "below the minimum"));
    for i in exact::ranked(n, cap) {
        let a = ex.scores[i];
        q.push((a, "attainable"));
        q.push((a + 1e-4, "attainable + 1e-4"));
        // strictly between two grid points of the coarsest granularities (0.1, 0.01): the query is not attainable at
        // any step, so what each step reports depends on the granularity it really works at
        q.push((a + 0.15, "attainable + 0.15"));
        q.push((a - 0.0151, "attainable - 0.0151"));
        if i + 1 < n {
            q.push((0.5 * (a + ex.scores[i + 1]), "midpoint to the next attainable score"));
        }
    }
    q.push((ex.max() + 1.0, "above the maximum"));
    q
}

pub fn case_json(mat: &Mat, s: f64, kind: &str, step: Option<usize>, o: &QueryOutcome) -> Value {
    let mut v = mat.json();
    let m = v.as_object_mut().unwrap();
    m.insert("score".into(), json!(s));
    // serde_json (without its float_roundtrip feature) may parse a decimal one ulp off: replays use the bit pattern
    m.insert("score_bits".into(), json!(format!("{:016x}", s.to_bits())));
    m.insert("query_kind".into(), json!(kind));
    m.insert("failing_step".into(), json!(step));
    m.insert("observed_steps".into(), fmt_steps(&o.steps));
    m.insert("observed_final_pvalue".into(), json!(o.final_p));
    m.insert(
        "rust_repro".into(),
        json!(format!(
            "let pssm = ScoringMatrix::<Dna>::new(Background::from_counts(&GenericArray::from({:?})).unwrap(), DenseMatrix::from_rows({})); let mut t = TfmPvalue::new(&pssm); for it in t.approximate_pvalue({:?}) {{ println!(\"{{:?}}\", it); }}",
            mat.bg_counts, mat.rust_rows(), s
        )),
    );
    v
}

pub struct TierCfg {
    pub widths: Vec<usize>,
    pub pseudos: Vec<f32>,
}

impl TierCfg {
    pub fn of(ctx: &Ctx) -> TierCfg {
        if ctx.quick() {
            TierCfg { widths: vec![2, 3, 4, 5, 6], pseudos: vec![0.25, 1.0] }
        } else {
            TierCfg { widths: vec![2, 3, 4, 5, 6, 7, 8], pseudos: vec![0.1, 0.25, 1.0] }
        }
    }
    /// number of cyclic windows of the count rows taken at width m
    pub fn windows(&self, _m: usize) -> usize {
        16
    }
}

pub fn run(ctx: &mut Ctx, rep: &mut Report) {
    let cfg = TierCfg::of(ctx);
    let cap = query_cap(ctx.quick());
    let win = |m: usize| cfg.windows(m);
    let entries = exact::menu(&cfg.widths, &win, &cfg.pseudos);
    let grid = format!(
        "queries per matrix: min-1, every distinct attainable score a (at most {} evenly ranked ones), a+1e-4, a+0.15, a-0.0151, midpoint to the next attainable score, max+1; \
         every refinement step of approximate_pvalue with g >= 1e-9 and the final pvalue(); oracle: brute-force tail over all K'^M words (K' = symbols with non-zero background), \
         statement margins (M+1)g / (M+2)g, 1e-6 on probabilities; every matrix whose background gives the wildcard no mass (quick: widths <= 4) is ALSO checked as a protein matrix carrying the same distribution (DNA columns at protein ranks 19, 2, 11, 6 with the DNA background counts, all other residues background 0 and copies of cells of their row, X = the DNA wildcard cell): same queries, same oracle; one evaluation = one (matrix, background, score, step) check; non-trivial = min < score < max",
        cap
    );
    rep.space("logodds", &format!("product: {} ; {}", exact::menu_text(&cfg.widths, &win, &cfg.pseudos), grid));
    rep.space("hand", &format!("product: {} ; {}", exact::hand_text(), grid));
    let mut capped_queries = false;
    let mut late = 0u64;
    for e in &entries {
        if !ctx.mine(exact::shard_key(e.index)) {
            continue;
        }
        rep.space(e.space, "");
        let ex = Exact::new(&e.mat);
        let pssm = e.mat.scoring();
        // quick tier: widths up to 4 (the protein loops are five times longer); thorough: every matrix
        let prot = if ctx.quick() && e.mat.width() > 4 { None } else { e.mat.scoring_protein().map(|pp| (e.mat.as_protein_embedded(), pp)) };
        if ex.scores.len() > cap {
            capped_queries = true;
        }
        let qs = queries(&ex, cap);
        ctx.crumb(|| format!("C12 entry {} {}", e.index, e.mat.origin));
        for (qi, &(s, kind)) in qs.iter().enumerate() {
            let o = check_query(&e.mat, &pssm, &ex, s);
            let nontrivial = s > ex.min() && s < ex.max();
            for _ in 0..o.evals {
                rep.eval_distinct(nontrivial);
            }
            if o.late {
                late += 1;
            }
            for f in &o.failures {
                rep.violation(f.sig.clone(), f.msg.clone(), || case_json(&e.mat, s, kind, f.step, &o));
            }
            // the same distribution carried by a protein matrix (symbol loops to K-1 = 20; see Mat::scoring_protein)
            if let Some((pm, pp)) = &prot {
                let o = check_query(pm, pp, &ex, s);
                for _ in 0..o.evals {
                    rep.eval_distinct(nontrivial);
                }
                for f in &o.failures {
                    rep.violation(f.sig.clone(), f.msg.clone(), || {
                        let mut v = case_json(pm, s, kind, f.step, &o);
                        v["embedding"] = json!("protein");
                        v
                    });
                }
            }
            if e.mat.width() == 3 && kind == "attainable + 1e-4" && qi > 10 {
                rep.sample_space(2, || {
                    let mut v = case_json(&e.mat, s, kind, None, &o);
                    v["oracle"] = json!({"words_enumerated": ex.words, "letters": ex.letters, "distinct_scores": ex.scores.len(), "P(S>=s)": ex.tail_ge(s)});
                    v
                });
            }
            if qi % 64 == 63 && ctx.out_of_time() {
                break;
            }
        }
        if ctx.out_of_time() {
            rep.cap(format!("C12: wall-clock cap reached at menu entry {} of {} ({})", e.index, entries.len(), e.mat.origin));
            return;
        }
    }
    if capped_queries {
        rep.note(format!("stated bound: matrices with more than {} distinct attainable scores are queried at {} evenly ranked ones (min and max included)", cap, cap));
    }
    if late > 0 {
        rep.note("some queries had not converged when the 1e-9 horizon of the step-by-step check was reached; their later steps are covered only through the final pvalue() (DESIGN C12: reported, not a verdict)");
    }
}

pub fn replay(_ctx: &mut Ctx, rep: &mut Report, case: &Value) {
    rep.space("replay", "replay of one recorded (matrix, background, score): all refinement steps and the final pvalue()");
    let mat = Mat::from_json(case);
    let s = match case["score_bits"].as_str().and_then(|h| u64::from_str_radix(h, 16).ok()) {
        Some(bits) => f64::from_bits(bits),
        None => case["score"].as_f64().expect("score"),
    };
    let kind = case["query_kind"].as_str().unwrap_or("replay").to_string();
    let ex = Exact::new(&mat);
    let protein = case["embedding"].as_str() == Some("protein");
    let o = if protein {
        let pm = mat.as_protein_embedded();
        let pp = mat.scoring_protein().expect("protein embedding of a background with wildcard mass");
        check_query(&pm, &pp, &ex, s)
    } else {
        let pssm = mat.scoring();
        check_query(&mat, &pssm, &ex, s)
    };
    let mat = if protein { mat.as_protein_embedded() } else { mat };
    for _ in 0..o.evals.max(1) {
        rep.eval_distinct(true);
    }
    for f in &o.failures {
        rep.violation(f.sig.clone(), f.msg.clone(), || {
            let mut v = case_json(&mat, s, &kind, f.step, &o);
            if protein {
                v["embedding"] = json!("protein");
            }
            v
        });
    }
}
