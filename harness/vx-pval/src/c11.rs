//! C11 — MEME-style score distribution agrees with the exact tail within its resolution (DESIGN §C11).
//!
//! Clauses, each checked on an explicitly enumerated grid:
//!   (a) `sf()` is non-increasing with values in [0,1];
//!   (b) P(S >= s+d) - eps <= pvalue(s) <= P(S >= s-d) + eps, d = (M/2+1) discretisation steps
//!       (integer division), the step recovered from the public `unscale(1000) - unscale(0)`,
//!       eps = 1e-6 (f32 backgrounds), exact tail by brute force over all K'^M words;
//!   (c) pvalue is non-increasing along the sorted list of query scores and lies in [0,1];
//!   (d) pvalue(score(p)) <= p for every p of the grid.
//! (a), (c), (d) are also checked for M in {12, 16, 20}, where no exact oracle is affordable.

use lightmotif::abc::Alphabet;
use lightmotif::pwm::dist::ScoreDistribution;
use lightmotif::pwm::ScoringMatrix;
use serde_json::{json, Value};
use vx_core::util::panic_class;
use vx_core::{catch, Ctx, Report};

use crate::exact::{self, Entry, Exact, Mat, EPS_P};

/// Cap on the number of attainable scores used as anchors per matrix (DESIGN: "<= 4 096").
pub const SCORE_CAP: usize = 4096;

pub struct Dist<A: Alphabet> {
    pub d: ScoreDistribution<A>,
    /// one discretisation step in score units, (unscale(1000) - unscale(0)) / 1000
    pub step: f64,
}

pub fn build<A: Alphabet>(pssm: &ScoringMatrix<A>) -> Result<Dist<A>, String> {
    catch(|| {
        let d = ScoreDistribution::from(pssm);
        let step = (d.unscale(1000) as f64 - d.unscale(0) as f64) / 1000.0;
        Dist { d, step }
    })
}

type Fail = (String, String);

/// (a)
pub fn check_sf<A: Alphabet>(dist: &Dist<A>) -> Vec<Fail> {
    let sf = dist.d.sf();
    let mut v = Vec::new();
    for i in 0..sf.len() {
        if !(sf[i] >= 0.0 && sf[i] <= 1.0) {
            v.push(("sf value outside [0,1]".to_string(), format!("sf[{}] = {:e}", i, sf[i])));
            break;
        }
    }
    for i in 1..sf.len() {
        if !(sf[i] <= sf[i - 1]) {
            v.push(("sf increases".to_string(), format!("sf[{}] = {:e} > sf[{}] = {:e}", i, sf[i], i - 1, sf[i - 1])));
            break;
        }
    }
    v
}

/// (b) and (c) for one score; `prev` is the next smaller query of the sorted grid.
pub fn check_score<A: Alphabet>(mat: &Mat, dist: &Dist<A>, ex: Option<&Exact>, s: f32, prev: Option<f32>) -> Vec<Fail> {
    let mut v = Vec::new();
    let m = mat.width();
    let p = match catch(|| dist.d.pvalue(s)) {
        Ok(p) => p,
        Err(e) => {
            v.push((format!("panic in pvalue {}", panic_class(&e)), format!("pvalue({}) panicked: {}", s, e)));
            return v;
        }
    };
    if !(p >= 0.0 && p <= 1.0) {
        v.push(("pvalue outside [0,1]".into(), format!("pvalue({}) = {:e}", s, p)));
        return v;
    }
    if let Some(ex) = ex {
        if !(dist.step.is_finite() && dist.step > 0.0) {
            v.push(("discretisation step not recoverable".into(), format!("unscale(1000) - unscale(0) = {:e}", dist.step * 1000.0)));
            return v;
        }
        let d = (m / 2 + 1) as f64 * dist.step;
        let lo = ex.tail_ge(s as f64 + d);
        let hi = ex.tail_ge(s as f64 - d);
        if p < lo - exact::eps_rel(lo) {
            v.push((
                "pvalue below P(S >= s+d)".into(),
                format!("pvalue({}) = {:e} < exact P(S >= s+d) = {:e} (d = {} steps of {:e})", s, p, lo, m / 2 + 1, dist.step),
            ));
        }
        if p > hi + exact::eps_rel(hi) {
            v.push((
                "pvalue above P(S >= s-d)".into(),
                format!("pvalue({}) = {:e} > exact P(S >= s-d) = {:e} (d = {} steps of {:e})", s, p, hi, m / 2 + 1, dist.step),
            ));
        }
    }
    if let Some(q) = prev {
        if let Ok(pq) = catch(|| dist.d.pvalue(q)) {
            if q <= s && p > pq {
                v.push(("pvalue increases with the score".into(), format!("pvalue({}) = {:e} > pvalue({}) = {:e}", s, p, q, pq)));
            }
        }
    }
    v
}

/// (d)
pub fn check_p<A: Alphabet>(dist: &Dist<A>, p: f64) -> Vec<Fail> {
    let mut v = Vec::new();
    match catch(|| {
        let t = dist.d.score(p);
        (t, dist.d.pvalue(t))
    }) {
        Err(e) => v.push((format!("panic in score/pvalue {}", panic_class(&e)), format!("pvalue(score({:e})) panicked: {}", p, e))),
        Ok((t, back)) => {
            if !(back <= p) {
                v.push(("pvalue(score(p)) > p".into(), format!("score({:e}) = {} and pvalue of that is {:e} > p", p, t, back)));
            }
        }
    }
    v
}

/// Sorted, de-duplicated f32 score grid of a matrix with an oracle.
pub fn score_grid(ex: &Exact, step: f64) -> Vec<f32> {
    let step = if step.is_finite() && step > 0.0 { step } else { 1e-3 };
    let n = ex.scores.len();
    let mut q: Vec<f32> = Vec::with_capacity(5 * n.min(SCORE_CAP) + 4);
    q.push((ex.min() - 1.0) as f32);
    q.push((ex.min() - 100.0) as f32);
    for i in exact::ranked(n, SCORE_CAP) {
        let a = ex.scores[i];
        for k in [-1.0, -0.5, 0.0, 0.5, 1.0] {
            q.push((a + k * step) as f32);
        }
    }
    q.push((ex.max() + 1.0) as f32);
    q.push((ex.max() + 100.0) as f32);
    // scores far outside the range: their scaled value does not fit the integer types of the table look-up
    for x in [1.0e7f32, 1.0e9, 1.0e12, f32::MAX] {
        q.push(x);
        q.push(-x);
    }
    q.sort_by(|a, b| a.partial_cmp(b).unwrap());
    q.dedup();
    q
}

/// p grid: exact tail values, arithmetic midpoints, every distinct tabulated sf value and the
/// midpoints of adjacent ones, fixed values; restricted to (0,1).
pub fn p_grid<A: Alphabet>(ex: Option<&Exact>, dist: &Dist<A>) -> Vec<f64> {
    let mut q: Vec<f64> = Vec::new();
    if let Some(ex) = ex {
        let n = ex.scores.len();
        for i in exact::ranked(n, SCORE_CAP) {
            q.push(ex.tail[i]);
            if i + 1 < n {
                q.push(0.5 * (ex.tail[i] + ex.tail[i + 1]));
            }
        }
    }
    let mut sf: Vec<f64> = dist.d.sf().to_vec();
    sf.dedup();
    for i in 0..sf.len() {
        q.push(sf[i]);
        if i + 1 < sf.len() {
            q.push(0.5 * (sf[i] + sf[i + 1]));
        }
    }
    q.extend([1e-9, 1e-6, 0.5, 0.999]);
    q.retain(|&p| p > 0.0 && p < 1.0);
    q
}

fn case_json<A: Alphabet>(mat: &Mat, query: Value, dist: Option<&Dist<A>>) -> Value {
    let mut v = mat.json();
    let m = v.as_object_mut().unwrap();
    m.insert("query".into(), query);
    if let Some(d) = dist {
        m.insert("observed_step".into(), json!(d.step));
        m.insert("observed_sf_len".into(), json!(d.d.sf().len()));
    }
    m.insert(
        "rust_repro".into(),
        json!(format!(
            "let pssm = ScoringMatrix::<Dna>::new(Background::from_counts(&GenericArray::from({:?})).unwrap(), DenseMatrix::from_rows({})); let dist = pssm.to_score_distribution();",
            mat.bg_counts, mat.rust_rows()
        )),
    );
    v
}

/// Run all clauses on one menu entry.
fn run_entry(e: &Entry, with_oracle: bool, rep: &mut Report, ctx: &mut Ctx) {
    ctx.crumb(|| format!("C11 entry {} {}", e.index, e.mat.origin));
    run_entry_on(&e.mat, &e.mat.scoring(), with_oracle, rep);
    // the same distribution carried by a protein matrix (ScoreDistribution is generic over the alphabet; see
    // Mat::scoring_protein): same grids, same oracle; matrices with an oracle only (the structural ones are wide)
    if with_oracle {
        if let Some(pp) = e.mat.scoring_protein() {
            ctx.crumb(|| format!("C11 entry {} {} (protein embedding)", e.index, e.mat.origin));
            run_entry_on(&e.mat.as_protein_embedded(), &pp, with_oracle, rep);
        }
    }
}

fn run_entry_on<A: Alphabet>(mat: &Mat, pssm: &ScoringMatrix<A>, with_oracle: bool, rep: &mut Report) {
    let cls = mat.class.clone();
    rep.eval_distinct(true);
    let dist = match build(pssm) {
        Ok(d) => d,
        Err(p) => {
            rep.violation(format!("C11 [{}] panic building the distribution {}", cls, panic_class(&p)), format!("ScoreDistribution::from panicked: {}", p), || {
                case_json::<A>(mat, json!({"kind": "sf"}), None)
            });
            return;
        }
    };
    for (kind, msg) in check_sf(&dist) {
        rep.violation(format!("C11 [{}] {}", cls, kind), msg, || case_json(mat, json!({"kind": "sf"}), Some(&dist)));
    }
    let ex = if with_oracle { Some(Exact::new(mat)) } else { None };
    // ---- scores
    let grid: Vec<f32> = match &ex {
        Some(ex) => score_grid(ex, dist.step),
        None => {
            // structural grid: 4001 evenly spaced f32 values from min_score-1 to max_score+1
            let lo = pssm.min_score() as f64 - 1.0;
            let hi = pssm.max_score() as f64 + 1.0;
            let mut q: Vec<f32> = (0..=4000).map(|i| (lo + (hi - lo) * i as f64 / 4000.0) as f32).collect();
            q.extend([-f32::MAX, -1.0e9, 1.0e9, f32::MAX]);
            q.sort_by(|a, b| a.partial_cmp(b).unwrap());
            q.dedup();
            q
        }
    };
    let (smin, smax) = match &ex {
        Some(ex) => (ex.min(), ex.max()),
        None => (pssm.min_score() as f64, pssm.max_score() as f64),
    };
    let mut prev: Option<f32> = None;
    for (i, &s) in grid.iter().enumerate() {
        rep.eval_distinct((s as f64) > smin && (s as f64) < smax);
        for (kind, msg) in check_score(mat, &dist, ex.as_ref(), s, prev) {
            rep.violation(format!("C11 [{}] {}", cls, kind), msg, || {
                case_json(mat, json!({"kind": "score", "score": s as f64, "prev_score": prev.map(|x| x as f64), "oracle": with_oracle}), Some(&dist))
            });
        }
        if mat.width() == 3 && i == grid.len() / 2 {
            rep.sample_space(1, || {
                let mut v = case_json(mat, json!({"kind": "score", "score": s as f64, "prev_score": prev.map(|x| x as f64), "oracle": with_oracle}), Some(&dist));
                v["observed_pvalue"] = json!(dist.d.pvalue(s));
                v
            });
        }
        prev = Some(s);
    }
    // ---- p-values
    let (plo, phi) = match &ex {
        Some(ex) => (*ex.tail.last().unwrap(), ex.total()),
        None => (0.0, 1.0),
    };
    for p in p_grid(ex.as_ref(), &dist) {
        rep.eval_distinct(p > plo && p < phi);
        for (kind, msg) in check_p(&dist, p) {
            rep.violation(format!("C11 [{}] {}", cls, kind), msg, || case_json(mat, json!({"kind": "pvalue", "p": p}), Some(&dist)));
        }
    }
}

pub fn run(ctx: &mut Ctx, rep: &mut Report) {
    let quick = ctx.quick();
    let widths: Vec<usize> = if quick { vec![2, 3, 4, 5, 6] } else { vec![2, 3, 4, 5, 6, 7, 8] };
    let pseudos: Vec<f32> = if quick { vec![0.25, 1.0] } else { vec![0.1, 0.25, 1.0] };
    let win = |_m: usize| 16usize;
    let entries = exact::menu(&widths, &win, &pseudos);
    let grid = format!(
        "per matrix: sf() table (1 evaluation); scores: min-100, min-1, every distinct attainable score a (at most {} evenly ranked), a +- 1 step, a +- 1/2 step, max+1, max+100, +-1e7, +-1e9, +-1e12, +-f32::MAX, as f32, sorted; \
         p: exact tail values P(S >= a), arithmetic midpoints of adjacent ones, every distinct tabulated sf value and midpoints of adjacent ones, 1e-9, 1e-6, .5, .999, restricted to (0,1); \
         oracle: brute-force tail over all K'^M words, d = (M/2+1) steps, 1e-6 on probabilities; monotonicity and pvalue(score(p)) <= p exact; \
         every matrix whose background gives the wildcard no mass is ALSO checked as a protein matrix carrying the same distribution (DNA columns at protein ranks 19, 2, 11, 6 with the DNA background counts, all other residues background 0 and copies of cells of their row, X = the DNA wildcard cell): same grids, same oracle; \
         one evaluation = one (matrix, background, query); non-trivial = min < score < max, resp. smallest tail < p < total mass",
        SCORE_CAP
    );
    rep.space("logodds", &format!("product: {} ; {}", exact::menu_text(&widths, &win, &pseudos), grid));
    rep.space("hand", &format!("product: {} ; {}", exact::hand_text(), grid));
    let mut next_index = 0u64;
    let mut capped_queries = false;
    rep.note("matrices with a NaN wildcard column (a C12/C13 configuration: TFM-PVALUE never reads that column) are not given to the MEME-style table, which scales on the extreme cells of the whole matrix: NaN is not a score, so they are outside C11's domain");
    for e in &entries {
        if e.mat.rows.iter().any(|r| r.iter().any(|x| x.is_nan())) {
            continue;
        }
        next_index = e.index + 1;
        if !ctx.mine(exact::shard_key(e.index)) {
            continue;
        }
        rep.space(e.space, "");
        if 4usize.pow(e.mat.width() as u32) > SCORE_CAP {
            capped_queries = true;
        }
        run_entry(e, true, rep, ctx);
        if ctx.out_of_time() {
            rep.cap(format!("C11: wall-clock cap reached at menu entry {} of {} ({})", e.index, entries.len(), e.mat.origin));
            return;
        }
    }
    if capped_queries {
        rep.note(format!("stated bound: matrices with more than {} distinct attainable scores are queried at {} evenly ranked ones (min and max included)", SCORE_CAP, SCORE_CAP));
    }
    // ---- structural clauses on wide matrices, no exact oracle
    rep.space(
        "structural",
        "product: M in {12, 16, 20} x 4 (thorough 16) cyclic windows of the 16 count rows x pseudocounts x 4 background configurations; clauses without exact oracle: sf() non-increasing in [0,1]; \
         pvalue in [0,1] and non-increasing over 4001 evenly spaced f32 scores from min_score-1 to max_score+1; pvalue(score(p)) <= p for every distinct tabulated sf value, midpoints of adjacent ones and 1e-9, 1e-6, .5, .999; \
         non-trivial = min_score < score < max_score, resp. 0 < p < 1",
    );
    let nwin = if quick { 4 } else { 16 };
    for m in [12usize, 16, 20] {
        for w in 0..nwin {
            let start = w * 16 / nwin;
            for &pc in &pseudos {
                for bgi in 0..exact::BG_CONFIGS.len() {
                    let index = next_index;
                    next_index += 1;
                    if !ctx.mine(exact::shard_key(index)) {
                        continue;
                    }
                    let e = Entry { index, space: "structural", mat: exact::logodds(start, m, pc, bgi) };
                    run_entry(&e, false, rep, ctx);
                    if ctx.out_of_time() {
                        rep.cap(format!("C11: wall-clock cap reached in the structural space at index {}", index));
                        return;
                    }
                }
            }
        }
    }
}

pub fn replay(_ctx: &mut Ctx, rep: &mut Report, case: &Value) {
    rep.space("replay", "replay of one recorded (matrix, background, query)");
    let mat = Mat::from_json(case);
    if case["class"].as_str().map_or(false, |c| c.starts_with("protein-embedded")) {
        let pp = mat.scoring_protein().expect("protein embedding of a background with wildcard mass");
        replay_on(rep, &mat.as_protein_embedded(), &pp, case);
    } else {
        replay_on(rep, &mat, &mat.scoring(), case);
    }
}

fn replay_on<A: Alphabet>(rep: &mut Report, mat: &Mat, pssm: &ScoringMatrix<A>, case: &Value) {
    let mat = mat.clone();
    let cls = mat.class.clone();
    let q = &case["query"];
    rep.eval_distinct(true);
    let dist = match build(pssm) {
        Ok(d) => d,
        Err(p) => {
            rep.violation(format!("C11 [{}] panic building the distribution {}", cls, panic_class(&p)), format!("ScoreDistribution::from panicked: {}", p), || {
                case_json::<A>(&mat, q.clone(), None)
            });
            return;
        }
    };
    let fails: Vec<Fail> = match q["kind"].as_str().unwrap_or("sf") {
        "score" => {
            let s = q["score"].as_f64().expect("score") as f32;
            let prev = q["prev_score"].as_f64().map(|x| x as f32);
            let ex = if q["oracle"].as_bool().unwrap_or(true) { Some(Exact::new(&mat)) } else { None };
            check_score(&mat, &dist, ex.as_ref(), s, prev)
        }
        "pvalue" => check_p(&dist, q["p"].as_f64().expect("p")),
        _ => check_sf(&dist),
    };
    for (kind, msg) in fails {
        rep.violation(format!("C11 [{}] {}", cls, kind), msg, || case_json(&mat, q.clone(), Some(&dist)));
    }
}
