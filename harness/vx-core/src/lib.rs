//! vx-core: explorer primitives, report plumbing and small utilities shared by
//! all property checkers.  See /verif/DESIGN.md §1.2.

pub mod cli;
pub mod explore;
pub mod report;
pub mod util;

pub use explore::{bfs, Bfs, BfsStats, ChoiceExplorer, Chooser, Product};
pub use report::{Report, Tier, Violation};
pub use util::{catch, fnv1a, Ctx};
