//! Explorer primitives (DESIGN §1.2):
//!  1. `Product`     – mixed-radix counter over named finite dimensions;
//!  2. `ChoiceExplorer` – stateless, deviation-bounded DFS over environment answers;
//!  3. `bfs`         – explicit-state BFS by re-execution of histories on fresh real objects.

use std::collections::{HashSet, VecDeque};
use std::hash::Hash;

// ---------------------------------------------------------------------------
// 1. Product enumerator
// ---------------------------------------------------------------------------

/// Mixed-radix counter. `dims[i]` is the size of dimension i; index 0 is the
/// all-zero (simplest) case, the *last* dimension varies fastest.
#[derive(Clone, Debug)]
pub struct Product {
    pub names: Vec<&'static str>,
    pub dims: Vec<u64>,
}

impl Product {
    pub fn new(dims: &[(&'static str, usize)]) -> Self {
        Self {
            names: dims.iter().map(|d| d.0).collect(),
            dims: dims.iter().map(|d| d.1 as u64).collect(),
        }
    }

    pub fn len(&self) -> u64 {
        self.dims.iter().product()
    }

    pub fn is_empty(&self) -> bool {
        self.len() == 0
    }

    /// Decode a global index into one coordinate per dimension.
    pub fn decode(&self, mut index: u64) -> Vec<usize> {
        let mut out = vec![0usize; self.dims.len()];
        for i in (0..self.dims.len()).rev() {
            out[i] = (index % self.dims[i]) as usize;
            index /= self.dims[i];
        }
        out
    }

    /// Iterate over the indices belonging to shard `shard` of `n`.
    pub fn shard_iter(&self, shard: usize, n: usize) -> impl Iterator<Item = (u64, Vec<usize>)> + '_ {
        let len = self.len();
        (shard as u64..len)
            .step_by(n)
            .map(move |i| (i, self.decode(i)))
    }

    pub fn describe(&self) -> String {
        self.names
            .iter()
            .zip(&self.dims)
            .map(|(n, d)| format!("{}:{}", n, d))
            .collect::<Vec<_>>()
            .join(" x ")
    }
}

// ---------------------------------------------------------------------------
// 2. Choice explorer (deviation-bounded, stateless)
// ---------------------------------------------------------------------------

/// Handed to the harness body: every environment answer is a `choose(n)`.
/// Answer 0 is the default; any other answer costs one deviation.
pub struct Chooser<'a> {
    prefix: &'a [usize],
    pos: usize,
    /// (n_alternatives, chosen) for every point of this execution.
    pub points: Vec<(usize, usize)>,
}

impl<'a> Chooser<'a> {
    pub fn new(prefix: &'a [usize]) -> Self {
        Self {
            prefix,
            pos: 0,
            points: Vec::new(),
        }
    }

    /// Pick one of `n` alternatives (n >= 1).
    pub fn choose(&mut self, n: usize) -> usize {
        assert!(n >= 1);
        let c = if self.pos < self.prefix.len() {
            let c = self.prefix[self.pos];
            // divergence while replaying a prefix is a hard error
            assert!(
                c < n,
                "choice explorer: replayed choice {} out of range {} at point {} (nondeterministic body)",
                c,
                n,
                self.pos
            );
            c
        } else {
            0
        };
        self.pos += 1;
        self.points.push((n, c));
        c
    }

    pub fn choices(&self) -> Vec<usize> {
        self.points.iter().map(|p| p.1).collect()
    }
}

pub struct ChoiceExplorer {
    pub bound: usize,
    pub executions: u64,
    pub max_points: usize,
}

impl ChoiceExplorer {
    pub fn new(bound: usize) -> Self {
        Self {
            bound,
            executions: 0,
            max_points: 0,
        }
    }

    /// Run `body` for every choice sequence with at most `bound` non-default answers.
    /// `body` gets the chooser and must run to completion.
    pub fn explore(&mut self, body: &mut dyn FnMut(&mut Chooser)) {
        self.rec(&[], 0, body);
    }

    fn rec(&mut self, prefix: &[usize], deviations: usize, body: &mut dyn FnMut(&mut Chooser)) {
        let mut ch = Chooser::new(prefix);
        body(&mut ch);
        self.executions += 1;
        self.max_points = self.max_points.max(ch.points.len());
        if deviations >= self.bound {
            return;
        }
        let points = ch.points.clone();
        let choices = ch.choices();
        for i in prefix.len()..points.len() {
            let (n, _) = points[i];
            for alt in 1..n {
                let mut p = choices[..i].to_vec();
                p.push(alt);
                self.rec(&p, deviations + 1, body);
            }
        }
    }
}

// ---------------------------------------------------------------------------
// 3. Explicit-state BFS by re-execution
// ---------------------------------------------------------------------------

#[derive(Default, Clone, Debug)]
pub struct BfsStats {
    pub states: u64,
    pub transitions: u64,
    pub max_depth: u64,
    pub depth_capped: bool,
    pub frontier_left: u64,
}

/// What the model returns for one executed transition.
pub struct Bfs<K> {
    /// canonical key of the state reached (None = terminal / do not expand)
    pub key: Option<K>,
}

/// Breadth-first search where a state is the operation history reaching it.
///
/// * `n_ops(history)` – number of operations enabled after `history`
///   (computed by the caller, typically by re-building the object);
/// * `step(history, op)` – build a *fresh real object*, replay `history`, apply
///   `op`, check the oracle (reporting through captured state) and return the
///   canonical key of the reached state.
///
/// Every executed transition is checked before de-duplication.
pub fn bfs<K: Eq + Hash + Clone>(
    root_key: K,
    max_depth: usize,
    mut n_ops: impl FnMut(&[usize]) -> usize,
    mut step: impl FnMut(&[usize], usize) -> Bfs<K>,
    mut stop: impl FnMut() -> bool,
) -> BfsStats {
    let mut stats = BfsStats::default();
    let mut seen: HashSet<K> = HashSet::new();
    seen.insert(root_key);
    stats.states = 1;
    let mut frontier: VecDeque<Vec<usize>> = VecDeque::new();
    frontier.push_back(Vec::new());
    while let Some(hist) = frontier.pop_front() {
        if stop() {
            stats.frontier_left = frontier.len() as u64 + 1;
            stats.depth_capped = true;
            break;
        }
        if hist.len() >= max_depth {
            stats.depth_capped = true;
            stats.frontier_left += 1;
            continue;
        }
        let n = n_ops(&hist);
        for op in 0..n {
            let r = step(&hist, op);
            stats.transitions += 1;
            stats.max_depth = stats.max_depth.max(hist.len() as u64 + 1);
            if let Some(k) = r.key {
                if seen.insert(k) {
                    stats.states += 1;
                    let mut h = hist.clone();
                    h.push(op);
                    frontier.push_back(h);
                }
            }
        }
    }
    stats
}

#[cfg(test)]
mod tests {
    use super::*;

    #[test]
    fn product_roundtrip() {
        let p = Product::new(&[("a", 3), ("b", 4), ("c", 2)]);
        assert_eq!(p.len(), 24);
        let all: Vec<_> = (0..4).flat_map(|s| p.shard_iter(s, 4).map(|x| x.0).collect::<Vec<_>>()).collect();
        assert_eq!(all.len(), 24);
        assert_eq!(p.decode(0), vec![0, 0, 0]);
        assert_eq!(p.decode(23), vec![2, 3, 1]);
    }

    #[test]
    fn choice_counts() {
        // 3 binary points, bound 1 => 1 + 3 executions; bound 2 => 1+3+3
        for (b, want) in [(0, 1), (1, 4), (2, 7), (3, 8)] {
            let mut ex = ChoiceExplorer::new(b);
            let mut seen = std::collections::HashSet::new();
            ex.explore(&mut |ch| {
                let v: Vec<usize> = (0..3).map(|_| ch.choose(2)).collect();
                seen.insert(v);
            });
            assert_eq!(ex.executions, want);
            assert_eq!(seen.len() as u64, want);
        }
    }

    #[test]
    fn bfs_counter() {
        // states 0..=5, ops +1 / +2 saturating
        let st = bfs(
            0u32,
            10,
            |_| 2,
            |h, op| {
                let mut v = 0u32;
                for &o in h.iter().chain(std::iter::once(&op)) {
                    v = (v + o as u32 + 1).min(5);
                }
                Bfs { key: Some(v) }
            },
            || false,
        );
        assert_eq!(st.states, 6);
    }
}
