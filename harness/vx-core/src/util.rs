//! Isolation helpers: panic capture, breadcrumbs, deadlines, hashing.

use std::cell::RefCell;
use std::panic::{self, AssertUnwindSafe};
use std::sync::Once;
use std::time::{Duration, Instant};

use crate::report::Tier;

thread_local! {
    static LAST_PANIC: RefCell<Option<String>> = const { RefCell::new(None) };
}

static HOOK: Once = Once::new();

/// Install a panic hook that records message+location instead of printing.
pub fn install_panic_hook() {
    HOOK.call_once(|| {
        panic::set_hook(Box::new(|info| {
            let msg = if let Some(s) = info.payload().downcast_ref::<&str>() {
                s.to_string()
            } else if let Some(s) = info.payload().downcast_ref::<String>() {
                s.clone()
            } else {
                "<non-string panic>".to_string()
            };
            let loc = info
                .location()
                .map(|l| format!("{}:{}", l.file(), l.line()))
                .unwrap_or_default();
            LAST_PANIC.with(|p| *p.borrow_mut() = Some(format!("{} @ {}", msg, loc)));
        }));
    });
}

/// Run `f` under `catch_unwind`; a panic becomes `Err("message @ file:line")`.
pub fn catch<T>(f: impl FnOnce() -> T) -> Result<T, String> {
    install_panic_hook();
    LAST_PANIC.with(|p| *p.borrow_mut() = None);
    match panic::catch_unwind(AssertUnwindSafe(f)) {
        Ok(v) => Ok(v),
        Err(_) => Err(LAST_PANIC
            .with(|p| p.borrow_mut().take())
            .unwrap_or_else(|| "<panic>".into())),
    }
}

/// Strip the line number / thread specifics from a panic message so that it can
/// be part of a stable signature.
pub fn panic_class(msg: &str) -> String {
    // keep "file" and the first words of the message, drop digits
    let (m, loc) = match msg.rsplit_once(" @ ") {
        Some((m, l)) => (m, l),
        None => (msg, ""),
    };
    let file = loc.rsplit_once(':').map(|x| x.0).unwrap_or(loc);
    let file = file.rsplit('/').next().unwrap_or(file);
    let mut words: Vec<String> = Vec::new();
    for w in m.split_whitespace().take(6) {
        let w: String = w.chars().filter(|c| !c.is_ascii_digit()).collect();
        words.push(w);
    }
    format!("{}:{}", file, words.join("_"))
}

#[repr(align(32))]
#[derive(Clone, Copy)]
struct Poison32([u8; 32]);

/// Dirty the allocator's free lists: allocate 32-byte-aligned blocks of the sizes the library's
/// matrices use, fill them with 0xA5 and free them, so that a later allocation which the code under
/// test forgets to initialise shows 0xA5A5.. instead of whatever a fresh process happens to have
/// (usually zeros). This makes "exposes uninitialised / stale memory" defects reproducible when a
/// history is replayed alone in a fresh process.
pub fn poison_heap() {
    // More than 7 blocks per size: glibc keeps the first 7 freed blocks of a size class in the
    // thread cache, which aligned allocations (posix_memalign, used for 32-byte aligned rows) do
    // not consult; the others go to the bins / are merged into the top of the heap, where aligned
    // allocations are carved from.
    const ROWS: [usize; 9] = [1, 2, 3, 4, 5, 8, 9, 12, 16];
    let mut keep: Vec<Vec<Poison32>> = Vec::with_capacity(ROWS.len() * 10);
    for &r in ROWS.iter() {
        for _ in 0..10 {
            keep.push(vec![Poison32([0xA5; 32]); r + 2]);
        }
    }
    std::hint::black_box(&keep);
    drop(keep);
}

/// 64-bit FNV-1a.
pub fn fnv1a(bytes: &[u8]) -> u64 {
    let mut h: u64 = 0xcbf29ce484222325;
    for b in bytes {
        h ^= *b as u64;
        h = h.wrapping_mul(0x100000001b3);
    }
    h
}

// ---------------------------------------------------------------------------
// breadcrumbs: attribute a hard crash (SIGSEGV, sanitizer abort) to a case
// ---------------------------------------------------------------------------

struct Crumbs {
    path: Option<std::path::PathBuf>,
    /// the breadcrumb file, kept open: one positioned write per case (open+truncate+close per case made
    /// state-space searches with millions of transitions 15x slower)
    file: Option<std::fs::File>,
    last_len: usize,
    counter: u64,
    resume_after: u64,
    skip: Vec<u64>,
}

thread_local! {
    static CRUMBS: RefCell<Crumbs> = const { RefCell::new(Crumbs { path: None, file: None, last_len: 0, counter: 0, resume_after: 0, skip: Vec::new() }) };
}

/// Configure the breadcrumb file. Cases announced with `crumb` and numbered <= `resume_after` are
/// skipped; cases whose number is in `skip` are skipped whichever way they are announced.
pub fn crumb_setup(path: Option<std::path::PathBuf>, resume_after: u64, skip: Vec<u64>) {
    CRUMBS.with(|c| {
        let mut c = c.borrow_mut();
        c.file = path.as_ref().and_then(|p| std::fs::File::create(p).ok());
        c.last_len = 0;
        c.path = path;
        c.counter = 0;
        c.resume_after = resume_after;
        c.skip = skip;
    });
}

fn crumb_impl(bfs: bool, f: impl FnOnce() -> String) -> bool {
    CRUMBS.with(|c| {
        let mut c = c.borrow_mut();
        if c.path.is_none() {
            return true;
        }
        c.counter += 1;
        if (!bfs && c.counter <= c.resume_after) || c.skip.contains(&c.counter) {
            return false;
        }
        let mut text = format!("{{\"n\": {}, \"bfs\": {}, \"case\": {}}}", c.counter, bfs, f());
        // overwrite in place; pad with spaces over the remains of a longer previous crumb (JSON ignores them)
        let len = text.len();
        while text.len() < c.last_len {
            text.push(' ');
        }
        c.last_len = len.max(c.last_len);
        match &c.file {
            Some(fh) => {
                use std::os::unix::fs::FileExt;
                let _ = fh.write_all_at(text.as_bytes(), 0);
            }
            None => {
                let _ = std::fs::write(c.path.as_ref().unwrap(), text);
            }
        }
        true
    })
}

/// Announce the case about to run (product-style space: a prefix of cases can be skipped when a
/// shard is resumed after a crash). Overwrites the breadcrumb file with the case. Returns false
/// if the case must be skipped. Without a breadcrumb file this is a no-op returning true.
#[inline]
pub fn crumb(f: impl FnOnce() -> String) -> bool {
    crumb_impl(false, f)
}

/// Same for a transition of a state-space search: earlier transitions must be re-executed when
/// resuming, only the crashing ones (listed by number) are skipped.
#[inline]
pub fn crumb_bfs(f: impl FnOnce() -> String) -> bool {
    crumb_impl(true, f)
}

pub fn crumb_count() -> u64 {
    CRUMBS.with(|c| c.borrow().counter)
}

/// Run context handed to every checker.
pub struct Ctx {
    pub tier: Tier,
    pub shard: usize,
    pub nshards: usize,
    pub seed: u64,
    pub deadline: Instant,
    pub breadcrumb: Option<std::path::PathBuf>,
    pub capped: bool,
    crumb_counter: u64,
    /// Restrict to one named sub-space (used by monitors such as ASan/valgrind runs).
    pub only: Option<String>,
    /// Free-form profile name of the binary ("rel", "chk", "asan").
    pub profile: String,
}

impl Ctx {
    pub fn new(tier: Tier, shard: usize, nshards: usize, seed: u64, wall: Duration) -> Self {
        Self {
            tier,
            shard,
            nshards,
            seed,
            deadline: Instant::now() + wall,
            breadcrumb: None,
            capped: false,
            crumb_counter: 0,
            only: None,
            profile: "rel".into(),
        }
    }

    pub fn quick(&self) -> bool {
        self.tier == Tier::Quick
    }

    /// True if this global index belongs to this shard.
    #[inline]
    pub fn mine(&self, index: u64) -> bool {
        (index % self.nshards as u64) == self.shard as u64
    }

    /// True (and remembers it) once the wall-clock cap is exceeded.
    #[inline]
    pub fn out_of_time(&mut self) -> bool {
        if self.capped {
            return true;
        }
        if Instant::now() > self.deadline {
            self.capped = true;
        }
        self.capped
    }

    /// Is sub-space `name` selected?
    pub fn wants(&self, name: &str) -> bool {
        match &self.only {
            None => true,
            Some(o) => o.split(',').any(|x| x == name),
        }
    }

    /// Overwrite the breadcrumb file with the id of the case about to run, so
    /// that a hard crash (SIGSEGV, sanitizer abort) can be attributed.
    #[inline]
    pub fn crumb(&mut self, f: impl FnOnce() -> String) {
        if self.breadcrumb.is_some() {
            self.crumb_counter += 1;
            // same file and format as `util::crumb` (the monitored driver parses it); a free-text crumb cannot be
            // replayed, it only says where a crash happened
            let _ = crumb(|| serde_json::json!({"module": "-", "case": {"note": f()}}).to_string());
        }
    }
}
