//! Shard report: counters, samples, violations; serialised as JSON for the driver.

use std::collections::{BTreeMap, HashSet};

use serde_json::{json, Value};

#[derive(Clone, Copy, Debug, PartialEq, Eq)]
pub enum Tier {
    Quick,
    Thorough,
}

impl Tier {
    pub fn name(&self) -> &'static str {
        match self {
            Tier::Quick => "quick",
            Tier::Thorough => "thorough",
        }
    }
}

#[derive(Clone, Debug)]
pub struct Violation {
    /// Stable signature of the failing case *class* (used to match known findings).
    pub sig: String,
    /// Human-readable explanation (observed vs expected).
    pub msg: String,
    /// Explicit, self-contained replayable case.
    pub case: Value,
}

/// Per-space counters.
#[derive(Default, Clone, Debug)]
pub struct SpaceStats {
    pub evaluations: u64,
    pub nontrivial: u64,
    pub states: u64,
    pub transitions: u64,
    pub traces: u64,
    pub outcomes: u64,
    pub max_depth: u64,
}

pub struct Report {
    pub property: String,
    pub spaces: BTreeMap<String, SpaceStats>,
    pub space_desc: BTreeMap<String, String>,
    pub samples: Vec<Value>,
    pub violations: Vec<Violation>,
    pub violation_counts: BTreeMap<String, u64>,
    pub notes: Vec<String>,
    pub not_covered: Vec<String>,
    pub caps: Vec<String>,
    /// problems of the harness itself (environment not fully owned, ...): never a verdict
    pub machinery: Vec<String>,
    distinct: HashSet<u64>,
    outcomes: BTreeMap<String, HashSet<u64>>,
    pub max_samples: usize,
    pub max_violations_per_sig: u64,
    current: String,
}

impl Report {
    pub fn new(property: &str) -> Self {
        Self {
            property: property.to_string(),
            spaces: BTreeMap::new(),
            space_desc: BTreeMap::new(),
            samples: Vec::new(),
            violations: Vec::new(),
            violation_counts: BTreeMap::new(),
            notes: Vec::new(),
            not_covered: Vec::new(),
            caps: Vec::new(),
            machinery: Vec::new(),
            distinct: HashSet::new(),
            outcomes: BTreeMap::new(),
            max_samples: 6,
            max_violations_per_sig: 3,
            current: String::new(),
        }
    }

    /// Start (or resume) a named sub-space; `desc` says what is enumerated in it.
    pub fn space(&mut self, name: &str, desc: &str) {
        self.current = name.to_string();
        self.spaces.entry(name.to_string()).or_default();
        self.space_desc
            .entry(name.to_string())
            .or_insert_with(|| desc.to_string());
    }

    fn cur(&mut self) -> &mut SpaceStats {
        let k = self.current.clone();
        self.spaces.entry(k).or_default()
    }

    /// One case evaluated. `nontrivial_key` is `Some(hash)` when the case is
    /// non-trivial by the space's rule; distinctness is by that hash.
    #[inline]
    pub fn eval(&mut self, nontrivial_key: Option<u64>) {
        self.cur().evaluations += 1;
        if let Some(k) = nontrivial_key {
            if self.distinct.insert(k) {
                self.cur().nontrivial += 1;
            }
        }
    }

    /// Bulk version when distinctness is guaranteed by construction (indices
    /// of a product enumeration are distinct cases).
    #[inline]
    pub fn eval_distinct(&mut self, nontrivial: bool) {
        let c = self.cur();
        c.evaluations += 1;
        if nontrivial {
            c.nontrivial += 1;
        }
    }

    #[inline]
    pub fn outcome(&mut self, h: u64) {
        let k = self.current.clone();
        if self.outcomes.entry(k).or_default().insert(h) {
            self.cur().outcomes += 1;
        }
    }

    pub fn add_states(&mut self, states: u64, transitions: u64, traces: u64, depth: u64) {
        let c = self.cur();
        c.states += states;
        c.transitions += transitions;
        c.traces += traces;
        c.max_depth = c.max_depth.max(depth);
    }

    pub fn sample(&mut self, f: impl FnOnce() -> Value) {
        if self.samples.len() < self.max_samples {
            let mut v = f();
            if let Value::Object(m) = &mut v {
                m.insert("space".into(), json!(self.current));
            }
            self.samples.push(v);
        }
    }

    /// Sample, but at most `n` for the current space (keeps samples diverse).
    pub fn sample_space(&mut self, n: usize, f: impl FnOnce() -> Value) {
        let cur = self.current.clone();
        let have = self
            .samples
            .iter()
            .filter(|s| s.get("space").and_then(|x| x.as_str()) == Some(cur.as_str()))
            .count();
        if have < n {
            let mut v = f();
            if let Value::Object(m) = &mut v {
                m.insert("space".into(), json!(cur));
            }
            self.samples.push(v);
        }
    }

    pub fn violation(&mut self, sig: impl Into<String>, msg: impl Into<String>, case: impl FnOnce() -> Value) {
        let sig = sig.into();
        let n = self.violation_counts.entry(sig.clone()).or_insert(0);
        *n += 1;
        if *n <= self.max_violations_per_sig {
            let mut case = case();
            if let Value::Object(m) = &mut case {
                m.insert("property".into(), json!(self.property));
                m.insert("space".into(), json!(self.current));
            }
            self.violations.push(Violation {
                sig,
                msg: msg.into(),
                case,
            });
        }
    }

    pub fn note(&mut self, s: impl Into<String>) {
        let s = s.into();
        if !self.notes.contains(&s) {
            self.notes.push(s);
        }
    }

    pub fn not_covered(&mut self, s: impl Into<String>) {
        let s = s.into();
        if !self.not_covered.contains(&s) {
            self.not_covered.push(s);
        }
    }

    pub fn cap(&mut self, s: impl Into<String>) {
        let s = s.into();
        if !self.caps.contains(&s) {
            self.caps.push(s);
        }
    }

    pub fn machinery(&mut self, s: impl Into<String>) {
        let s = s.into();
        if !self.machinery.contains(&s) && self.machinery.len() < 50 {
            self.machinery.push(s);
        }
    }

    pub fn to_json(&self, capped: bool) -> Value {
        let spaces: serde_json::Map<String, Value> = self
            .spaces
            .iter()
            .map(|(k, s)| {
                (
                    k.clone(),
                    json!({
                        "desc": self.space_desc.get(k).cloned().unwrap_or_default(),
                        "evaluations": s.evaluations,
                        "nontrivial": s.nontrivial,
                        "states": s.states,
                        "transitions": s.transitions,
                        "traces": s.traces,
                        "outcomes": s.outcomes,
                        "max_depth": s.max_depth,
                    }),
                )
            })
            .collect();
        json!({
            "property": self.property,
            "spaces": spaces,
            "samples": self.samples,
            "violations": self.violations.iter().map(|v| json!({"sig": v.sig, "msg": v.msg, "case": v.case})).collect::<Vec<_>>(),
            "violation_counts": self.violation_counts,
            "notes": self.notes,
            "not_covered": self.not_covered,
            "caps": self.caps,
            "machinery": self.machinery,
            "capped": capped,
        })
    }
}
