//! Shared command line of every harness binary.
//!
//!   <bin> <PROP> --tier quick|thorough --shard i/n --out report.json
//!         [--seed N] [--wall SECS] [--only space[,space]] [--breadcrumb FILE]
//!         [--profile NAME] [--replay case.json]

use std::time::Duration;

use serde_json::Value;

use crate::{Ctx, Report, Tier};

fn usage() -> ! {
    eprintln!("usage: <bin> <PROP> --tier quick|thorough --shard i/n --out FILE [--seed N] [--wall SECS] [--only S] [--breadcrumb F] [--profile P] [--replay FILE]");
    std::process::exit(2);
}

/// Parse the arguments, run `dispatch` (or `replay` when `--replay` is given) and write the report.
/// Both callbacks return `false` for an unknown property id.
pub fn main(
    dispatch: impl FnOnce(&str, &mut Ctx, &mut Report) -> bool,
    replay: impl FnOnce(&str, &mut Ctx, &mut Report, &Value) -> bool,
) {
    let args: Vec<String> = std::env::args().collect();
    if args.len() < 2 {
        usage();
    }
    let prop = args[1].clone();
    let mut tier = Tier::Quick;
    let mut shard = (0usize, 1usize);
    let mut out: Option<String> = None;
    let mut seed = 0u64;
    let mut wall = 3600u64;
    let mut only = None;
    let mut breadcrumb = None;
    let mut profile = "rel".to_string();
    let mut replay_path: Option<String> = None;
    let mut resume_after = 0u64;
    let mut skip: Vec<u64> = Vec::new();
    let mut i = 2;
    while i < args.len() {
        let a = args[i].as_str();
        let mut val = || {
            i += 1;
            args.get(i).cloned().unwrap_or_else(|| usage())
        };
        match a {
            "--tier" => {
                tier = match val().as_str() {
                    "quick" => Tier::Quick,
                    "thorough" => Tier::Thorough,
                    _ => usage(),
                }
            }
            "--shard" => {
                let v = val();
                let (a, b) = v.split_once('/').unwrap_or_else(|| usage());
                shard = (a.parse().unwrap(), b.parse().unwrap());
            }
            "--out" => out = Some(val()),
            "--seed" => seed = val().parse().unwrap_or(0),
            "--wall" => wall = val().parse().unwrap(),
            "--only" => only = Some(val()),
            "--breadcrumb" => breadcrumb = Some(std::path::PathBuf::from(val())),
            "--profile" => profile = val(),
            "--replay" => replay_path = Some(val()),
            "--resume-after" => resume_after = val().parse().unwrap(),
            "--skip" => skip = val().split(',').filter(|x| !x.is_empty()).map(|x| x.parse().unwrap()).collect(),
            _ => usage(),
        }
        i += 1;
    }

    crate::util::install_panic_hook();
    let mut ctx = Ctx::new(tier, shard.0, shard.1, seed, Duration::from_secs(wall));
    ctx.only = only;
    crate::util::crumb_setup(breadcrumb.clone(), resume_after, skip);
    ctx.breadcrumb = breadcrumb;
    ctx.profile = profile;
    let mut rep = Report::new(&prop);

    let known = if let Some(path) = replay_path {
        let text = std::fs::read_to_string(&path).expect("cannot read replay file");
        let v: Value = serde_json::from_str(&text).expect("replay file is not JSON");
        let case = v.get("case").cloned().unwrap_or(v);
        replay(&prop, &mut ctx, &mut rep, &case)
    } else {
        dispatch(&prop, &mut ctx, &mut rep)
    };
    if !known {
        eprintln!("unknown property {}", prop);
        std::process::exit(2);
    }

    let js = rep.to_json(ctx.capped);
    let text = serde_json::to_string(&js).unwrap();
    match out {
        Some(p) => std::fs::write(p, text).expect("cannot write report"),
        None => println!("{}", text),
    }
}
