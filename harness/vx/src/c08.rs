//! C08 — 8-bit discretised scores never under-estimate the real score (DESIGN §C08).

use lightmotif::abc::{Alphabet, Dna, Protein};
use lightmotif::num::{PositiveLength, U16, U32};
use lightmotif::pli::dispatch::Dispatch;
use lightmotif::pli::platform::{Avx2, Generic, Sse2};
use lightmotif::pli::{Maximum, Pipeline, Score, Stripe, Threshold};
use lightmotif::pwm::{DiscreteMatrix, ScoringMatrix};
use lightmotif::scores::StripedScores;
use lightmotif::seq::StripedSequence;
use lightmotif::verif::Forced;
use serde_json::{json, Value};
use vx_core::{catch, Ctx, Report};

use crate::cfgs::{self, with_arm};
use crate::model;

#[derive(Clone, Copy, Debug, PartialEq, Eq)]
pub enum K8 {
    GenU16,
    GenU32,
    SseU16,
    SseU32,
    AvxU32,
    Arm(Forced),
    Scalar,
    /// block-wise through score_rows_into on a reused buffer
    GenRanges,
    AvxRanges,
    ArmRanges(Forced),
}

impl K8 {
    fn name(&self) -> String {
        match self {
            K8::GenU16 => "generic/U16".into(),
            K8::GenU32 => "generic/U32".into(),
            K8::SseU16 => "sse2/U16".into(),
            K8::SseU32 => "sse2/U32".into(),
            K8::AvxU32 => "avx2/U32".into(),
            K8::Arm(a) => format!("dispatch[{}]/U32", cfgs::arm_name(*a)),
            K8::Scalar => "DiscreteMatrix::score_position".into(),
            K8::GenRanges => "generic/U32 row blocks".into(),
            K8::AvxRanges => "avx2/U32 row blocks".into(),
            K8::ArmRanges(a) => format!("dispatch[{}]/U32 row blocks", cfgs::arm_name(*a)),
        }
    }
    pub fn all_dna() -> Vec<K8> {
        let mut v = vec![K8::GenU32, K8::GenU16, K8::SseU16, K8::SseU32, K8::AvxU32];
        for a in cfgs::FORCED {
            v.push(K8::Arm(a));
        }
        v.push(K8::Scalar);
        v.push(K8::GenRanges);
        v.push(K8::AvxRanges);
        for a in cfgs::FORCED {
            v.push(K8::ArmRanges(a));
        }
        v
    }
    fn all_protein() -> Vec<K8> {
        vec![K8::GenU32, K8::GenU16, K8::SseU16, K8::SseU32, K8::Scalar]
    }
    fn from_name(s: &str) -> Option<K8> {
        K8::all_dna().into_iter().find(|k| k.name() == s)
    }
}

thread_local! {
    /// look-ahead rows the sequence object was configured with BEFORE being configured for the motif of the case
    /// (a sequence scanned with a shorter motif first and re-used)
    static PRE_WRAP: std::cell::Cell<Option<usize>> = std::cell::Cell::new(None);
    /// spare sequence rows (see Case::spare); only the full-matrix and row-block scoring routes honour it
    static SPARE: std::cell::Cell<usize> = std::cell::Cell::new(0);
}

fn conf<A: Alphabet, C: PositiveLength>(striped: &mut StripedSequence<A, C>, pssm: &ScoringMatrix<A>) {
    if let Some(w) = PRE_WRAP.with(|x| x.get()) {
        striped.configure_wrap(w);
    }
    striped.configure(pssm);
}

fn u8_scores<A, C, PS>(ps: &PS, syms: &[A::Symbol], pssm: &ScoringMatrix<A>, dm: &DiscreteMatrix<A>) -> Vec<u8>
where
    A: Alphabet,
    C: PositiveLength,
    PS: Score<u8, A, C>,
{
    let mut striped: StripedSequence<A, C> = cfgs::respread(Pipeline::<A, Generic>::generic().stripe(syms), syms, SPARE.with(|x| x.get()));
    conf(&mut striped, pssm);
    let mut scores = StripedScores::<u8, C>::empty();
    ps.score_into(dm, &striped, &mut scores);
    scores.unstripe().to_vec()
}

/// Same positions, but computed block by block through `score_rows_into` on ONE reused buffer
/// (rows 0..1, 1..a, a..R with a = ceil(R/2)): what the scanner does with its blocks.
fn u8_scores_ranges<A, C, PS>(ps: &PS, syms: &[A::Symbol], pssm: &ScoringMatrix<A>, dm: &DiscreteMatrix<A>) -> Vec<u8>
where
    A: Alphabet,
    C: PositiveLength,
    PS: Score<u8, A, C>,
{
    let mut striped: StripedSequence<A, C> = cfgs::respread(Pipeline::<A, Generic>::generic().stripe(syms), syms, SPARE.with(|x| x.get()));
    conf(&mut striped, pssm);
    let r = striped.matrix().rows() - striped.wrap();
    let l = syms.len();
    let m = pssm.len();
    let valid = if l >= m { l - m + 1 } else { 0 };
    let mut out = vec![0u8; valid];
    let mut scores = StripedScores::<u8, C>::empty();
    let a = (r + 1) / 2;
    // larger block first, then smaller ones: the buffer shrinks and grows
    for (lo, hi) in [(a, r), (0usize, 1usize.min(r)), (1usize.min(r), a.max(1usize.min(r)))] {
        if lo >= hi {
            continue;
        }
        ps.score_rows_into(dm, &striped, lo..hi, &mut scores);
        assert_eq!(scores.matrix().rows(), hi - lo, "score_rows_into({}..{}) produced {} rows", lo, hi, scores.matrix().rows());
        for row in lo..hi {
            for col in 0..C::USIZE {
                let p = col * r + row;
                if p < valid {
                    out[p] = scores.matrix()[row - lo][col];
                }
            }
        }
    }
    out
}

fn scalar_scores<A: Alphabet>(syms: &[A::Symbol], pssm: &ScoringMatrix<A>, dm: &DiscreteMatrix<A>) -> Vec<u8> {
    let mut striped: StripedSequence<A, U32> = Pipeline::<A, Generic>::generic().stripe(syms);
    conf(&mut striped, pssm);
    let valid = if syms.len() >= pssm.len() { syms.len() - pssm.len() + 1 } else { 0 };
    (0..valid).map(|p| dm.score_position(&striped, p)).collect()
}

fn run_kernel_dna(k: K8, syms: &[<Dna as Alphabet>::Symbol], pssm: &ScoringMatrix<Dna>, dm: &DiscreteMatrix<Dna>) -> Vec<u8> {
    let g = Pipeline::<Dna, Generic>::generic();
    match k {
        K8::GenU16 => u8_scores::<Dna, U16, _>(&g, syms, pssm, dm),
        K8::GenU32 => u8_scores::<Dna, U32, _>(&g, syms, pssm, dm),
        K8::SseU16 => u8_scores::<Dna, U16, _>(&Pipeline::<Dna, Sse2>::sse2().unwrap(), syms, pssm, dm),
        K8::SseU32 => u8_scores::<Dna, U32, _>(&Pipeline::<Dna, Sse2>::sse2().unwrap(), syms, pssm, dm),
        K8::AvxU32 => u8_scores::<Dna, U32, _>(&Pipeline::<Dna, Avx2>::avx2().unwrap(), syms, pssm, dm),
        K8::Arm(a) => with_arm(a, || u8_scores::<Dna, U32, _>(&Pipeline::<Dna, Dispatch>::dispatch(), syms, pssm, dm)),
        K8::Scalar => scalar_scores::<Dna>(syms, pssm, dm),
        K8::GenRanges => u8_scores_ranges::<Dna, U32, _>(&g, syms, pssm, dm),
        K8::AvxRanges => u8_scores_ranges::<Dna, U32, _>(&Pipeline::<Dna, Avx2>::avx2().unwrap(), syms, pssm, dm),
        K8::ArmRanges(a) => with_arm(a, || u8_scores_ranges::<Dna, U32, _>(&Pipeline::<Dna, Dispatch>::dispatch(), syms, pssm, dm)),
    }
}

fn run_kernel_protein(k: K8, syms: &[<Protein as Alphabet>::Symbol], pssm: &ScoringMatrix<Protein>, dm: &DiscreteMatrix<Protein>) -> Vec<u8> {
    let g = Pipeline::<Protein, Generic>::generic();
    match k {
        K8::GenU16 => u8_scores::<Protein, U16, _>(&g, syms, pssm, dm),
        K8::GenU32 => u8_scores::<Protein, U32, _>(&g, syms, pssm, dm),
        K8::SseU16 => u8_scores::<Protein, U16, _>(&Pipeline::<Protein, Sse2>::sse2().unwrap(), syms, pssm, dm),
        K8::SseU32 => u8_scores::<Protein, U32, _>(&Pipeline::<Protein, Sse2>::sse2().unwrap(), syms, pssm, dm),
        K8::Scalar => scalar_scores::<Protein>(syms, pssm, dm),
        _ => unreachable!(),
    }
}

#[derive(Clone, Debug)]
pub struct Case {
    pub alpha: &'static str,
    pub matrix: Vec<Vec<f32>>,
    pub seq: Vec<u8>,
    pub origin: String,
    /// see PRE_WRAP
    pub pre_wrap: Option<usize>,
    /// spare sequence rows of a hand-built striped sequence (StripedSequence::new accepts any matrix large enough
    /// for the length); 0 = as striped by the library
    pub spare: usize,
}

impl Case {
    pub fn json(&self, k: Option<K8>) -> Value {
        let letters = if self.alpha == "dna" { model::DNA_LETTERS } else { model::PROTEIN_LETTERS };
        json!({
            "alphabet": self.alpha,
            "origin": self.origin,
            "matrix": model::matrix_to_json(&self.matrix),
            "seq_ranks": self.seq,
            "seq_text": model::ranks_to_text(letters, &self.seq[..self.seq.len().min(300)]),
            "kernel": k.map(|k| k.name()),
            "pre_wrap": self.pre_wrap,
            "spare_rows": self.spare,
        })
    }
    fn from_json(v: &Value) -> Case {
        Case {
            alpha: if v["alphabet"].as_str().unwrap() == "dna" { "dna" } else { "protein" },
            matrix: model::matrix_from_json(&v["matrix"]),
            seq: model::ranks_from_json(&v["seq_ranks"]),
            origin: v["origin"].as_str().unwrap_or("").into(),
            pre_wrap: v["pre_wrap"].as_u64().map(|x| x as usize),
            spare: v["spare_rows"].as_u64().unwrap_or(0) as usize,
        }
    }
}

/// Check one case under the given kernels. Returns (evaluations, nontrivial, failures).
pub fn check_case(case: &Case, kernels: &[K8]) -> (u64, bool, Vec<(String, String, Option<K8>)>) {
    PRE_WRAP.with(|x| x.set(case.pre_wrap));
    SPARE.with(|x| x.set(case.spare));
    let r = check_case_inner(case, kernels);
    PRE_WRAP.with(|x| x.set(None));
    SPARE.with(|x| x.set(0));
    r
}

fn check_case_inner(case: &Case, kernels: &[K8]) -> (u64, bool, Vec<(String, String, Option<K8>)>) {
    let mut fails = Vec::new();
    let m = case.matrix.len();
    let l = case.seq.len();
    if l < m {
        return (0, false, fails);
    }
    let valid = l - m + 1;
    // the library's own discretisation and its own score-to-byte mapping
    let prep = catch(|| {
        if case.alpha == "dna" {
            let pssm = model::scoring::<Dna>(&case.matrix);
            let dm = pssm.to_discrete();
            let real: Vec<f32> = (0..valid).map(|i| model::ref_score_f32(&case.matrix, &case.seq, i)).collect();
            let img: Vec<u8> = real.iter().map(|&s| dm.scale(s)).collect();
            (real, img)
        } else {
            let pssm = model::scoring::<Protein>(&case.matrix);
            let dm = pssm.to_discrete();
            let real: Vec<f32> = (0..valid).map(|i| model::ref_score_f32(&case.matrix, &case.seq, i)).collect();
            let img: Vec<u8> = real.iter().map(|&s| dm.scale(s)).collect();
            (real, img)
        }
    });
    let (real, img) = match prep {
        Ok(x) => x,
        Err(p) => {
            fails.push((format!("to_discrete panic {}", vx_core::util::panic_class(&p)), format!("panic: {}", p), None));
            return (1, true, fails);
        }
    };
    // is the overflow regime reached? (sum of row-maximal discretised cells > 255)
    let mut evals = 0u64;
    for &k in kernels {
        evals += 1;
        let got = catch(|| {
            if case.alpha == "dna" {
                let pssm = model::scoring::<Dna>(&case.matrix);
                let dm = pssm.to_discrete();
                run_kernel_dna(k, &model::to_symbols::<Dna>(&case.seq), &pssm, &dm)
            } else {
                let pssm = model::scoring::<Protein>(&case.matrix);
                let dm = pssm.to_discrete();
                run_kernel_protein(k, &model::to_symbols::<Protein>(&case.seq), &pssm, &dm)
            }
        });
        let got = match got {
            Ok(g) => g,
            Err(p) => {
                fails.push((format!("panic {}", vx_core::util::panic_class(&p)), format!("panic: {}", p), Some(k)));
                continue;
            }
        };
        if got.len() != valid {
            fails.push(("length".into(), format!("{} 8-bit scores for {} valid positions", got.len(), valid), Some(k)));
            continue;
        }
        // clause 1: u8 score >= image of the real score
        if let Some(i) = (0..valid).find(|&i| got[i] < img[i]) {
            let w: Vec<u8> = case.seq[i..i + m].to_vec();
            fails.push((
                "under-estimate".into(),
                format!("position {} (window ranks {:?}): 8-bit score {} < image {} of the real score {}", i, w, got[i], img[i], real[i]),
                Some(k),
            ));
            continue;
        }
        // clause 2: for every attainable threshold t, real >= t  =>  u8 >= scale(t)
        let mut order: Vec<usize> = (0..valid).filter(|&i| real[i].is_finite()).collect();
        order.sort_by(|&a, &b| real[b].partial_cmp(&real[a]).unwrap());
        let mut running_min = u8::MAX;
        let mut j = 0;
        while j < order.len() {
            // group of equal real score
            let t = real[order[j]];
            let mut e = j;
            while e < order.len() && real[order[e]] == t {
                running_min = running_min.min(got[order[e]]);
                e += 1;
            }
            let bt = img[order[j]];
            if running_min < bt {
                fails.push((
                    "lost hit".into(),
                    format!("threshold {} maps to byte {} but a position scoring >= it has 8-bit score {}", t, bt, running_min),
                    Some(k),
                ));
                break;
            }
            j = e;
        }
    }
    let nontrivial = real.iter().any(|x| x.is_finite());
    (evals, nontrivial, fails)
}

// ---------------------------------------------------------------------------
// clause 3: the pre-filter as the scanner applies it (block maximum, candidate selection)
// ---------------------------------------------------------------------------

/// For every row block {all rows, 0..1, 1..a, a..R}: score the block into a reused u8 buffer with pipeline `pl`,
/// then (i) `pl.max` of the block must reach the largest byte image of a real score in the block, and
/// (ii) for every attainable threshold t, `pl.threshold(block, scale(t))` must contain every position of
/// the block whose real score is >= t.  Returns the first discrepancy.
fn prefilter_one<PS>(pl: &PS, case: &Case, real: &[f32], img: &[u8]) -> Option<(String, String)>
where
    PS: Score<u8, Dna, U32> + Maximum<u8, U32> + Threshold<u8, U32>,
{
    let pssm = model::scoring::<Dna>(&case.matrix);
    let dm = pssm.to_discrete();
    let syms = model::to_symbols::<Dna>(&case.seq);
    let mut striped: StripedSequence<Dna, U32> = Pipeline::<Dna, Generic>::generic().stripe(&syms);
    conf(&mut striped, &pssm);
    let r = striped.matrix().rows() - striped.wrap();
    let valid = real.len();
    let a = (r + 1) / 2;
    let mut scores = StripedScores::<u8, U32>::empty();
    // distinct attainable thresholds (at most 16, evenly ranked, extremes included)
    let mut ts: Vec<f32> = real.iter().cloned().filter(|x| x.is_finite()).collect();
    ts.sort_by(|x, y| x.partial_cmp(y).unwrap());
    ts.dedup();
    if ts.len() > 16 {
        let n = ts.len();
        ts = (0..16).map(|i| ts[i * (n - 1) / 15]).collect();
        ts.dedup();
    }
    for (lo, hi) in [(0usize, r), (a, r), (0usize, 1usize.min(r)), (1usize.min(r), a.max(1usize.min(r)))] {
        if lo >= hi {
            continue;
        }
        pl.score_rows_into(&dm, &striped, lo..hi, &mut scores);
        let in_block: Vec<usize> = (0..valid).filter(|&p| p % r >= lo && p % r < hi).collect();
        if in_block.is_empty() {
            continue;
        }
        let need = in_block.iter().map(|&p| if real[p].is_finite() { img[p] } else { 0 }).max().unwrap();
        let mx = pl.max(&scores);
        if mx.map_or(true, |m| m < need) {
            return Some((
                "block maximum below the image of a real score".into(),
                format!("rows {}..{} of {}: max() = {:?} but a position of the block has a real score whose byte image is {}", lo, hi, r, mx, need),
            ));
        }
        for &t in &ts {
            let t8 = dm.scale(t);
            let mut selected = vec![false; (hi - lo) * 32];
            for c in pl.threshold(&scores, t8) {
                if c.row < hi - lo && c.col < 32 {
                    selected[c.row * 32 + c.col] = true;
                }
            }
            for &p in &in_block {
                if real[p] >= t && !selected[(p % r - lo) * 32 + p / r] {
                    return Some((
                        "pre-filter loses a hit".into(),
                        format!(
                            "rows {}..{} of {}: position {} scores {} >= threshold {} (byte threshold {}) but threshold() on the block's 8-bit scores does not select it (its 8-bit score is {})",
                            lo, hi, r, p, real[p], t, t8, scores.matrix()[p % r - lo][p / r]
                        ),
                    ));
                }
            }
        }
    }
    None
}

#[derive(Clone, Copy, Debug, PartialEq)]
pub enum PF {
    Gen,
    Sse,
    Avx,
    Arm(Forced),
}

impl PF {
    fn name(&self) -> String {
        match self {
            PF::Gen => "generic/U32 pre-filter".into(),
            PF::Sse => "sse2/U32 pre-filter".into(),
            PF::Avx => "avx2/U32 pre-filter".into(),
            PF::Arm(a) => format!("dispatch[{}]/U32 pre-filter", cfgs::arm_name(*a)),
        }
    }
    fn all() -> Vec<PF> {
        let mut v = vec![PF::Gen, PF::Sse, PF::Avx];
        for a in cfgs::FORCED {
            v.push(PF::Arm(a));
        }
        v
    }
}

/// Clause 3 on one DNA case, every pipeline. Returns (evaluations, failures as (signature, message, pipeline name)).
pub fn check_prefilter(case: &Case) -> (u64, Vec<(String, String, String)>) {
    let mut fails = Vec::new();
    let m = case.matrix.len();
    let l = case.seq.len();
    if l < m || case.alpha != "dna" {
        return (0, fails);
    }
    let valid = l - m + 1;
    let prep = catch(|| {
        let pssm = model::scoring::<Dna>(&case.matrix);
        let dm = pssm.to_discrete();
        let real: Vec<f32> = (0..valid).map(|i| model::ref_score_f32(&case.matrix, &case.seq, i)).collect();
        let img: Vec<u8> = real.iter().map(|&s| dm.scale(s)).collect();
        (real, img)
    });
    let (real, img) = match prep {
        Ok(x) => x,
        Err(_) => return (0, fails), // reported by clause 1
    };
    let mut evals = 0;
    for pf in PF::all() {
        evals += 1;
        let r = catch(|| match pf {
            PF::Gen => prefilter_one(&Pipeline::<Dna, Generic>::generic(), case, &real, &img),
            PF::Sse => prefilter_one(&Pipeline::<Dna, Sse2>::sse2().unwrap(), case, &real, &img),
            PF::Avx => prefilter_one(&Pipeline::<Dna, Avx2>::avx2().unwrap(), case, &real, &img),
            PF::Arm(a) => with_arm(a, || prefilter_one(&Pipeline::<Dna, Dispatch>::dispatch(), case, &real, &img)),
        });
        match r {
            Err(p) => fails.push((format!("panic {}", vx_core::util::panic_class(&p)), format!("panic: {}", p), pf.name())),
            Ok(Some((sig, msg))) => fails.push((sig, msg, pf.name())),
            Ok(None) => {}
        }
    }
    // the pre-filter inside the real Scanner (block maximum test + candidate selection + exact re-scoring): never loses a hit
    for arm in cfgs::FORCED {
        evals += 1;
        let r = catch(|| with_arm(arm, || scanner_loses(case, &real)));
        let name = format!("scanner[{}] pre-filter", cfgs::arm_name(arm));
        match r {
            Err(p) => fails.push((format!("panic {}", vx_core::util::panic_class(&p)), format!("panic: {}", p), name)),
            Ok(Some((sig, msg))) => fails.push((sig, msg, name)),
            Ok(None) => {}
        }
    }
    (evals, fails)
}

/// Scanner runs at thresholds {lowest, median, highest finite real score} x block sizes {1, 256}: every position whose
/// real score (row-order f32 sum) is finite and >= t must be yielded.
fn scanner_loses(case: &Case, real: &[f32]) -> Option<(String, String)> {
    let pssm = model::scoring::<Dna>(&case.matrix);
    let syms = model::to_symbols::<Dna>(&case.seq);
    let mut striped: StripedSequence<Dna, U32> = Pipeline::<Dna, Dispatch>::dispatch().stripe(&syms);
    conf(&mut striped, &pssm);
    let mut fin: Vec<f32> = real.iter().cloned().filter(|x| x.is_finite()).collect();
    if fin.is_empty() {
        return None;
    }
    fin.sort_by(|a, b| a.partial_cmp(b).unwrap());
    let mut ts = vec![fin[0], fin[fin.len() / 2], fin[fin.len() - 1]];
    ts.dedup();
    for &t in &ts {
        for block in [1usize, 256] {
            let mut sc = lightmotif::scan::Scanner::new(&pssm, &striped);
            sc.threshold(t);
            sc.block_size(block);
            let mut seen = vec![false; real.len()];
            for _ in 0..real.len() + 3 {
                match sc.next() {
                    Some(h) => {
                        if h.position() < seen.len() {
                            seen[h.position()] = true;
                        }
                    }
                    None => break,
                }
            }
            if let Some(i) = (0..real.len()).find(|&i| real[i].is_finite() && real[i] >= t && !seen[i]) {
                return Some((
                    "scanner loses a hit".into(),
                    format!("threshold {} (byte threshold {}), block size {}: position {} scores {} but the scanner does not yield it", t, pssm.to_discrete().scale(t), block, i, real[i]),
                ));
            }
        }
    }
    None
}

/// Run clause 3 (pre-filter) on a DNA case and report.
fn report_prefilter(case: &Case, rep: &mut Report) {
    PRE_WRAP.with(|x| x.set(case.pre_wrap));
    let (e, fails) = check_prefilter(case);
    PRE_WRAP.with(|x| x.set(None));
    for _ in 0..e {
        rep.eval_distinct(true);
    }
    for (sig, msg, name) in fails {
        rep.violation(format!("C08 dna {} {}", name, sig), msg, || {
            let mut j = case.json(None);
            j["kernel"] = json!(name);
            j
        });
    }
}

fn row_menu() -> Vec<[f32; 4]> {
    vec![
        [0.0, 1.0, 0.0, 0.0],
        [0.0, 0.0, 0.0, 0.0],
        [-1.5, 2.25, 0.5, -0.25],
        [3.0, -3.0, 1.0, -1.0],
        [0.1, 0.2, 0.3, 0.4],
        [-7.0, -6.5, 10.0, 2.0],
        [1.0e-3, 0.0, -1.0e-3, 5.0e-4],
        // a large common offset (2^20) over a small range: scaling before subtracting the row offset cancels catastrophically
        [1048576.0, 1048576.5, 1048577.0, 1048578.0],
    ]
}

fn wildcard_value(kind: usize, row: &[f32]) -> f32 {
    let mn = row.iter().cloned().fold(f32::INFINITY, f32::min);
    let mean = row.iter().sum::<f32>() / row.len() as f32;
    match kind {
        0 => f32::NEG_INFINITY,
        1 => mn - 1.0,
        2 => mean,
        // above every entry of the row: the 8-bit scale ignores the wildcard column, windows with several
        // wildcards exceed the headroom and must saturate, not wrap
        _ => {
            let mx = row.iter().cloned().fold(f32::NEG_INFINITY, f32::max);
            mx + 0.25 * (mx - mn) + 0.125
        }
    }
}

pub fn wide_matrix(m: usize, flavour: usize) -> Vec<Vec<f32>> {
    // cells chosen so that the per-row maxima are not multiples of the byte step:
    // the sum of rounded-up cells exceeds 255 by up to M-1
    (0..m)
        .map(|j| {
            let a = match flavour {
                0 => 1.0 + (j % 3) as f32 * 0.37,
                1 => 0.9 + ((j * 7) % 5) as f32 * 0.013,
                _ => 2.0_f32.powi((j % 4) as i32) * 0.61,
            };
            vec![0.0, a, a * 0.31, -a * 0.5, f32::NEG_INFINITY]
        })
        .collect()
}

pub fn wide_sequence(matrix: &[Vec<f32>]) -> Vec<u8> {
    let m = matrix.len();
    let best: Vec<u8> = matrix
        .iter()
        .map(|r| (0..4).max_by(|&a, &b| r[a].partial_cmp(&r[b]).unwrap()).unwrap() as u8)
        .collect();
    let worst: Vec<u8> = matrix
        .iter()
        .map(|r| (0..4).min_by(|&a, &b| r[a].partial_cmp(&r[b]).unwrap()).unwrap() as u8)
        .collect();
    let mut seq = Vec::new();
    seq.extend(&best);
    seq.extend(&worst);
    seq.extend(&best);
    // every single-substitution neighbour of the consensus (3 alternatives per offset incl. wildcard)
    for j in 0..m {
        for s in 0..5u8 {
            if s != best[j] {
                let mut w = best.clone();
                w[j] = s;
                seq.extend(&w);
            }
        }
    }
    seq.extend(&best);
    seq
}

pub fn run(ctx: &mut Ctx, rep: &mut Report) {
    let mut base = 0u64;
    let rows = row_menu();
    let kd = K8::all_dna();
    if ctx.wants("menu") {
        rep.space(
            "menu",
            "product: all 8^M DNA matrices built from an 8-row menu (incl. rows whose byte image is x.5, so that already M=2 pushes the consensus sum past 255, and a row with a 2^20 common offset), M in 1..=4 (thorough 1..=5), \
             x wildcard column {-inf, row minimum - 1, row mean, above the row maximum} x 14 kernels {generic U16/U32, sse2 U16/U32, avx2 saturating, dispatcher arms, scalar DiscreteMatrix::score_position; generic / avx2 / dispatcher arms block by block through score_rows_into on a reused buffer} \
             on a de Bruijn word containing EVERY 5^M window (wildcard included; for M >= 3 and the first two wildcard kinds also on the same sequence object configured for a 2-column motif first, i.e. look-ahead rows added in two steps; for the -inf wildcard kind also configured for a motif 4 columns longer first, and on hand-built striped sequences with 1 and 3 spare sequence rows (StripedSequence::new)) and on windows of it of length M and M+1 (sequence exactly as long as the motif); oracle: u8 >= scale(real) at every position and, for every attainable threshold, real>=t => u8>=scale(t); the PRE-FILTER as the scanner applies it, for {generic, sse2, avx2, dispatcher arms} on row blocks {all, 0..1, 1..a, a..R} of a reused buffer: Maximum<u8>::max of the block >= the largest byte image in the block, and Threshold<u8>::threshold(block, scale(t)) selects every position with real >= t (<= 16 attainable thresholds); and the real Scanner under each dispatcher arm at thresholds {lowest, median, highest finite real score} x block sizes {1, 256} yields every position with real >= t; \
             evaluations = kernel runs; non-trivial = some window has a finite real score",
        );
        for m in 1..=(if ctx.quick() { 4usize } else { 5 }) {
            let n = (rows.len() as u64).pow(m as u32);
            let seq = model::de_bruijn(5, m);
            for mi in 0..n {
                for wk in 0..4usize {
                    let idx = base;
                    base += 1;
                    if !ctx.mine(idx) {
                        continue;
                    }
                    let digits = model::nth_word(mi, m, rows.len());
                    let matrix: Vec<Vec<f32>> = digits
                        .iter()
                        .map(|&d| {
                            let r = rows[d as usize];
                            let mut v = r.to_vec();
                            v.push(wildcard_value(wk, &r));
                            v
                        })
                        .collect();
                    // ... and on sequences exactly as long as the motif / one symbol longer (the first windows of the word)
                    for extra in 0..2usize {
                        for start in [0usize, 7, 19] {
                            if start + m + extra > seq.len() {
                                continue;
                            }
                            let short = Case { alpha: "dna", matrix: matrix.clone(), seq: seq[start..start + m + extra].to_vec(), origin: format!("menu M={} matrix#{} wildcard-kind={} L=M+{}", m, mi, wk, extra), pre_wrap: None, spare: 0 };
                            let (e, nt, fails) = check_case(&short, &kd);
                            report_prefilter(&short, rep);
                            for _ in 0..e {
                                rep.eval_distinct(nt);
                            }
                            for (sig, msg, k) in fails {
                                rep.violation(format!("C08 dna {} L=M+{} {}", k.map(|k| k.name()).unwrap_or("-".into()), extra, sig), msg, || short.json(k));
                            }
                        }
                    }
                    let case = Case { alpha: "dna", matrix, seq: seq.clone(), origin: format!("menu M={} matrix#{} wildcard-kind={}", m, mi, wk), pre_wrap: None, spare: 0 };
                    let (e, nt, fails) = check_case(&case, &kd);
                    report_prefilter(&case, rep);
                    for _ in 0..e {
                        rep.eval_distinct(nt);
                    }
                    if m == 2 && mi == 0 && wk == 0 {
                        rep.sample_space(1, || case.json(None));
                    }
                    for (sig, msg, k) in fails {
                        rep.violation(format!("C08 dna {} {}", k.map(|k| k.name()).unwrap_or("-".into()), sig), msg, || case.json(k));
                    }
                    // the same sequence object scanned with a LONGER motif before (more look-ahead rows than this motif needs)
                    if wk == 0 {
                        let again = Case { pre_wrap: Some(m + 3), origin: format!("{} configured for {} look-ahead rows first", case.origin, m + 3), ..case.clone() };
                        let (e, nt, fails) = check_case(&again, &kd);
                        report_prefilter(&again, rep);
                        for _ in 0..e {
                            rep.eval_distinct(nt);
                        }
                        for (sig, msg, k) in fails {
                            rep.violation(format!("C08 dna {} over-configured {}", k.map(|k| k.name()).unwrap_or("-".into()), sig), msg, || again.json(k));
                        }
                    }
                    // a hand-built striped sequence with spare sequence rows (seeded change C08-u: score_into deriving the
                    // row count from the length instead of the matrix)
                    if wk == 0 {
                        for spare in [1usize, 3] {
                            let again = Case { spare, origin: format!("{} hand-built with {} spare rows", case.origin, spare), ..case.clone() };
                            let (e, nt, fails) = check_case(&again, &kd);
                            for _ in 0..e {
                                rep.eval_distinct(nt);
                            }
                            for (sig, msg, k) in fails {
                                rep.violation(format!("C08 dna {} spare-rows {}", k.map(|k| k.name()).unwrap_or("-".into()), sig), msg, || again.json(k));
                            }
                        }
                    }
                    // the same sequence object scanned with a SHORTER motif before (look-ahead rows added in two steps)
                    if m >= 3 && wk < 2 {
                        let again = Case { pre_wrap: Some(1), origin: format!("{} reconfigured from 1 look-ahead row", case.origin), ..case.clone() };
                        let (e, nt, fails) = check_case(&again, &kd);
                        report_prefilter(&again, rep);
                        for _ in 0..e {
                            rep.eval_distinct(nt);
                        }
                        for (sig, msg, k) in fails {
                            rep.violation(format!("C08 dna {} reconfigured {}", k.map(|k| k.name()).unwrap_or("-".into()), sig), msg, || again.json(k));
                        }
                    }
                }
            }
            if ctx.out_of_time() {
                rep.cap(format!("menu: wall-clock cap at M={}", m));
                return;
            }
        }
    }
    if ctx.wants("wide") {
        rep.space(
            "wide",
            "wide matrices M in {5,8,16,30,64,255,256,257} (thorough + {12,100,254,300,511,512,513}) x 3 cell flavours whose rounded-up row maxima sum past 255, and log-odds matrices from a count menu (M in {6,15,20}); \
             sequence = consensus, anti-consensus, every single-substitution neighbour of the consensus (wildcard included) concatenated, fresh, re-configured from 2 and M/2 look-ahead rows, configured for M+5 first, and hand-built with 1 and 2 spare sequence rows; same 14 kernels + pre-filter; protein: 5 kernels on M in {3,8,40}",
        );
        // 255/256/257: the number of rows reaches the range of the byte (headroom = 255 - M saturates at 0)
        let mut widths = vec![5usize, 8, 16, 30, 64, 255, 256, 257];
        if !ctx.quick() {
            widths.extend([12, 100, 254, 300, 511, 512, 513]);
        }
        for &m in &widths {
            for fl in 0..3 {
                let idx = base;
                base += 1;
                if !ctx.mine(idx) {
                    continue;
                }
                let matrix = wide_matrix(m, fl);
                let seq = wide_sequence(&matrix);
                let case = Case { alpha: "dna", matrix, seq, origin: format!("wide M={} flavour={}", m, fl), pre_wrap: None, spare: 0 };
                let (e, nt, fails) = check_case(&case, &kd);
                report_prefilter(&case, rep);
                for _ in 0..e {
                    rep.eval_distinct(nt);
                }
                if m == 8 && fl == 0 {
                    rep.sample_space(1, || case.json(None));
                }
                for (sig, msg, k) in fails {
                    rep.violation(format!("C08 dna {} {}", k.map(|k| k.name()).unwrap_or("-".into()), sig), msg, || case.json(k));
                }
                for spare in [1usize, 2] {
                    let again = Case { spare, origin: format!("{} hand-built with {} spare rows", case.origin, spare), ..case.clone() };
                    let (e, nt, fails) = check_case(&again, &kd);
                    for _ in 0..e {
                        rep.eval_distinct(nt);
                    }
                    for (sig, msg, k) in fails {
                        rep.violation(format!("C08 dna {} spare-rows {}", k.map(|k| k.name()).unwrap_or("-".into()), sig), msg, || again.json(k));
                    }
                }
                for pre in [2usize, m / 2, m + 5] {
                    let again = Case { pre_wrap: Some(pre), origin: format!("{} reconfigured from {} look-ahead rows", case.origin, pre), ..case.clone() };
                    let (e, nt, fails) = check_case(&again, &kd);
                    report_prefilter(&again, rep);
                    for _ in 0..e {
                        rep.eval_distinct(nt);
                    }
                    for (sig, msg, k) in fails {
                        rep.violation(format!("C08 dna {} reconfigured {}", k.map(|k| k.name()).unwrap_or("-".into()), sig), msg, || again.json(k));
                    }
                }
            }
        }
        for &m in &[6usize, 15, 20] {
            let idx = base;
            base += 1;
            if !ctx.mine(idx) {
                continue;
            }
            let matrix = crate::c01::make_matrix("logodds", m, 5, 0);
            let seq = wide_sequence(&matrix);
            let case = Case { alpha: "dna", matrix, seq, origin: format!("wide logodds M={}", m), pre_wrap: None, spare: 0 };
            report_prefilter(&case, rep);
            let (e, nt, fails) = check_case(&case, &kd);
            for _ in 0..e {
                rep.eval_distinct(nt);
            }
            for (sig, msg, k) in fails {
                rep.violation(format!("C08 dna {} {}", k.map(|k| k.name()).unwrap_or("-".into()), sig), msg, || case.json(k));
            }
        }
        let kp = K8::all_protein();
        for &m in &[3usize, 8, 40] {
            for kind in ["logodds", "int", "tiny"] {
                let idx = base;
                base += 1;
                if !ctx.mine(idx) {
                    continue;
                }
                let matrix = crate::c01::make_matrix(kind, m, 21, 0);
                let mut seq = model::digit_pattern(400, 21, 0);
                seq.extend(model::digit_pattern_wild(200, 21, 1, 2));
                // consensus word too
                let best: Vec<u8> = matrix.iter().map(|r| (0..20).max_by(|&a, &b| r[a].partial_cmp(&r[b]).unwrap()).unwrap() as u8).collect();
                seq.extend(&best);
                seq.extend(&best);
                let case = Case { alpha: "protein", matrix, seq, origin: format!("wide protein {} M={}", kind, m), pre_wrap: None, spare: 0 };
                let (e, nt, fails) = check_case(&case, &kp);
                for _ in 0..e {
                    rep.eval_distinct(nt);
                }
                for (sig, msg, k) in fails {
                    rep.violation(format!("C08 protein {} {}", k.map(|k| k.name()).unwrap_or("-".into()), sig), msg, || case.json(k));
                }
            }
        }
    }
    rep.not_covered("NEON u8 kernel");
}

pub fn replay(_ctx: &mut Ctx, rep: &mut Report, v: &Value) {
    rep.space("replay", "replay of one recorded case");
    let case = Case::from_json(v);
    if v["kernel"].as_str().map_or(false, |k| k.ends_with("pre-filter")) {
        report_prefilter(&case, rep);
        return;
    }
    let ks: Vec<K8> = match v["kernel"].as_str().and_then(K8::from_name) {
        Some(k) => vec![k],
        None => {
            if case.alpha == "dna" {
                K8::all_dna()
            } else {
                K8::all_protein()
            }
        }
    };
    let (e, nt, fails) = check_case(&case, &ks);
    for _ in 0..e.max(1) {
        rep.eval_distinct(nt);
    }
    for (sig, msg, k) in fails {
        rep.violation(format!("C08 {} {} {}", case.alpha, k.map(|k| k.name()).unwrap_or("-".into()), sig), msg, || case.json(k));
    }
}
