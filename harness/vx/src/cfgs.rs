//! Backend × lane-count × dispatcher-arm configurations (DESIGN §2 preamble).

#![allow(dead_code)]

use lightmotif::abc::{Alphabet, Dna};
use lightmotif::dense::{DenseMatrix, MatrixCoordinates, MatrixElement};
use lightmotif::num::{PositiveLength, U1, U16, U2, U32, U4, U48, U64};
use lightmotif::pli::dispatch::Dispatch;
use lightmotif::pli::platform::{Avx2, Generic, Sse2};
use lightmotif::pli::{Encode, Maximum, Pipeline, Score, Stripe, Threshold};
use lightmotif::pwm::ScoringMatrix;
use lightmotif::scores::StripedScores;
use lightmotif::seq::StripedSequence;
use lightmotif::verif::{force_backend, Forced};

#[derive(Clone, Copy, Debug, PartialEq, Eq, Hash)]
pub enum Cfg {
    GenU1,
    GenU2,
    GenU4,
    GenU16,
    GenU32,
    SseU16,
    SseU32,
    AvxU32,
    DispGen,
    DispSse,
    DispAvx,
    /// wider layouts: any multiple of 16 columns is in contract for the generic and SSE2 pipelines
    GenU64,
    SseU48,
    SseU64,
}

pub const ALL_CFGS: [Cfg; 14] = [
    Cfg::GenU32,
    Cfg::GenU1,
    Cfg::GenU2,
    Cfg::GenU4,
    Cfg::GenU16,
    Cfg::SseU16,
    Cfg::SseU32,
    Cfg::AvxU32,
    Cfg::DispGen,
    Cfg::DispSse,
    Cfg::DispAvx,
    Cfg::GenU64,
    Cfg::SseU48,
    Cfg::SseU64,
];

/// Configurations that work on 32 columns.
pub const U32_CFGS: [Cfg; 6] = [
    Cfg::GenU32,
    Cfg::SseU32,
    Cfg::AvxU32,
    Cfg::DispGen,
    Cfg::DispSse,
    Cfg::DispAvx,
];

pub const ARMS: [Cfg; 3] = [Cfg::DispGen, Cfg::DispSse, Cfg::DispAvx];

impl Cfg {
    pub fn name(&self) -> &'static str {
        match self {
            Cfg::GenU1 => "generic/U1",
            Cfg::GenU2 => "generic/U2",
            Cfg::GenU4 => "generic/U4",
            Cfg::GenU16 => "generic/U16",
            Cfg::GenU32 => "generic/U32",
            Cfg::SseU16 => "sse2/U16",
            Cfg::SseU32 => "sse2/U32",
            Cfg::AvxU32 => "avx2/U32",
            Cfg::DispGen => "dispatch[generic]/U32",
            Cfg::DispSse => "dispatch[sse2]/U32",
            Cfg::DispAvx => "dispatch[avx2]/U32",
            Cfg::GenU64 => "generic/U64",
            Cfg::SseU48 => "sse2/U48",
            Cfg::SseU64 => "sse2/U64",
        }
    }

    pub fn from_name(s: &str) -> Option<Cfg> {
        ALL_CFGS.iter().cloned().find(|c| c.name() == s)
    }

    pub fn lanes(&self) -> usize {
        match self {
            Cfg::GenU1 => 1,
            Cfg::GenU2 => 2,
            Cfg::GenU4 => 4,
            Cfg::GenU16 | Cfg::SseU16 => 16,
            Cfg::SseU48 => 48,
            Cfg::GenU64 | Cfg::SseU64 => 64,
            _ => 32,
        }
    }

    pub fn arm(&self) -> Option<Forced> {
        match self {
            Cfg::DispGen => Some(Forced::Generic),
            Cfg::DispSse => Some(Forced::Sse2),
            Cfg::DispAvx => Some(Forced::Avx2),
            _ => None,
        }
    }
}

/// Run `f` with the dispatcher arm forced, restoring the previous setting.
pub fn with_arm<T>(arm: Forced, f: impl FnOnce() -> T) -> T {
    struct Guard(Option<Forced>);
    impl Drop for Guard {
        fn drop(&mut self) {
            force_backend(self.0);
        }
    }
    let _g = Guard(lightmotif::verif::forced_backend());
    force_backend(Some(arm));
    f()
}

pub fn arm_name(a: Forced) -> &'static str {
    match a {
        Forced::Generic => "generic",
        Forced::Sse2 => "sse2",
        Forced::Avx2 => "avx2",
    }
}

pub const FORCED: [Forced; 3] = [Forced::Generic, Forced::Sse2, Forced::Avx2];

thread_local! {
    /// Extra sequence rows of the striped sequence handed to the scoring kernels: the sequence is re-laid out in a
    /// matrix with this many more rows than necessary (position i at row i mod R', column i div R') and wrapped
    /// with `StripedSequence::new`, which accepts any matrix large enough for the length.
    pub static SPARE_ROWS: std::cell::Cell<usize> = const { std::cell::Cell::new(0) };
    /// 0: score the configured sequence itself; 1: score a `clone()` of it taken after `configure`;
    /// 2: a clone that is configured once more (a no-op on a faithful copy) before being scored
    pub static CLONED: std::cell::Cell<u8> = const { std::cell::Cell::new(0) };
}

/// Re-lay `s` out with `spare` additional sequence rows (no look-ahead rows yet).
pub fn respread<A: Alphabet, C: PositiveLength>(s: StripedSequence<A, C>, syms: &[A::Symbol], spare: usize) -> StripedSequence<A, C> {
    if spare == 0 {
        return s;
    }
    let rows = s.matrix().rows() - s.wrap() + spare;
    let mut m = DenseMatrix::<A::Symbol, C>::new(rows);
    for (i, &x) in syms.iter().enumerate() {
        m[i % rows][i / rows] = x;
    }
    StripedSequence::new(m, syms.len()).expect("StripedSequence::new rejected a matrix with spare rows")
}

// ---------------------------------------------------------------------------
// Scoring (f32)
// ---------------------------------------------------------------------------

#[derive(Clone, Debug)]
pub struct RangeOut {
    pub a: usize,
    pub b: usize,
    pub rows: usize,
    pub max_index: usize,
    /// rows × C, row-major
    pub cells: Vec<f32>,
    /// only for the full range: `unstripe()`, `Index<usize>` for every valid position, `iter()`
    pub unstriped: Vec<f32>,
    pub indexed: Vec<f32>,
    pub iter_len: usize,
    /// `StripedScores::max()` through the dispatching API (only set for Dispatch arms)
    pub api_max: Option<Option<f32>>,
}

#[derive(Clone, Debug)]
pub struct ScoreOut {
    pub c: usize,
    pub seq_rows: usize,
    pub wrap: usize,
    pub ranges: Vec<RangeOut>,
    /// `ScoringMatrix::score_position` for every valid position
    pub positions: Vec<f32>,
    /// `ScoringMatrix::score` (dispatching API), unstriped; only for Dispatch arms
    pub api_scores: Option<Vec<f32>>,
}

fn score_generic<A, C, PT, PS>(
    pt: &PT,
    ps: &PS,
    syms: &[A::Symbol],
    pssm: &ScoringMatrix<A>,
    ranges: &[(usize, usize)],
    api: bool,
    wrap_override: Option<usize>,
) -> ScoreOut
where
    A: Alphabet,
    C: PositiveLength,
    PT: Stripe<A, C>,
    PS: Score<f32, A, C>,
    Pipeline<A, Dispatch>: Score<f32, A, C>,
    Pipeline<Dna, Dispatch>: Maximum<f32, C>,
{
    let mut striped: StripedSequence<A, C> = respread(pt.stripe(syms), syms, SPARE_ROWS.with(|x| x.get()));
    match wrap_override {
        Some(w) => striped.configure_wrap(w),
        None => striped.configure(pssm),
    }
    let keep_original;
    match CLONED.with(|x| x.get()) {
        0 => {}
        how => {
            let copy = striped.clone();
            keep_original = std::mem::replace(&mut striped, copy);
            std::hint::black_box(&keep_original);
            if how == 2 {
                match wrap_override {
                    Some(w) => striped.configure_wrap(w),
                    None => striped.configure(pssm),
                }
            }
        }
    }
    let seq_rows = striped.matrix().rows() - striped.wrap();
    let l = syms.len();
    let m = pssm.len();
    let valid = if l >= m { l - m + 1 } else { 0 };
    let mut out = ScoreOut {
        c: C::USIZE,
        seq_rows,
        wrap: striped.wrap(),
        ranges: Vec::new(),
        positions: Vec::new(),
        api_scores: None,
    };
    let mut scores = StripedScores::<f32, C>::empty();
    for &(a, b) in ranges {
        let full = a == usize::MAX;
        if full {
            ps.score_into(pssm, &striped, &mut scores);
        } else {
            ps.score_rows_into(pssm, &striped, a..b, &mut scores);
        }
        let rows = scores.matrix().rows();
        let mut cells = Vec::with_capacity(rows * C::USIZE);
        for r in 0..rows {
            cells.extend_from_slice(&scores.matrix()[r]);
        }
        let mut ro = RangeOut {
            a: if full { 0 } else { a },
            b: if full { seq_rows } else { b },
            rows,
            max_index: scores.max_index(),
            cells,
            unstriped: Vec::new(),
            indexed: Vec::new(),
            iter_len: 0,
            api_max: None,
        };
        if full {
            ro.unstriped = scores.unstripe().to_vec();
            ro.iter_len = scores.iter().len();
            if rows > 0 {
                ro.indexed = (0..valid.min(rows * C::USIZE)).map(|p| scores[p]).collect();
            }
            if api {
                ro.api_max = Some(scores.max());
            }
        } else {
            // read a partially scored matrix back through every accessor (memory monitors: each reference handed
            // out must point into the matrix)
            let mut acc = 0u32;
            for x in scores.iter() {
                acc = acc.wrapping_add(x.to_bits());
            }
            for x in scores.unstripe().iter() {
                acc = acc.wrapping_add(x.to_bits());
            }
            ro.iter_len = scores.iter().len();
            // ... and the same block scored into a FRESH buffer (no spare capacity left behind by a larger scan)
            let mut fresh = StripedScores::<f32, C>::empty();
            ps.score_rows_into(pssm, &striped, a..b, &mut fresh);
            for x in fresh.iter() {
                acc = acc.wrapping_add(x.to_bits());
            }
            for x in fresh.unstripe().iter() {
                acc = acc.wrapping_add(x.to_bits());
            }
            std::hint::black_box(acc);
        }
        out.ranges.push(ro);
    }
    out.positions = (0..valid).map(|p| pssm.score_position(&striped, p)).collect();
    if api {
        out.api_scores = Some(pssm.score(&striped).unstripe().to_vec());
    }
    out
}

/// Score `syms` with `pssm` under configuration `cfg`.  `ranges` holds row
/// sub-ranges; `(usize::MAX, _)` stands for the full scan through `score_into`.
pub fn score_f32<A>(
    cfg: Cfg,
    syms: &[A::Symbol],
    pssm: &ScoringMatrix<A>,
    ranges: &[(usize, usize)],
    wrap_override: Option<usize>,
) -> ScoreOut
where
    A: Alphabet,
{
    let g = Pipeline::<A, Generic>::generic();
    match cfg {
        Cfg::GenU1 => score_generic_no_api::<A, U1, _, _>(&g, &g, syms, pssm, ranges, wrap_override),
        Cfg::GenU2 => score_generic_no_api::<A, U2, _, _>(&g, &g, syms, pssm, ranges, wrap_override),
        Cfg::GenU4 => score_generic_no_api::<A, U4, _, _>(&g, &g, syms, pssm, ranges, wrap_override),
        Cfg::GenU16 => score_generic_no_api::<A, U16, _, _>(&g, &g, syms, pssm, ranges, wrap_override),
        Cfg::GenU32 => score_generic::<A, U32, _, _>(&g, &g, syms, pssm, ranges, false, wrap_override),
        Cfg::SseU16 => {
            let s = Pipeline::<A, Sse2>::sse2().unwrap();
            score_generic_no_api::<A, U16, _, _>(&g, &s, syms, pssm, ranges, wrap_override)
        }
        Cfg::SseU32 => {
            let s = Pipeline::<A, Sse2>::sse2().unwrap();
            score_generic::<A, U32, _, _>(&g, &s, syms, pssm, ranges, false, wrap_override)
        }
        Cfg::GenU64 => score_generic_no_api::<A, U64, _, _>(&g, &g, syms, pssm, ranges, wrap_override),
        Cfg::SseU48 => {
            let s = Pipeline::<A, Sse2>::sse2().unwrap();
            score_generic_no_api::<A, U48, _, _>(&g, &s, syms, pssm, ranges, wrap_override)
        }
        Cfg::SseU64 => {
            let s = Pipeline::<A, Sse2>::sse2().unwrap();
            score_generic_no_api::<A, U64, _, _>(&g, &s, syms, pssm, ranges, wrap_override)
        }
        Cfg::AvxU32 => {
            let s = Pipeline::<A, Avx2>::avx2().unwrap();
            score_generic::<A, U32, _, _>(&s, &s, syms, pssm, ranges, false, wrap_override)
        }
        Cfg::DispGen | Cfg::DispSse | Cfg::DispAvx => with_arm(cfg.arm().unwrap(), || {
            let d = Pipeline::<A, Dispatch>::dispatch();
            score_generic::<A, U32, _, _>(&d, &d, syms, pssm, ranges, true, wrap_override)
        }),
    }
}

/// Variant for lane counts the dispatching API does not support (no `ScoringMatrix::score`).
fn score_generic_no_api<A, C, PT, PS>(
    pt: &PT,
    ps: &PS,
    syms: &[A::Symbol],
    pssm: &ScoringMatrix<A>,
    ranges: &[(usize, usize)],
    wrap_override: Option<usize>,
) -> ScoreOut
where
    A: Alphabet,
    C: PositiveLength,
    PT: Stripe<A, C>,
    PS: Score<f32, A, C>,
{
    let mut striped: StripedSequence<A, C> = respread(pt.stripe(syms), syms, SPARE_ROWS.with(|x| x.get()));
    match wrap_override {
        Some(w) => striped.configure_wrap(w),
        None => striped.configure(pssm),
    }
    let keep_original;
    match CLONED.with(|x| x.get()) {
        0 => {}
        how => {
            let copy = striped.clone();
            keep_original = std::mem::replace(&mut striped, copy);
            std::hint::black_box(&keep_original);
            if how == 2 {
                match wrap_override {
                    Some(w) => striped.configure_wrap(w),
                    None => striped.configure(pssm),
                }
            }
        }
    }
    let seq_rows = striped.matrix().rows() - striped.wrap();
    let l = syms.len();
    let m = pssm.len();
    let valid = if l >= m { l - m + 1 } else { 0 };
    let mut out = ScoreOut {
        c: C::USIZE,
        seq_rows,
        wrap: striped.wrap(),
        ranges: Vec::new(),
        positions: Vec::new(),
        api_scores: None,
    };
    let mut scores = StripedScores::<f32, C>::empty();
    for &(a, b) in ranges {
        let full = a == usize::MAX;
        if full {
            ps.score_into(pssm, &striped, &mut scores);
        } else {
            ps.score_rows_into(pssm, &striped, a..b, &mut scores);
        }
        let rows = scores.matrix().rows();
        let mut cells = Vec::with_capacity(rows * C::USIZE);
        for r in 0..rows {
            cells.extend_from_slice(&scores.matrix()[r]);
        }
        let mut ro = RangeOut {
            a: if full { 0 } else { a },
            b: if full { seq_rows } else { b },
            rows,
            max_index: scores.max_index(),
            cells,
            unstriped: Vec::new(),
            indexed: Vec::new(),
            iter_len: 0,
            api_max: None,
        };
        if full {
            ro.unstriped = scores.unstripe().to_vec();
            ro.iter_len = scores.iter().len();
            if rows > 0 {
                ro.indexed = (0..valid.min(rows * C::USIZE)).map(|p| scores[p]).collect();
            }
        } else {
            let mut acc = 0u32;
            for x in scores.iter() {
                acc = acc.wrapping_add(x.to_bits());
            }
            for x in scores.unstripe().iter() {
                acc = acc.wrapping_add(x.to_bits());
            }
            ro.iter_len = scores.iter().len();
            // ... and the same block scored into a FRESH buffer (no spare capacity left behind by a larger scan)
            let mut fresh = StripedScores::<f32, C>::empty();
            ps.score_rows_into(pssm, &striped, a..b, &mut fresh);
            for x in fresh.iter() {
                acc = acc.wrapping_add(x.to_bits());
            }
            for x in fresh.unstripe().iter() {
                acc = acc.wrapping_add(x.to_bits());
            }
            std::hint::black_box(acc);
        }
        out.ranges.push(ro);
    }
    out.positions = (0..valid).map(|p| pssm.score_position(&striped, p)).collect();
    out
}

// ---------------------------------------------------------------------------
// Histories on ONE reused StripedSequence + ONE reused StripedScores (C01 `reuse`)
// ---------------------------------------------------------------------------

#[derive(Clone, Copy, Debug, PartialEq, Eq)]
pub enum HOp {
    /// `stripe_into(seqs[k], &mut st)`
    Stripe(usize),
    /// `st.configure(&pssms[j])` only
    Configure(usize),
    /// `st.configure(&pssms[j]); score_into(&pssms[j], &st, &mut sc)`
    Score(usize),
    /// `st.configure(&pssms[j]); score_rows_into(&pssms[j], &st, 1..R, &mut sc)` (perturbs the buffer)
    ScoreRows(usize),
}

/// What the LAST operation of a history left in the score buffer.
#[derive(Clone, Debug)]
pub struct HSnap {
    pub seq: usize,
    pub motif: usize,
    pub full: bool,
    pub first_row: usize,
    pub seq_rows: usize,
    pub rows: usize,
    pub max_index: usize,
    pub iter_len: usize,
    pub unstriped: Vec<f32>,
    pub cells: Vec<f32>,
}

fn history_generic<A, C, PT, PS>(pt: &PT, ps: &PS, seqs: &[Vec<A::Symbol>], pssms: &[ScoringMatrix<A>], hist: &[HOp]) -> Option<HSnap>
where
    A: Alphabet,
    C: PositiveLength,
    PT: Stripe<A, C>,
    PS: Score<f32, A, C>,
{
    let mut st: StripedSequence<A, C> = pt.stripe(&seqs[0]);
    let mut cur = 0usize;
    let mut sc = StripedScores::<f32, C>::empty();
    let mut last = None;
    for &op in hist {
        last = None;
        match op {
            HOp::Stripe(k) => {
                pt.stripe_into(&seqs[k], &mut st);
                cur = k;
            }
            HOp::Configure(j) => st.configure(&pssms[j]),
            HOp::Score(j) | HOp::ScoreRows(j) => {
                st.configure(&pssms[j]);
                let seq_rows = st.matrix().rows() - st.wrap();
                let full = matches!(op, HOp::Score(_));
                let first_row = if full { 0 } else { 1.min(seq_rows) };
                if full {
                    ps.score_into(&pssms[j], &st, &mut sc);
                } else {
                    ps.score_rows_into(&pssms[j], &st, first_row..seq_rows, &mut sc);
                }
                let rows = sc.matrix().rows();
                let mut cells = Vec::with_capacity(rows * C::USIZE);
                for r in 0..rows {
                    cells.extend_from_slice(&sc.matrix()[r]);
                }
                last = Some(HSnap {
                    seq: cur,
                    motif: j,
                    full,
                    first_row,
                    seq_rows,
                    rows,
                    max_index: sc.max_index(),
                    iter_len: if full { sc.iter().len() } else { 0 },
                    unstriped: if full { sc.unstripe().to_vec() } else { Vec::new() },
                    cells,
                });
            }
        }
    }
    last
}

/// Run `hist` on fresh objects under `cfg`; the snapshot of the last operation if it scored.
pub fn history_f32<A: Alphabet>(cfg: Cfg, seqs: &[Vec<A::Symbol>], pssms: &[ScoringMatrix<A>], hist: &[HOp]) -> Option<HSnap> {
    let g = Pipeline::<A, Generic>::generic();
    match cfg {
        Cfg::GenU1 => history_generic::<A, U1, _, _>(&g, &g, seqs, pssms, hist),
        Cfg::GenU2 => history_generic::<A, U2, _, _>(&g, &g, seqs, pssms, hist),
        Cfg::GenU4 => history_generic::<A, U4, _, _>(&g, &g, seqs, pssms, hist),
        Cfg::GenU16 => history_generic::<A, U16, _, _>(&g, &g, seqs, pssms, hist),
        Cfg::GenU32 => history_generic::<A, U32, _, _>(&g, &g, seqs, pssms, hist),
        Cfg::GenU64 => history_generic::<A, U64, _, _>(&g, &g, seqs, pssms, hist),
        Cfg::SseU16 => {
            let s = Pipeline::<A, Sse2>::sse2().unwrap();
            history_generic::<A, U16, _, _>(&g, &s, seqs, pssms, hist)
        }
        Cfg::SseU32 => {
            let s = Pipeline::<A, Sse2>::sse2().unwrap();
            history_generic::<A, U32, _, _>(&g, &s, seqs, pssms, hist)
        }
        Cfg::SseU48 => {
            let s = Pipeline::<A, Sse2>::sse2().unwrap();
            history_generic::<A, U48, _, _>(&g, &s, seqs, pssms, hist)
        }
        Cfg::SseU64 => {
            let s = Pipeline::<A, Sse2>::sse2().unwrap();
            history_generic::<A, U64, _, _>(&g, &s, seqs, pssms, hist)
        }
        Cfg::AvxU32 => {
            let s = Pipeline::<A, Avx2>::avx2().unwrap();
            history_generic::<A, U32, _, _>(&s, &s, seqs, pssms, hist)
        }
        Cfg::DispGen | Cfg::DispSse | Cfg::DispAvx => with_arm(cfg.arm().unwrap(), || {
            let d = Pipeline::<A, Dispatch>::dispatch();
            history_generic::<A, U32, _, _>(&d, &d, seqs, pssms, hist)
        }),
    }
}

// ---------------------------------------------------------------------------
// Striping
// ---------------------------------------------------------------------------

#[derive(Clone, Debug, PartialEq, Eq)]
pub struct StripeOut {
    pub c: usize,
    pub len: usize,
    pub wrap: usize,
    pub rows: usize,
    /// rows × C, row-major, symbol ranks
    pub cells: Vec<u8>,
}

pub fn snapshot<A: Alphabet, C: PositiveLength>(s: &StripedSequence<A, C>) -> StripeOut {
    use lightmotif::abc::Symbol;
    let rows = s.matrix().rows();
    let mut cells = Vec::with_capacity(rows * C::USIZE);
    for r in 0..rows {
        cells.extend(s.matrix()[r].iter().map(|x| x.as_index() as u8));
    }
    StripeOut {
        c: C::USIZE,
        len: s.len(),
        wrap: s.wrap(),
        rows,
        cells,
    }
}

/// Striping configurations: (name, lanes).
#[derive(Clone, Copy, Debug, PartialEq, Eq, Hash)]
pub enum SCfg {
    GenU1,
    GenU2,
    GenU4,
    GenU16,
    GenU32,
    AvxU32,
    DispGen,
    DispSse,
    DispAvx,
}

pub const ALL_SCFGS: [SCfg; 9] = [
    SCfg::GenU32,
    SCfg::GenU1,
    SCfg::GenU2,
    SCfg::GenU4,
    SCfg::GenU16,
    SCfg::AvxU32,
    SCfg::DispGen,
    SCfg::DispSse,
    SCfg::DispAvx,
];

pub const U32_SCFGS: [SCfg; 5] = [
    SCfg::GenU32,
    SCfg::AvxU32,
    SCfg::DispGen,
    SCfg::DispSse,
    SCfg::DispAvx,
];

impl SCfg {
    pub fn name(&self) -> &'static str {
        match self {
            SCfg::GenU1 => "generic/U1",
            SCfg::GenU2 => "generic/U2",
            SCfg::GenU4 => "generic/U4",
            SCfg::GenU16 => "generic/U16",
            SCfg::GenU32 => "generic/U32",
            SCfg::AvxU32 => "avx2/U32",
            SCfg::DispGen => "dispatch[generic]/U32",
            SCfg::DispSse => "dispatch[sse2]/U32",
            SCfg::DispAvx => "dispatch[avx2]/U32",
        }
    }
    pub fn from_name(s: &str) -> Option<SCfg> {
        ALL_SCFGS.iter().cloned().find(|c| c.name() == s)
    }
    pub fn lanes(&self) -> usize {
        match self {
            SCfg::GenU1 => 1,
            SCfg::GenU2 => 2,
            SCfg::GenU4 => 4,
            SCfg::GenU16 => 16,
            _ => 32,
        }
    }
}

/// Fresh stripe through `Stripe::stripe`, then optional `configure_wrap` calls.
pub fn stripe_fresh<A: Alphabet>(cfg: SCfg, syms: &[A::Symbol], wraps: &[usize]) -> (StripeOut, Vec<u8>, Vec<usize>) {
    fn go<A: Alphabet, C: PositiveLength, P: Stripe<A, C>>(
        p: &P,
        syms: &[A::Symbol],
        wraps: &[usize],
    ) -> (StripeOut, Vec<u8>, Vec<usize>) {
        use lightmotif::abc::Symbol;
        use lightmotif::seq::SymbolCount;
        let mut s: StripedSequence<A, C> = p.stripe(syms);
        for &w in wraps {
            s.configure_wrap(w);
        }
        let idx: Vec<u8> = (0..syms.len()).map(|i| s[i].as_index() as u8).collect();
        let counts: Vec<usize> = A::symbols().iter().map(|&x| s.count_symbol(x)).collect();
        let counts2 = s.count_symbols();
        assert_eq!(counts, counts2.to_vec(), "count_symbol vs count_symbols disagree");
        // the LINEAR side of "counting its symbols gives the same answers as the linear sequence": the library's own
        // counts of the encoded sequence (owned and slice implementations) must be that same answer
        let linear = lightmotif::seq::EncodedSequence::<A>::new(syms.to_vec());
        let lin_all = SymbolCount::<A>::count_symbols(&linear).to_vec();
        let lin_one: Vec<usize> = A::symbols().iter().map(|&x| SymbolCount::<A>::count_symbol(&linear, x)).collect();
        let slice_all = SymbolCount::<A>::count_symbols(&syms).to_vec();
        assert_eq!(lin_all, counts, "EncodedSequence::count_symbols (linear) vs striped counts disagree");
        assert_eq!(lin_one, counts, "EncodedSequence::count_symbol (linear) vs striped counts disagree");
        assert_eq!(slice_all, counts, "<&[Symbol]>::count_symbols (linear) vs striped counts disagree");
        (snapshot(&s), idx, counts)
    }
    let g = Pipeline::<A, Generic>::generic();
    // the conversions of the encoded sequence (`to_striped`, by-value `From` / `into`; 32 columns, dispatching) are
    // striping too: they must give the matrix of `Stripe::stripe`
    if cfg == SCfg::GenU32 || matches!(cfg, SCfg::DispGen | SCfg::DispSse | SCfg::DispAvx) {
        let run = || {
            let fresh = snapshot(&Stripe::<A, U32>::stripe(&g, syms));
            let enc = lightmotif::seq::EncodedSequence::<A>::new(syms.to_vec());
            let a: StripedSequence<A, U32> = enc.to_striped();
            let b: StripedSequence<A, U32> = StripedSequence::from(enc);
            for (what, t) in [("EncodedSequence::to_striped", &a), ("StripedSequence::from(EncodedSequence)", &b)] {
                let o = snapshot(t);
                assert!(
                    o.rows == fresh.rows && o.len == fresh.len && o.wrap == fresh.wrap && o.cells == fresh.cells,
                    "{} differs from Stripe::stripe: {} rows / length {} / wrap {} against {} rows / length {} / wrap {}{}",
                    what, o.rows, o.len, o.wrap, fresh.rows, fresh.len, fresh.wrap, if o.rows == fresh.rows && o.cells != fresh.cells { " (cells differ)" } else { "" }
                );
            }
        };
        match cfg {
            SCfg::DispGen => with_arm(Forced::Generic, run),
            SCfg::DispSse => with_arm(Forced::Sse2, run),
            SCfg::DispAvx => with_arm(Forced::Avx2, run),
            _ => run(),
        }
    }
    match cfg {
        SCfg::GenU1 => go::<A, U1, _>(&g, syms, wraps),
        SCfg::GenU2 => go::<A, U2, _>(&g, syms, wraps),
        SCfg::GenU4 => go::<A, U4, _>(&g, syms, wraps),
        SCfg::GenU16 => go::<A, U16, _>(&g, syms, wraps),
        SCfg::GenU32 => go::<A, U32, _>(&g, syms, wraps),
        SCfg::AvxU32 => go::<A, U32, _>(&Pipeline::<A, Avx2>::avx2().unwrap(), syms, wraps),
        SCfg::DispGen => with_arm(Forced::Generic, || go::<A, U32, _>(&Pipeline::<A, Dispatch>::dispatch(), syms, wraps)),
        SCfg::DispSse => with_arm(Forced::Sse2, || go::<A, U32, _>(&Pipeline::<A, Dispatch>::dispatch(), syms, wraps)),
        SCfg::DispAvx => with_arm(Forced::Avx2, || go::<A, U32, _>(&Pipeline::<A, Dispatch>::dispatch(), syms, wraps)),
    }
}

/// `stripe_into` on an existing U32 buffer with one of the U32 striping configurations.
pub fn stripe_into_u32<A: Alphabet>(cfg: SCfg, syms: &[A::Symbol], buf: &mut StripedSequence<A, U32>) {
    match cfg {
        SCfg::GenU32 => Pipeline::<A, Generic>::generic().stripe_into(syms, buf),
        SCfg::AvxU32 => Pipeline::<A, Avx2>::avx2().unwrap().stripe_into(syms, buf),
        SCfg::DispGen => with_arm(Forced::Generic, || Pipeline::<A, Dispatch>::dispatch().stripe_into(syms, buf)),
        SCfg::DispSse => with_arm(Forced::Sse2, || Pipeline::<A, Dispatch>::dispatch().stripe_into(syms, buf)),
        SCfg::DispAvx => with_arm(Forced::Avx2, || Pipeline::<A, Dispatch>::dispatch().stripe_into(syms, buf)),
        _ => panic!("not a U32 striping configuration"),
    }
}

// ---------------------------------------------------------------------------
// Encoding
// ---------------------------------------------------------------------------

#[derive(Clone, Copy, Debug, PartialEq, Eq, Hash)]
pub enum ECfg {
    Generic,
    Sse2,
    Avx2,
    DispGen,
    DispSse,
    DispAvx,
}

pub const ALL_ECFGS: [ECfg; 6] = [
    ECfg::Generic,
    ECfg::Sse2,
    ECfg::Avx2,
    ECfg::DispGen,
    ECfg::DispSse,
    ECfg::DispAvx,
];

impl ECfg {
    pub fn name(&self) -> &'static str {
        match self {
            ECfg::Generic => "generic",
            ECfg::Sse2 => "sse2",
            ECfg::Avx2 => "avx2",
            ECfg::DispGen => "dispatch[generic]",
            ECfg::DispSse => "dispatch[sse2]",
            ECfg::DispAvx => "dispatch[avx2]",
        }
    }
    pub fn from_name(s: &str) -> Option<ECfg> {
        ALL_ECFGS.iter().cloned().find(|c| c.name() == s)
    }
    /// the dispatcher arm of the three dispatching configurations
    pub fn arm(&self) -> Option<Forced> {
        match self {
            ECfg::DispGen => Some(Forced::Generic),
            ECfg::DispSse => Some(Forced::Sse2),
            ECfg::DispAvx => Some(Forced::Avx2),
            _ => None,
        }
    }
}

/// Result of the three encoding entry points of one pipeline (they must agree).
#[derive(Clone, Debug, PartialEq, Eq)]
pub struct EncodeOut {
    /// encode(): Ok(ranks, display string) or Err(char)
    pub encode: Result<(Vec<u8>, String), char>,
    pub encode_raw: Result<Vec<u8>, char>,
    pub encode_into: Result<Vec<u8>, char>,
}

pub fn encode_all<A: Alphabet>(cfg: ECfg, bytes: &[u8]) -> EncodeOut {
    fn go<A: Alphabet, P: Encode<A>>(p: &P, bytes: &[u8]) -> EncodeOut {
        use lightmotif::abc::Symbol;
        let enc = p
            .encode(bytes)
            .map(|e| {
                let r: Vec<u8> = e.iter().map(|s| s.as_index() as u8).collect();
                (r, e.to_string())
            })
            .map_err(|e| e.0);
        let raw = p
            .encode_raw(bytes)
            .map(|v| v.iter().map(|s| s.as_index() as u8).collect())
            .map_err(|e| e.0);
        let mut dst = vec![A::default_symbol(); bytes.len()];
        let mut into = p
            .encode_into(bytes, &mut dst)
            .map(|_| dst.iter().map(|s| s.as_index() as u8).collect::<Vec<u8>>())
            .map_err(|e| e.0);
        // the destination is a caller-supplied slice of alignment 1: the same call into sub-slices starting 1, 7 and
        // 15 symbols into a buffer must give the same answer (reported as encode_into's if any differs)
        for off in [1usize, 7, 15] {
            let mut buf = vec![A::default_symbol(); bytes.len() + off];
            let r = p
                .encode_into(bytes, &mut buf[off..])
                .map(|_| buf[off..].iter().map(|s| s.as_index() as u8).collect::<Vec<u8>>())
                .map_err(|e| e.0);
            if r != into {
                into = r;
                break;
            }
        }
        EncodeOut {
            encode: enc,
            encode_raw: raw,
            encode_into: into,
        }
    }
    match cfg {
        ECfg::Generic => go::<A, _>(&Pipeline::<A, Generic>::generic(), bytes),
        ECfg::Sse2 => go::<A, _>(&Pipeline::<A, Sse2>::sse2().unwrap(), bytes),
        ECfg::Avx2 => go::<A, _>(&Pipeline::<A, Avx2>::avx2().unwrap(), bytes),
        ECfg::DispGen => with_arm(Forced::Generic, || go::<A, _>(&Pipeline::<A, Dispatch>::dispatch(), bytes)),
        ECfg::DispSse => with_arm(Forced::Sse2, || go::<A, _>(&Pipeline::<A, Dispatch>::dispatch(), bytes)),
        ECfg::DispAvx => with_arm(Forced::Avx2, || go::<A, _>(&Pipeline::<A, Dispatch>::dispatch(), bytes)),
    }
}

// ---------------------------------------------------------------------------
// helpers for building score matrices with arbitrary content
// ---------------------------------------------------------------------------

pub fn build_scores<T: MatrixElement, C: PositiveLength>(rows: usize, max_index: usize, fill: impl Fn(usize, usize) -> T) -> StripedScores<T, C> {
    let mut s = StripedScores::<T, C>::empty();
    s.resize(rows, max_index);
    let m: &mut DenseMatrix<T, C> = s.matrix_mut();
    for r in 0..rows {
        for c in 0..C::USIZE {
            m[MatrixCoordinates::new(r, c)] = fill(r, c);
        }
    }
    s
}

pub fn coords_to_pairs(v: Vec<MatrixCoordinates>) -> Vec<(usize, usize)> {
    v.into_iter().map(|m| (m.row, m.col)).collect()
}

pub fn thr_generic<T: MatrixElement + PartialOrd, C: PositiveLength>(s: &StripedScores<T, C>, t: T) -> Vec<(usize, usize)> {
    coords_to_pairs(Pipeline::<Dna, Generic>::generic().threshold(s, t))
}

/// `encode_into` with a destination SHORTER than the text (a misuse the library answers with a panic): the call
/// must not write past the destination whatever it answers. Returns whether it panicked.
pub fn encode_into_short<A: Alphabet>(cfg: ECfg, bytes: &[u8], dst_len: usize) -> bool {
    fn go<A: Alphabet, P: Encode<A>>(p: &P, bytes: &[u8], dst_len: usize) -> bool {
        let mut dst = vec![A::default_symbol(); dst_len];
        let r = std::panic::catch_unwind(std::panic::AssertUnwindSafe(|| {
            let _ = p.encode_into(bytes, &mut dst[..]);
        }));
        r.is_err()
    }
    match cfg {
        ECfg::Generic => go::<A, _>(&Pipeline::<A, Generic>::generic(), bytes, dst_len),
        ECfg::Sse2 => go::<A, _>(&Pipeline::<A, Sse2>::sse2().unwrap(), bytes, dst_len),
        ECfg::Avx2 => go::<A, _>(&Pipeline::<A, Avx2>::avx2().unwrap(), bytes, dst_len),
        ECfg::DispGen => with_arm(Forced::Generic, || go::<A, _>(&Pipeline::<A, Dispatch>::dispatch(), bytes, dst_len)),
        ECfg::DispSse => with_arm(Forced::Sse2, || go::<A, _>(&Pipeline::<A, Dispatch>::dispatch(), bytes, dst_len)),
        ECfg::DispAvx => with_arm(Forced::Avx2, || go::<A, _>(&Pipeline::<A, Dispatch>::dispatch(), bytes, dst_len)),
    }
}
