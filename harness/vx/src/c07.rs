//! C07 — maximum / arg-maximum / thresholding of striped scores match their definitions (DESIGN §C07).
//!
//! `planted`: product  element type {f32,u8} × configuration × rows × background × planted maximum at every
//!            (row class, column) × duplicates × threshold menu, on score matrices built through the public API;
//! `tail`:    the second clause (cells past the last valid position are -inf when the wildcard column is -inf,
//!            hence max() is the best valid score) — reuses the C01 shape loop.

use std::fmt::Debug;

use lightmotif::abc::{Alphabet, Dna, Protein};
use lightmotif::dense::{MatrixCoordinates, MatrixElement};
use lightmotif::num::{PositiveLength, U1, U16, U2, U32, U4, U48, U64};
use lightmotif::pli::dispatch::Dispatch;
use lightmotif::pli::platform::{Avx2, Generic, Sse2};
use lightmotif::pli::{Maximum, Pipeline, Threshold};
use lightmotif::scores::{Scores, StripedScores};
use lightmotif::verif::Forced;
use serde_json::{json, Value};
use vx_core::{catch, Ctx, Report};

use crate::c01;
use crate::cfgs::{self, with_arm, Cfg};
use crate::model;

pub trait El: MatrixElement + PartialOrd + Debug + 'static {
    const NAME: &'static str;
    /// a value no menu cell exceeds (written into the alignment padding by `fill`)
    const TOP: Self;
    fn to_json(&self) -> Value;
    fn from_json(v: &Value) -> Self;
}
impl El for f32 {
    const NAME: &'static str = "f32";
    const TOP: f32 = f32::MAX;
    fn to_json(&self) -> Value {
        model::f32_to_json(*self)
    }
    fn from_json(v: &Value) -> Self {
        model::f32_from_json(v)
    }
}
impl El for u8 {
    const NAME: &'static str = "u8";
    const TOP: u8 = 255;
    fn to_json(&self) -> Value {
        json!(*self)
    }
    fn from_json(v: &Value) -> Self {
        v.as_u64().unwrap() as u8
    }
}

/// A score matrix described compactly: background function id + planted cells.
#[derive(Clone, Debug)]
pub struct Plan<T: El> {
    pub rows: usize,
    pub background: usize,
    pub planted: Vec<(usize, usize, T)>,
}

fn bg_f32(id: usize, r: usize, c: usize, rows: usize, cols: usize) -> f32 {
    match id {
        0 => f32::NEG_INFINITY,
        1 => -5.0,
        2 => 0.0,
        // ramps with distinct values, all negative / mixed
        3 => -((r * cols + c) as f32) - 1.0,
        4 => ((r * cols + c) as f32) - ((rows * cols) as f32) * 0.5,
        5 => -1.0e-3 * ((c * rows + r) as f32 + 1.0),
        _ => unreachable!(),
    }
}
const N_BG_F32: usize = 6;

fn bg_u8(id: usize, r: usize, c: usize, _rows: usize, cols: usize) -> u8 {
    match id {
        0 => 0,
        1 => 7,
        2 => ((r * cols + c) % 200) as u8,
        3 => (199 - (r * 3 + c * 5) % 200) as u8,
        _ => unreachable!(),
    }
}
const N_BG_U8: usize = 4;

fn cell<T: El>(plan: &Plan<T>, bg: &dyn Fn(usize, usize, usize, usize, usize) -> T, r: usize, c: usize, cols: usize) -> T {
    for &(pr, pc, v) in &plan.planted {
        if pr == r && pc == c {
            return v;
        }
    }
    bg(plan.background, r, c, plan.rows, cols)
}

#[derive(Debug, Clone, PartialEq)]
pub struct Probe<T> {
    pub max: Option<T>,
    pub argmax: Option<(usize, usize)>,
    pub thresholds: Vec<Vec<(usize, usize)>>,
}

fn probe<T: El, C: PositiveLength, P: Maximum<T, C> + Threshold<T, C>>(p: &P, s: &StripedScores<T, C>, ts: &[T]) -> Probe<T> {
    Probe {
        max: p.max(s),
        argmax: if SKIP_ARGMAX.with(|x| x.get()) { scalar_argmax(s) } else { p.argmax(s).map(|m| (m.row, m.col)) },
        thresholds: ts.iter().map(|&t| cfgs::coords_to_pairs(p.threshold(s, t))).collect(),
    }
}

/// The oracle for one probe on one matrix (cells given row-major).
fn judge<T: El>(cells: &[T], rows: usize, cols: usize, ts: &[T], got: &Probe<T>, need_max: bool) -> Result<(), (String, String)> {
    if rows == 0 {
        if got.max.is_some() || got.argmax.is_some() {
            return Err(("empty not None".into(), format!("empty matrix: max={:?} argmax={:?}, expected None/None", got.max, got.argmax)));
        }
        for (i, t) in got.thresholds.iter().enumerate() {
            if !t.is_empty() {
                return Err(("empty threshold".into(), format!("empty matrix: threshold({:?}) returned {} cells", ts[i], t.len())));
            }
        }
        return Ok(());
    }
    let mut best = cells[0];
    for &x in cells {
        if x > best {
            best = x;
        }
    }
    if need_max {
        match got.max {
            Some(m) if m == best => {}
            other => return Err(("max".into(), format!("max() = {:?} but the largest stored value is {:?}", other, best))),
        }
    }
    match got.argmax {
        Some((r, c)) => {
            if r >= rows || c >= cols {
                return Err(("argmax out of range".into(), format!("argmax() = ({}, {}) outside {}x{}", r, c, rows, cols)));
            }
            let v = cells[r * cols + c];
            if !(v == best) {
                return Err(("argmax".into(), format!("argmax() = (row {}, col {}) holding {:?} but the largest stored value is {:?}", r, c, v, best)));
            }
        }
        None => return Err(("argmax None".into(), "argmax() = None on a non-empty matrix".into())),
    }
    for (i, &t) in ts.iter().enumerate() {
        let mut want: Vec<(usize, usize)> = Vec::new();
        for r in 0..rows {
            for c in 0..cols {
                if cells[r * cols + c] >= t {
                    want.push((r, c));
                }
            }
        }
        let mut g = got.thresholds[i].clone();
        g.sort();
        let dup = g.windows(2).any(|w| w[0] == w[1]);
        want.sort();
        if dup || g != want {
            return Err((
                "threshold".into(),
                format!("threshold({:?}) returned {} cells ({}duplicates), expected {} cells", t, g.len(), if dup { "with " } else { "no " }, want.len()),
            ));
        }
    }
    Ok(())
}

#[derive(Clone, Copy, Debug, PartialEq, Eq)]
pub enum MCfg {
    Gen(usize),
    Sse(usize),
    Avx,
    Arm(Forced),
    /// `StripedScores::{max,argmax,threshold}` (dispatching API) under a forced arm
    Api(Forced),
    /// `Scores::{max,argmax,threshold}` on the unstriped vector
    Unstriped,
}

impl MCfg {
    fn name(&self) -> String {
        match self {
            MCfg::Gen(c) => format!("generic/U{}", c),
            MCfg::Sse(c) => format!("sse2/U{}", c),
            MCfg::Avx => "avx2/U32".into(),
            MCfg::Arm(a) => format!("dispatch[{}]/U32", cfgs::arm_name(*a)),
            MCfg::Api(a) => format!("api[{}]/U32", cfgs::arm_name(*a)),
            MCfg::Unstriped => "Scores(unstriped)".into(),
        }
    }
    fn from_name(s: &str) -> Option<MCfg> {
        all_mcfgs().into_iter().find(|c| c.name() == s)
    }
    fn lanes(&self) -> usize {
        match self {
            MCfg::Gen(c) | MCfg::Sse(c) => *c,
            _ => 32,
        }
    }
}

fn tail_reuse_ops() -> Vec<cfgs::HOp> {
    use cfgs::HOp;
    vec![HOp::Stripe(0), HOp::Stripe(1), HOp::Stripe(2), HOp::Stripe(3), HOp::Score(0), HOp::Score(1)]
}

/// One `tail_reuse` history under one configuration.
fn tail_reuse_one(cfg: Cfg, h: &[cfgs::HOp]) -> Result<(), (String, String)> {
    let seqs: Vec<Vec<u8>> = vec![vec![2u8; 64], (0..40).map(|i| [0u8, 1, 3][i % 3]).collect(), (0..70).map(|i| ((i * 7) % 4) as u8).collect(), vec![]];
    let mats: Vec<Vec<Vec<f32>>> = vec![c01::make_matrix("int", 1, 5, 0), c01::make_matrix("int", 4, 5, 0)];
    let syms: Vec<Vec<<Dna as Alphabet>::Symbol>> = seqs.iter().map(|x| model::to_symbols::<Dna>(x)).collect();
    let pssms: Vec<_> = mats.iter().map(|m| model::scoring::<Dna>(m)).collect();
    match catch(|| cfgs::history_f32::<Dna>(cfg, &syms, &pssms, h)) {
        Err(p) => Err((format!("C07 tail_reuse {} panic {}", cfg.name(), vx_core::util::panic_class(&p)), format!("panic: {}", p))),
        Ok(None) => Ok(()),
        Ok(Some(snap)) => {
            let l = seqs[snap.seq].len();
            let m = mats[snap.motif].len();
            let valid = if l >= m { l - m + 1 } else { 0 };
            let c = cfg.lanes();
            let r = snap.seq_rows;
            for rr in 0..snap.rows {
                for col in 0..c {
                    let p = col * r + rr;
                    let v = snap.cells[rr * c + col];
                    if p >= valid && v != f32::NEG_INFINITY {
                        return Err((
                            format!("C07 tail_reuse {} tail not -inf", cfg.name()),
                            format!("cell (row {}, col {}) = position {} is past the last valid position {} of the current sequence (L={}, M={}) but holds {}", rr, col, p, valid as i64 - 1, l, m, v),
                        ));
                    }
                }
            }
            Ok(())
        }
    }
}

pub fn all_mcfgs() -> Vec<MCfg> {
    let mut v = vec![MCfg::Gen(32), MCfg::Gen(1), MCfg::Gen(2), MCfg::Gen(4), MCfg::Gen(16), MCfg::Sse(16), MCfg::Sse(32), MCfg::Avx, MCfg::Gen(64), MCfg::Sse(48), MCfg::Sse(64)];
    for a in cfgs::FORCED {
        v.push(MCfg::Arm(a));
    }
    for a in cfgs::FORCED {
        v.push(MCfg::Api(a));
    }
    v.push(MCfg::Unstriped);
    v
}

/// Everything the real code answers for one plan under one configuration: (cells, probe).
pub trait Runner<T: El> {
    fn run(cfg: MCfg, plan: &Plan<T>, ts: &[T]) -> (Vec<T>, usize, Probe<T>);
}

thread_local! {
    /// When set, score matrices are built in a buffer that previously held 3 more rows filled with
    /// the planted peak value (a reused, shrunk buffer) and whose storage - alignment padding included -
    /// was then `fill`ed with the largest value: rows past the logical end and padding must be invisible.
    static SHRUNK: std::cell::Cell<bool> = const { std::cell::Cell::new(false) };
    /// When set, the matrix is declared with FEWER valid positions (max_index) than it has cells, as every real
    /// score matrix of a sequence whose length is not a multiple of the column count: the cells past max_index
    /// are cells of the matrix all the same (the statement quantifies over cells).
    static SHORT: std::cell::Cell<u8> = const { std::cell::Cell::new(0) };
    /// When set, arg-max is not asked of the library (the 8-bit AVX2 arg-max states its limit of 65535 rows with
    /// a panic); maximum and thresholding, which have no such limit, are still probed.
    static SKIP_ARGMAX: std::cell::Cell<bool> = const { std::cell::Cell::new(false) };
}

/// Scalar arg-max of the stored cells (stands in for the library's answer when SKIP_ARGMAX is set).
fn scalar_argmax<T: El, C: PositiveLength>(s: &StripedScores<T, C>) -> Option<(usize, usize)> {
    let mut best: Option<(usize, usize, T)> = None;
    for r in 0..s.matrix().rows() {
        for c in 0..C::USIZE {
            let v = s.matrix()[r][c];
            if best.map_or(true, |b| v > b.2) {
                best = Some((r, c, v));
            }
        }
    }
    best.map(|b| (b.0, b.1))
}

fn build<T: El, C: PositiveLength>(plan: &Plan<T>, bg: &dyn Fn(usize, usize, usize, usize, usize) -> T) -> (StripedScores<T, C>, Vec<T>) {
    let cols = C::USIZE;
    let full = plan.rows * cols;
    // 1: fewer valid positions than cells; 2: NO valid position at all (a hand-built matrix: rows, cells, max_index 0)
    let max_index = match SHORT.with(|x| x.get()) {
        1 => full.saturating_sub(cols / 2 + 1),
        2 => 0,
        // a matrix WITHOUT rows whose index bound is positive (`resize(0, n)` is public): still no cell, no maximum
        3 => 40,
        _ => full,
    };
    let s = if SHRUNK.with(|x| x.get()) {
        let junk = plan.planted.first().map(|p| p.2);
        let mut s = cfgs::build_scores::<T, C>(plan.rows + 3, (plan.rows + 3) * cols, |r, c| match junk {
            Some(v) => v,
            None => cell(plan, bg, r.min(plan.rows.saturating_sub(1)), c, cols),
        });
        s.resize(plan.rows, max_index);
        // DenseMatrix::fill writes the alignment padding of every row too (column counts that are not a
        // multiple of the alignment): padding is not a cell and must be invisible to max / argmax / threshold
        s.matrix_mut().fill(T::TOP);
        for r in 0..plan.rows {
            for c in 0..cols {
                s.matrix_mut()[MatrixCoordinates::new(r, c)] = cell(plan, bg, r, c, cols);
            }
        }
        s
    } else {
        cfgs::build_scores::<T, C>(plan.rows, max_index, |r, c| cell(plan, bg, r, c, cols))
    };
    let mut cells = Vec::with_capacity(plan.rows * cols);
    for r in 0..plan.rows {
        cells.extend_from_slice(&s.matrix()[r]);
    }
    (s, cells)
}

fn api_probe<T: El>(s: &StripedScores<T, U32>, ts: &[T]) -> Probe<T>
where
    Pipeline<Dna, Dispatch>: Maximum<T, U32> + Threshold<T, U32>,
{
    let rows = s.matrix().rows();
    let back = |o: usize| (o % rows.max(1), o / rows.max(1));
    Probe {
        max: s.max(),
        argmax: if SKIP_ARGMAX.with(|x| x.get()) { scalar_argmax(s) } else { s.argmax().map(back) },
        thresholds: ts.iter().map(|&t| s.threshold(t).into_iter().map(back).collect()).collect(),
    }
}

fn unstriped_probe<T: El>(s: &StripedScores<T, U32>, ts: &[T]) -> Probe<T> {
    let rows = s.matrix().rows();
    let v: Scores<T> = s.unstripe();
    let back = |o: usize| (o % rows.max(1), o / rows.max(1));
    Probe {
        max: v.max(),
        argmax: v.argmax().map(back),
        thresholds: ts.iter().map(|t| v.threshold(t).into_iter().map(back).collect()).collect(),
    }
}

macro_rules! runner {
    ($t:ty, $bg:ident) => {
        impl Runner<$t> for $t {
            fn run(cfg: MCfg, plan: &Plan<$t>, ts: &[$t]) -> (Vec<$t>, usize, Probe<$t>) {
                let g = Pipeline::<Dna, Generic>::generic();
                let bgf = |id, r, c, rows, cols| $bg(id, r, c, rows, cols);
                match cfg {
                    MCfg::Gen(1) => {
                        let (s, cells) = build::<$t, U1>(plan, &bgf);
                        (cells, 1, probe(&g, &s, ts))
                    }
                    MCfg::Gen(2) => {
                        let (s, cells) = build::<$t, U2>(plan, &bgf);
                        (cells, 2, probe(&g, &s, ts))
                    }
                    MCfg::Gen(4) => {
                        let (s, cells) = build::<$t, U4>(plan, &bgf);
                        (cells, 4, probe(&g, &s, ts))
                    }
                    MCfg::Gen(16) => {
                        let (s, cells) = build::<$t, U16>(plan, &bgf);
                        (cells, 16, probe(&g, &s, ts))
                    }
                    MCfg::Gen(64) => {
                        let (s, cells) = build::<$t, U64>(plan, &bgf);
                        (cells, 64, probe(&g, &s, ts))
                    }
                    MCfg::Sse(48) => {
                        let (s, cells) = build::<$t, U48>(plan, &bgf);
                        (cells, 48, probe(&Pipeline::<Dna, Sse2>::sse2().unwrap(), &s, ts))
                    }
                    MCfg::Sse(64) => {
                        let (s, cells) = build::<$t, U64>(plan, &bgf);
                        (cells, 64, probe(&Pipeline::<Protein, Sse2>::sse2().unwrap(), &s, ts))
                    }
                    MCfg::Gen(_) => {
                        let (s, cells) = build::<$t, U32>(plan, &bgf);
                        (cells, 32, probe(&g, &s, ts))
                    }
                    MCfg::Sse(16) => {
                        let (s, cells) = build::<$t, U16>(plan, &bgf);
                        (cells, 16, probe(&Pipeline::<Protein, Sse2>::sse2().unwrap(), &s, ts))
                    }
                    MCfg::Sse(_) => {
                        let (s, cells) = build::<$t, U32>(plan, &bgf);
                        (cells, 32, probe(&Pipeline::<Dna, Sse2>::sse2().unwrap(), &s, ts))
                    }
                    MCfg::Avx => {
                        let (s, cells) = build::<$t, U32>(plan, &bgf);
                        (cells, 32, probe(&Pipeline::<Dna, Avx2>::avx2().unwrap(), &s, ts))
                    }
                    MCfg::Arm(a) => {
                        let (s, cells) = build::<$t, U32>(plan, &bgf);
                        let p = with_arm(a, || probe(&Pipeline::<Protein, Dispatch>::dispatch(), &s, ts));
                        (cells, 32, p)
                    }
                    MCfg::Api(a) => {
                        let (s, cells) = build::<$t, U32>(plan, &bgf);
                        let p = with_arm(a, || api_probe(&s, ts));
                        (cells, 32, p)
                    }
                    MCfg::Unstriped => {
                        let (s, cells) = build::<$t, U32>(plan, &bgf);
                        (cells, 32, unstriped_probe(&s, ts))
                    }
                }
            }
        }
    };
}
runner!(f32, bg_f32);
runner!(u8, bg_u8);

pub fn plan_json<T: El>(plan: &Plan<T>, cfg: MCfg, ts: &[T]) -> Value {
    json!({
        "kind": "planted",
        "type": T::NAME,
        "cfg": cfg.name(),
        "rows": plan.rows,
        "background": plan.background,
        "planted": plan.planted.iter().map(|(r, c, v)| json!([r, c, v.to_json()])).collect::<Vec<_>>(),
        "thresholds": ts.iter().map(|t| t.to_json()).collect::<Vec<_>>(),
    })
}

fn plan_json_tag<T: El>(plan: &Plan<T>, cfg: MCfg, ts: &[T], tag: &str) -> Value {
    let mut v = plan_json(plan, cfg, ts);
    v["shrunk_buffer"] = json!(!tag.is_empty());
    v
}

pub fn check_plan<T: El + Runner<T>>(plan: &Plan<T>, cfg: MCfg, ts: &[T], rep: &mut Report) {
    // planted cells must fit this configuration's column count
    let cols = cfg.lanes();
    if plan.planted.iter().any(|p| p.1 >= cols) {
        return;
    }
    let nontrivial = plan.rows > 0;
    // small matrices are also probed in a reused buffer that was 3 rows larger before
    if plan.rows <= 8 && plan.planted.len() <= 1 && !SHRUNK.with(|x| x.get()) {
        SHRUNK.with(|x| x.set(true));
        check_plan_inner(plan, cfg, ts, rep, " shrunk-buffer");
        SHRUNK.with(|x| x.set(false));
    }
    // ... and, for the pipeline-level entry points, with fewer valid positions than cells (the planted cell may lie
    // past max_index: it is a cell of the matrix all the same)
    if plan.rows <= 8 && plan.rows > 0 && plan.planted.len() <= 1 && !matches!(cfg, MCfg::Api(_) | MCfg::Unstriped) && SHORT.with(|x| x.get()) == 0 {
        SHORT.with(|x| x.set(1));
        check_plan_inner(plan, cfg, ts, rep, " short-max_index");
        SHORT.with(|x| x.set(2));
        check_plan_inner(plan, cfg, ts, rep, " zero-max_index");
        SHORT.with(|x| x.set(0));
    }
    // a zero-row matrix with a positive index bound (seeded change C06-u: an emptiness test on max_index instead of
    // the rows reads through the dangling pointer of the empty storage), fresh and shrunk from a 3-row buffer
    if plan.rows == 0 && !matches!(cfg, MCfg::Unstriped) && SHORT.with(|x| x.get()) == 0 {
        SHORT.with(|x| x.set(3));
        check_plan_inner(plan, cfg, ts, rep, " zero-rows positive-max_index");
        if !SHRUNK.with(|x| x.get()) {
            SHRUNK.with(|x| x.set(true));
            check_plan_inner(plan, cfg, ts, rep, " shrunk-buffer zero-rows positive-max_index");
            SHRUNK.with(|x| x.set(false));
        }
        SHORT.with(|x| x.set(0));
    }
    check_plan_inner(plan, cfg, ts, rep, "");
}

fn check_plan_inner<T: El + Runner<T>>(plan: &Plan<T>, cfg: MCfg, ts: &[T], rep: &mut Report, tag: &str) {
    let nontrivial = plan.rows > 0;
    rep.eval_distinct(nontrivial);
    match catch(|| <T as Runner<T>>::run(cfg, plan, ts)) {
        Err(p) => rep.violation(
            format!("C07 {} {}{} panic {}", T::NAME, cfg.name(), tag, vx_core::util::panic_class(&p)),
            format!("panic: {}", p),
            || plan_json_tag(plan, cfg, ts, tag),
        ),
        Ok((cells, cols, got)) => {
            if let Err((sig, msg)) = judge(&cells, plan.rows, cols, ts, &got, true) {
                rep.violation(format!("C07 {} {}{} {}", T::NAME, cfg.name(), tag, sig), msg, || plan_json_tag(plan, cfg, ts, tag));
            }
        }
    }
}

fn row_counts(quick: bool) -> Vec<usize> {
    let mut v: Vec<usize> = (0..=40).collect();
    v.extend([255, 256, 257, 1000]);
    if !quick {
        v.extend([64, 100, 511, 2000, 5000]);
    }
    v
}

fn planted_rows(rows: usize, quick: bool) -> Vec<usize> {
    let mut v: Vec<usize> = Vec::new();
    if rows <= 40 {
        return (0..rows).collect();
    }
    if quick {
        return vec![0, 1, rows / 2, rows - 2, rows - 1];
    }
    for r in 0..3 {
        v.push(r);
        v.push(rows - 1 - r);
    }
    let mut r = 3;
    while r < rows - 3 {
        v.push(r);
        r += if rows > 300 { rows / 7 } else { 7 };
    }
    v.sort();
    v.dedup();
    v
}

fn run_planted<T: El + Runner<T>>(
    ctx: &mut Ctx,
    rep: &mut Report,
    base: &mut u64,
    n_bg: usize,
    peak: fn(usize) -> T,
    thresholds: fn(usize, usize) -> Vec<T>,
) {
    let cfgs_ = all_mcfgs();
    for rows in row_counts(ctx.quick()) {
        for bg in 0..n_bg {
            let mut ts = thresholds(bg, rows);
            if rows > 40 && ctx.quick() {
                ts.truncate(4);
            }
            // no planted cell at all
            let idx = *base;
            *base += 1;
            if ctx.mine(idx) {
                let plain = Plan::<T> { rows, background: bg, planted: vec![] };
                for &cfg in &cfgs_ {
                    check_plan(&plain, cfg, &ts, rep);
                }
            }
            let prs = planted_rows(rows, ctx.quick());
            for &r in &prs {
                let idx = *base;
                *base += 1;
                if !ctx.mine(idx) {
                    continue;
                }
                for c in 0..64usize {
                    // columns 32..63 only exist in the 48/64-column configurations: every row for small matrices, first/last row otherwise
                    if c >= 32 && rows > 8 && r != 0 && r + 1 != rows {
                        continue;
                    }
                    let plan = Plan::<T> { rows, background: bg, planted: vec![(r, c, peak(bg))] };
                    for &cfg in &cfgs_ {
                        // narrow configurations see the planted column only if it exists there
                        check_plan(&plan, cfg, &ts, rep);
                    }
                    if rows == 5 && r == 1 && c == 9 && bg == 1 {
                        rep.sample_space(2, || plan_json(&plan, MCfg::Avx, &ts));
                    }
                }
            }
            let idx = *base;
            *base += 1;
            if !ctx.mine(idx) {
                continue;
            }
            // duplicated maxima: same value in two cells from different column halves / rows
            if rows >= 2 {
                for &(c1, c2) in &[(0usize, 31usize), (7, 8), (8, 16), (15, 16), (23, 24), (3, 3)] {
                    for &(r1, r2) in &[(0usize, rows - 1), (rows - 1, 0), (rows / 2, rows / 2)] {
                        if r1 == r2 && c1 == c2 {
                            continue;
                        }
                        let plan = Plan::<T> { rows, background: bg, planted: vec![(r1, c1, peak(bg)), (r2, c2, peak(bg))] };
                        for &cfg in &cfgs_ {
                            check_plan(&plan, cfg, &ts, rep);
                        }
                    }
                }
            }
        }
        if ctx.out_of_time() {
            rep.cap(format!("planted/{}: wall-clock cap at rows={}", T::NAME, rows));
            return;
        }
    }
}

fn peak_f32(bg: usize) -> f32 {
    match bg {
        0 => -3.5,  // above -inf but negative
        1 => -1.25, // all-negative matrix
        2 => 2.5,
        3 => -0.5, // still negative: the maximum of an all-negative matrix
        4 => 1.0e7,
        _ => -1.0e-4,
    }
}

fn thr_f32(bg: usize, rows: usize) -> Vec<f32> {
    let p = peak_f32(bg);
    let mut v = vec![f32::MIN, p, p + 1.0, (p - 0.125), 1.0e30];
    match bg {
        0 => {}
        1 => v.extend([-5.0, -3.0, -5.5]),
        2 => v.extend([0.0, 1.0, -1.0]),
        3 => v.extend([-1.0, -(rows as f32 * 16.0), -2.5]),
        4 => v.extend([0.0, 0.5, -((rows * 32) as f32) * 0.25]),
        _ => v.extend([-1.0e-3, -2.5e-3, -1.0]),
    }
    v
}

fn peak_u8(bg: usize) -> u8 {
    match bg {
        0 => 200,
        1 => 8,
        2 => 255,
        _ => 201,
    }
}

fn thr_u8(bg: usize, _rows: usize) -> Vec<u8> {
    let p = peak_u8(bg);
    let mut v = vec![0u8, 1, p, p.saturating_sub(1), p.saturating_add(1), 255];
    match bg {
        1 => v.extend([7, 6]),
        2 => v.extend([100, 199, 200]),
        3 => v.extend([50, 199, 200]),
        _ => {}
    }
    v
}

// ---------------------------------------------------------------------------
// tail clause (shares the C01 shape loop)
// ---------------------------------------------------------------------------

/// Tail clause on `ScoringMatrix::reverse_complement()` of the case's matrix (DNA). Returns the first failure with
/// the ORIGINAL case (the replay recomputes the reverse complement through the library).
fn tail_rc(case: &c01::Case, set: &[Cfg]) -> Option<(String, String, c01::Case)> {
    let lib = catch(|| {
        let rc = model::scoring::<Dna>(&case.matrix).reverse_complement();
        rc.matrix().iter().map(|r| r.to_vec()).collect::<Vec<Vec<f32>>>()
    });
    let rows = match lib {
        Ok(r) => r,
        Err(p) => return Some((format!("panic {}", vx_core::util::panic_class(&p)), format!("reverse_complement panicked: {}", p), case.clone())),
    };
    let neg = |m: &Vec<Vec<f32>>| m.iter().all(|r| r[4] == f32::NEG_INFINITY);
    if neg(&case.matrix) && !neg(&rows) {
        let bad = rows.iter().position(|r| r[4] != f32::NEG_INFINITY).unwrap_or(0);
        return Some((
            "wildcard column not -inf".into(),
            format!("the matrix has a -inf wildcard column but row {} of its reverse_complement() holds {} there", bad, rows[bad][4]),
            case.clone(),
        ));
    }
    let rc_case = c01::Case { matrix: rows, origin: format!("{} reverse-complemented by the library", case.origin), ..case.clone() };
    let o = c01::check_case::<Dna>(&rc_case, set, true);
    o.tail_failures.into_iter().next().map(|(sig, msg, cfg)| (format!("{} {}", cfg.map(|c| c.name()).unwrap_or("-"), sig), msg, case.clone()))
}

/// The premise of the tail clause - "the library's conversions produce a -inf wildcard column for backgrounds giving
/// the wildcard zero frequency" - on count data WITH wildcard counts, through both routes (one step; through the weight
/// matrix), followed by the tail clause on the matrices obtained. Returns failures as (signature, message, case).
fn tail_conversions(l: usize, set: &[Cfg]) -> Vec<(String, String, c01::Case)> {
    use lightmotif::dense::DenseMatrix;
    use lightmotif::num::U5;
    use lightmotif::pwm::CountMatrix;
    let mut out = Vec::new();
    // counts in alphabet order A C T G N; every row has wildcard counts
    let menus: [&[[u32; 5]]; 3] = [&[[3, 1, 0, 2, 1]], &[[0, 4, 1, 1, 2], [2, 2, 2, 1, 1]], &[[5, 0, 0, 1, 3], [1, 1, 1, 1, 4], [0, 0, 6, 0, 1]]];
    for rows in menus {
        for route in 0..2usize {
            let built = catch(|| {
                let dm = DenseMatrix::<u32, U5>::from_rows(rows.iter().map(|r| &r[..]).collect::<Vec<_>>());
                let cm = CountMatrix::<Dna>::new(dm).map_err(|_| ()).expect("equal row totals are not required");
                let fm = cm.to_freq(0.1);
                let sm = if route == 0 { fm.to_scoring(None) } else { fm.to_weight(None).to_scoring() };
                sm.matrix().iter().map(|r| r.to_vec()).collect::<Vec<Vec<f32>>>()
            });
            let name = if route == 0 { "to_freq(0.1).to_scoring(None)" } else { "to_freq(0.1).to_weight(None).to_scoring()" };
            let case = |matrix: Vec<Vec<f32>>| c01::Case {
                alpha: "dna",
                seq: model::digit_pattern(l, 5, 1),
                matrix,
                origin: format!("tail/conversion {} of counts {:?} L={}", name, rows, l),
                wrap_override: None,
                spare_rows: 0,
                trimmed_rows: 0,
                cloned: 0,
            };
            match built {
                Err(p) => out.push((format!("conversion panic {}", vx_core::util::panic_class(&p)), format!("{} panicked: {}", name, p), case(vec![]))),
                Ok(m) => {
                    if let Some(i) = m.iter().position(|r| r[4] != f32::NEG_INFINITY) {
                        out.push((
                            "conversion: wildcard column not -inf".into(),
                            format!("{} of counts {:?} (uniform background: wildcard frequency 0): row {} holds {} in the wildcard column", name, rows, i, m[i][4]),
                            case(m.clone()),
                        ));
                        continue;
                    }
                    let c = case(m);
                    let o = c01::check_case::<Dna>(&c, set, true);
                    if let Some((sig, msg, cfg)) = o.tail_failures.into_iter().next() {
                        out.push((format!("conversion {} {}", cfg.map(|c| c.name()).unwrap_or("-"), sig), msg, c));
                    }
                }
            }
        }
    }
    out
}

fn run_tail(ctx: &mut Ctx, rep: &mut Report, base: &mut u64) {
    let lens: Vec<usize> = if ctx.quick() {
        let mut v: Vec<usize> = (0..=130).collect();
        v.extend([991, 992, 993, 1023, 1024, 1025, 1056, 2049]);
        v
    } else {
        let mut v: Vec<usize> = (0..=400).collect();
        v.extend([991, 992, 993, 1023, 1024, 1025, 1056, 2047, 2048, 2049, 8191, 8193]);
        v
    };
    let widths = [1usize, 2, 3, 8, 34];
    for &l in &lens {
        for &m in &widths {
            for kind in ["int", "logodds", "tiny"] {
                for alpha in ["dna", "protein"] {
                    let idx = *base;
                    *base += 1;
                    if !ctx.mine(idx) {
                        continue;
                    }
                    let k = if alpha == "dna" { 5 } else { 21 };
                    let case = c01::Case {
                        alpha: if alpha == "dna" { "dna" } else { "protein" },
                        seq: model::digit_pattern(l, k, 1),
                        matrix: c01::make_matrix(kind, m, k, 0),
                        origin: format!("tail L={} M={} matrix={}", l, m, kind),
                        wrap_override: None,
                        spare_rows: 0,
                        trimmed_rows: 0,
                        cloned: 0,
                    };
                    let set = [Cfg::GenU32, Cfg::GenU4, Cfg::SseU16, Cfg::SseU32, Cfg::AvxU32, Cfg::DispGen, Cfg::DispSse, Cfg::DispAvx];
                    let o = if alpha == "dna" { c01::check_case::<Dna>(&case, &set, true) } else { c01::check_case::<Protein>(&case, &set, true) };
                    for _ in 0..set.len() {
                        rep.eval_distinct(l >= m && l % 32 != 0);
                    }
                    if l == 70 && m == 3 && kind == "int" {
                        rep.sample_space(1, || case.json(None));
                    }
                    for (sig, msg, cfg) in o.tail_failures {
                        rep.violation(format!("C07 tail {} {} {}", alpha, cfg.map(|c| c.name()).unwrap_or("-"), sig), msg, || {
                            let mut j = case.json(cfg);
                            j["kind"] = json!("tail");
                            j
                        });
                    }
                    if alpha == "dna" && kind == "int" && m == 1 && (l <= 70 || l % 31 == 0) {
                        for (sig, msg, c) in tail_conversions(l, &set) {
                            rep.violation(format!("C07 tail dna {}", sig), msg, || {
                                let mut j = c.json(None);
                                j["kind"] = json!("tail_conv");
                                j
                            });
                        }
                        rep.eval_distinct(l >= 1);
                    }
                    // the reverse-strand matrix is one of "the library's conversions": its wildcard column must still be
                    // -inf, and the tail clause must hold when scoring with it
                    if alpha == "dna" && (kind == "logodds" || m <= 3) {
                        if let Some((sig, msg, rc_case)) = tail_rc(&case, &set) {
                            rep.violation(format!("C07 tail dna reverse-complement {}", sig), msg, || {
                                let mut j = rc_case.json(None);
                                j["kind"] = json!("tail_rc");
                                j
                            });
                        }
                        rep.eval_distinct(l >= m);
                    }
                }
            }
        }
        if ctx.out_of_time() {
            rep.cap(format!("tail: wall-clock cap at L={}", l));
            return;
        }
    }
}

pub fn run(ctx: &mut Ctx, rep: &mut Report) {
    let mut base = 0u64;
    if ctx.wants("planted") {
        rep.space(
            "planted",
            "product: element type {f32,u8} x configuration {generic U1,U2,U4,U16,U32,U64; sse2 U16,U32,U48,U64; avx2 U32; dispatcher arms; StripedScores API under each arm; Scores on the unstriped vector} \
             x rows {0..=40,255,256,257,1000 (+64,100,511,2000,5000 thorough)} x background {all -inf, all -5, all 0, descending ramp (all negative), centred ramp, tiny negative ramp | u8: 0, 7, two ramps} \
             x maximum planted at every column of every row (rows<=40) or of first/last 3 rows + stride sweep, plus duplicated maxima across column halves/rows x threshold menu (below all, planted value and neighbours, background values, above all); matrices of <= 8 rows are probed both in a fresh buffer and in a reused buffer that held 3 more rows before (stale rows must be invisible) and whose padding was filled, and (pipeline-level entry points) declared with fewer valid positions than cells, or with none at all; the matrix without rows is also probed with a positive index bound (resize(0, n)), fresh and shrunk from 3 rows; \
             oracle: scalar scan of the cells read back through the public matrix; non-trivial = rows>0; cases distinct by construction",
        );
        run_planted::<f32>(ctx, rep, &mut base, N_BG_F32, peak_f32, thr_f32);
        run_planted::<u8>(ctx, rep, &mut base, N_BG_U8, peak_u8, thr_u8);
    }
    if ctx.wants("tall") {
        rep.space(
            "tall",
            "matrices of 32 767 .. 65 535 rows (16-bit row counters of the vector arg-max kernels; quick: 32 769 and 65 535 rows): element type {f32,u8} x 32-column configurations {generic, sse2, avx2, dispatcher arms, StripedScores API under each arm} \
             x maximum planted at rows {0, 32767, 32768, last} x columns {0, 15, 16, 31}; plus 65 537 rows (one more than the stated limit of the 8-bit vector arg-max) for maximum and thresholding only; same oracle as planted",
        );
        let rows_menu: Vec<usize> = if ctx.quick() { vec![32769, 65535] } else { vec![32767, 32768, 32769, 40000, 65535] };
        let mut cfgs_ = vec![MCfg::Gen(32), MCfg::Sse(32), MCfg::Avx];
        for a in cfgs::FORCED {
            cfgs_.push(MCfg::Arm(a));
        }
        for a in cfgs::FORCED {
            cfgs_.push(MCfg::Api(a));
        }
        for &rows in &rows_menu {
            for &r in &[0usize, 32767, 32768, rows - 1] {
                if r >= rows {
                    continue;
                }
                for &c in &[0usize, 15, 16, 31] {
                    let idx = base;
                    base += 1;
                    if !ctx.mine(idx) {
                        continue;
                    }
                    let pf = Plan::<f32> { rows, background: 1, planted: vec![(r, c, peak_f32(1))] };
                    let tf = vec![peak_f32(1), -4.0];
                    let pu = Plan::<u8> { rows, background: 1, planted: vec![(r, c, peak_u8(1))] };
                    let tu = vec![peak_u8(1), 200];
                    for &cfg in &cfgs_ {
                        check_plan(&pf, cfg, &tf, rep);
                        check_plan(&pu, cfg, &tu, rep);
                    }
                }
            }
            if ctx.out_of_time() {
                rep.cap(format!("tall: wall-clock cap at rows={}", rows));
                break;
            }
        }
        // one row more than the 16-bit limit of the vector arg-max: maximum and thresholding only
        SKIP_ARGMAX.with(|x| x.set(true));
        for &(r, c) in &[(0usize, 3usize), (65535, 16), (65536, 3), (65536, 31)] {
            let idx = base;
            base += 1;
            if !ctx.mine(idx) {
                continue;
            }
            let rows = 65537;
            let pf = Plan::<f32> { rows, background: 1, planted: vec![(r, c, peak_f32(1))] };
            let pu = Plan::<u8> { rows, background: 1, planted: vec![(r, c, peak_u8(1))] };
            for &cfg in &cfgs_ {
                check_plan(&pf, cfg, &[peak_f32(1), -4.0], rep);
                check_plan(&pu, cfg, &[peak_u8(1), 200], rep);
            }
        }
        SKIP_ARGMAX.with(|x| x.set(false));
    }
    if ctx.wants("tail_reuse") {
        rep.space(
            "tail_reuse",
            "clause 2 on REUSED objects: ONE StripedSequence (initially 64 x T) re-striped with sequences of 40, 70 and 0 symbols and ONE score buffer, all operation sequences of length 1..=3 over {stripe_into x 4, configure+score_into for motifs of width 1 and 4 with a -inf wildcard column} ending in a scoring operation, under all 14 configurations; \
             oracle: every float cell past the last valid position of the CURRENT sequence is -inf",
        );
        use crate::cfgs::HOp;
        let ops: Vec<HOp> = tail_reuse_ops();
        let mut stack: Vec<Vec<HOp>> = ops.iter().map(|&o| vec![o]).collect();
        while let Some(h) = stack.pop() {
            if h.len() < 3 {
                for &o in &ops {
                    let mut n = h.clone();
                    n.push(o);
                    stack.push(n);
                }
            }
            if !matches!(h.last().unwrap(), HOp::Score(_)) {
                continue;
            }
            let idx = base;
            base += 1;
            if !ctx.mine(idx) {
                continue;
            }
            for &cfg in cfgs::ALL_CFGS.iter() {
                rep.eval_distinct(true);
                if let Err((sig, msg)) = tail_reuse_one(cfg, &h) {
                    let ops_idx: Vec<usize> = h.iter().map(|o| ops.iter().position(|x| x == o).unwrap()).collect();
                    rep.violation(sig, msg, || json!({"kind": "tail_reuse", "cfg": cfg.name(), "ops": ops_idx, "history": h.iter().map(|o| format!("{:?}", o)).collect::<Vec<_>>()}));
                }
            }
        }
    }
    if ctx.wants("tail") {
        rep.space(
            "tail",
            "clause 2: for matrices whose wildcard column is -inf, every float cell past the last valid position is -inf, the largest cell of the score matrix is the best valid position's score (an empty matrix while a valid position exists is a violation) and StripedScores::max() is that score; \
             for DNA also on ScoringMatrix::reverse_complement() of the matrix (one of the library's conversions: its wildcard column must still be -inf) and on matrices obtained from counts WITH wildcard counts through to_scoring and through to_weight().to_scoring() under the uniform background (the wildcard column must be -inf on both routes); \
             product L (0..=130 + vector/transposition boundaries; thorough 0..=400 + more) x M {1,2,3,8,34} x 3 matrix kinds x {DNA,protein} x 8 configurations incl. dispatcher arms; non-trivial = L>=M and L not a multiple of 32",
        );
        run_tail(ctx, rep, &mut base);
    }
    rep.not_covered("NEON backend");
    rep.note("NaN cells and the >u32::MAX positions / >65536 rows panics of the AVX2 arg-max are outside the stated domain");
}

pub fn replay(_ctx: &mut Ctx, rep: &mut Report, v: &Value) {
    rep.space("replay", "replay of one recorded case");
    match v["kind"].as_str().unwrap_or("planted") {
        "tail_reuse" => {
            let cfg = Cfg::from_name(v["cfg"].as_str().unwrap()).expect("configuration");
            let ops = tail_reuse_ops();
            let h: Vec<cfgs::HOp> = v["ops"].as_array().unwrap().iter().map(|x| ops[x.as_u64().unwrap() as usize]).collect();
            rep.eval_distinct(true);
            if let Err((sig, msg)) = tail_reuse_one(cfg, &h) {
                rep.violation(sig, msg, || v.clone());
            }
        }
        "tail_conv" => {
            // the case is (length of the probe sequence): the count menus and both routes are re-run through the library
            let l = v["len"].as_u64().unwrap_or(0) as usize;
            let set = [Cfg::GenU32, Cfg::GenU4, Cfg::SseU16, Cfg::SseU32, Cfg::AvxU32, Cfg::DispGen, Cfg::DispSse, Cfg::DispAvx];
            rep.eval_distinct(true);
            for (sig, msg, c) in tail_conversions(l, &set) {
                rep.violation(format!("C07 tail dna {}", sig), msg, || c.json(None));
            }
        }
        "tail_rc" => {
            let case = c01::Case::from_json(v);
            let set = [Cfg::GenU32, Cfg::GenU4, Cfg::SseU16, Cfg::SseU32, Cfg::AvxU32, Cfg::DispGen, Cfg::DispSse, Cfg::DispAvx];
            rep.eval_distinct(true);
            if let Some((sig, msg, c)) = tail_rc(&case, &set) {
                rep.violation(format!("C07 tail dna reverse-complement {}", sig), msg, || c.json(None));
            }
        }
        "tail" => {
            let case = c01::Case::from_json(v);
            let set: Vec<Cfg> = match v["cfg"].as_str().and_then(Cfg::from_name) {
                Some(c) => vec![c],
                None => cfgs::ALL_CFGS.to_vec(),
            };
            let o = if case.alpha == "dna" { c01::check_case::<Dna>(&case, &set, true) } else { c01::check_case::<Protein>(&case, &set, true) };
            rep.eval_distinct(true);
            for (sig, msg, cfg) in o.tail_failures {
                rep.violation(format!("C07 tail {} {} {}", case.alpha, cfg.map(|c| c.name()).unwrap_or("-"), sig), msg, || case.json(cfg));
            }
        }
        _ => {
            let cfg = MCfg::from_name(v["cfg"].as_str().unwrap()).unwrap();
            fn go<T: El + Runner<T>>(v: &Value, cfg: MCfg, rep: &mut Report) {
                let plan = Plan::<T> {
                    rows: v["rows"].as_u64().unwrap() as usize,
                    background: v["background"].as_u64().unwrap() as usize,
                    planted: v["planted"]
                        .as_array()
                        .unwrap()
                        .iter()
                        .map(|p| (p[0].as_u64().unwrap() as usize, p[1].as_u64().unwrap() as usize, T::from_json(&p[2])))
                        .collect(),
                };
                let ts: Vec<T> = v["thresholds"].as_array().unwrap().iter().map(T::from_json).collect();
                check_plan(&plan, cfg, &ts, rep);
                let _ = v["shrunk_buffer"].as_bool();
            }
            if v["type"].as_str().unwrap() == "f32" {
                go::<f32>(v, cfg, rep)
            } else {
                go::<u8>(v, cfg, rep)
            }
        }
    }
    let _ = MatrixCoordinates::new(0, 0);
}
