//! vx: one binary, one sub-command per property.  Invoked by /verif/bin/check.
//!
//!   vx <PROP> --tier quick|thorough --shard i/n --out report.json
//!             [--seed N] [--wall SECS] [--only space[,space]] [--breadcrumb FILE]
//!             [--profile NAME] [--replay case.json]

use std::time::Duration;

use serde_json::Value;
use vx_core::{Ctx, Report, Tier};

mod cfgs;
mod model;

mod c01;
mod c04;
mod c05;
mod c19;

fn usage() -> ! {
    eprintln!("usage: vx <PROP> --tier quick|thorough --shard i/n --out FILE [--seed N] [--wall SECS] [--only S] [--breadcrumb F] [--profile P] [--replay FILE]");
    std::process::exit(2);
}

fn main() {
    let args: Vec<String> = std::env::args().collect();
    if args.len() < 2 {
        usage();
    }
    let prop = args[1].clone();
    let mut tier = Tier::Quick;
    let mut shard = (0usize, 1usize);
    let mut out: Option<String> = None;
    let mut seed = 0u64;
    let mut wall = 3600u64;
    let mut only = None;
    let mut breadcrumb = None;
    let mut profile = "rel".to_string();
    let mut replay: Option<String> = None;
    let mut i = 2;
    while i < args.len() {
        let a = args[i].as_str();
        let mut val = || {
            i += 1;
            args.get(i).cloned().unwrap_or_else(|| usage())
        };
        match a {
            "--tier" => {
                tier = match val().as_str() {
                    "quick" => Tier::Quick,
                    "thorough" => Tier::Thorough,
                    _ => usage(),
                }
            }
            "--shard" => {
                let v = val();
                let (a, b) = v.split_once('/').unwrap_or_else(|| usage());
                shard = (a.parse().unwrap(), b.parse().unwrap());
            }
            "--out" => out = Some(val()),
            "--seed" => seed = val().parse().unwrap_or(0),
            "--wall" => wall = val().parse().unwrap(),
            "--only" => only = Some(val()),
            "--breadcrumb" => breadcrumb = Some(std::path::PathBuf::from(val())),
            "--profile" => profile = val(),
            "--replay" => replay = Some(val()),
            _ => usage(),
        }
        i += 1;
    }

    vx_core::util::install_panic_hook();
    let mut ctx = Ctx::new(tier, shard.0, shard.1, seed, Duration::from_secs(wall));
    ctx.only = only;
    ctx.breadcrumb = breadcrumb;
    ctx.profile = profile;
    let mut rep = Report::new(&prop);

    if let Some(path) = replay {
        let text = std::fs::read_to_string(&path).expect("cannot read replay file");
        let v: Value = serde_json::from_str(&text).expect("replay file is not JSON");
        let case = v.get("case").cloned().unwrap_or(v);
        dispatch_replay(&prop, &mut ctx, &mut rep, &case);
    } else {
        dispatch(&prop, &mut ctx, &mut rep);
    }

    let js = rep.to_json(ctx.capped);
    let text = serde_json::to_string(&js).unwrap();
    match out {
        Some(p) => std::fs::write(p, text).expect("cannot write report"),
        None => println!("{}", text),
    }
}

fn dispatch(prop: &str, ctx: &mut Ctx, rep: &mut Report) {
    match prop {
        "C01" => c01::run(ctx, rep),
        "C04" => c04::run(ctx, rep),
        "C05" => c05::run(ctx, rep),
        "C19" => c19::run(ctx, rep),
        _ => {
            eprintln!("unknown property {}", prop);
            std::process::exit(2);
        }
    }
}

fn dispatch_replay(prop: &str, ctx: &mut Ctx, rep: &mut Report, case: &Value) {
    match prop {
        "C01" => c01::replay(ctx, rep, case),
        "C04" => c04::replay(ctx, rep, case),
        "C05" => c05::replay(ctx, rep, case),
        "C19" => c19::replay(ctx, rep, case),
        _ => {
            eprintln!("unknown property {}", prop);
            std::process::exit(2);
        }
    }
}
