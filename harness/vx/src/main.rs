//! vx: checkers for the core library properties.  Invoked by /verif/bin/check.

mod cfgs;
mod model;

mod c01;
mod c02;
mod c04;
mod c05;
mod c06;
mod c07;
mod c08;
mod c16;
mod c19;

fn main() {
    vx_core::cli::main(
        |prop, ctx, rep| {
            match prop {
                "C01" => c01::run(ctx, rep),
                "C02" => c02::run_c02(ctx, rep),
                "C03" => c02::run_c03(ctx, rep),
                "C04" => c04::run(ctx, rep),
                "C05" => c05::run(ctx, rep),
                "C06" => c06::run(ctx, rep),
                "C07" => c07::run(ctx, rep),
                "C08" => c08::run(ctx, rep),
                "C16" => c16::run(ctx, rep),
                "C19" => c19::run(ctx, rep),
                _ => return false,
            }
            true
        },
        |prop, ctx, rep, case| {
            match prop {
                "C01" => c01::replay(ctx, rep, case),
                "C02" => c02::replay_c02(ctx, rep, case),
                "C03" => c02::replay_c03(ctx, rep, case),
                "C04" => c04::replay(ctx, rep, case),
                "C05" => c05::replay(ctx, rep, case),
                "C06" => c06::replay(ctx, rep, case),
                "C07" => c07::replay(ctx, rep, case),
                "C08" => c08::replay(ctx, rep, case),
                "C16" => c16::replay(ctx, rep, case),
                "C19" => c19::replay(ctx, rep, case),
                _ => return false,
            }
            true
        },
    );
}
