//! C16 — Gibbs sampler state always equals a recomputation from its alignment (DESIGN §C16).
//!
//! Explicit-state BFS over the real `Sampler` driven by a scripted RNG. A state is the history of
//! RNG fractions reaching it (re-executed on a fresh sampler); every outcome of every draw is
//! enumerated: integer draws (initial starts, seed choice, hold-out) directly by mid-bucket
//! fractions, the weighted draw of the new start by monotone bisection on the 53-bit grid.

use std::cell::RefCell;
use std::collections::{HashMap, HashSet, VecDeque};
use std::rc::Rc;

use lightmotif::abc::{Alphabet, Dna, Protein, Symbol};
use lightmotif::num::U32;
use lightmotif::pli::platform::Generic;
use lightmotif::pli::{Pipeline, Stripe};
use lightmotif::sampler::{SamplerBuilder, SamplerData, SamplerMode, VerifState};
use lightmotif::seq::StripedSequence;
use lightmotif::verif::Forced;
use rand::RngCore;
use serde_json::{json, Value};
use vx_core::{catch, fnv1a, Ctx, Report};

use crate::cfgs::{self, with_arm};
use crate::model;

// ---------------------------------------------------------------------------
// scripted RNG
// ---------------------------------------------------------------------------

#[derive(Default)]
struct Script {
    /// fractions for the current segment
    fr: Vec<f64>,
    pos: usize,
    /// draws beyond the segment (answered with 0.5): rejection re-draws or unexpected consumers
    overrun: usize,
}

#[derive(Clone)]
struct ScriptRng(Rc<RefCell<Script>>);

impl ScriptRng {
    fn new() -> Self {
        ScriptRng(Rc::new(RefCell::new(Script::default())))
    }
    fn load(&self, fr: &[f64]) {
        let mut s = self.0.borrow_mut();
        s.fr = fr.to_vec();
        s.pos = 0;
    }
    fn used(&self) -> usize {
        self.0.borrow().pos
    }
    fn overrun(&self) -> usize {
        self.0.borrow().overrun
    }
    fn frac(&self) -> f64 {
        let mut s = self.0.borrow_mut();
        let f = if s.pos < s.fr.len() {
            s.fr[s.pos]
        } else {
            s.overrun += 1;
            0.5
        };
        s.pos += 1;
        f
    }
}

impl RngCore for ScriptRng {
    fn next_u32(&mut self) -> u32 {
        (self.next_u64() >> 32) as u32
    }
    fn next_u64(&mut self) -> u64 {
        let f = self.frac();
        debug_assert!((0.0..1.0).contains(&f));
        // f has 53 significant bits; f * 2^64 is exact in f64 and < 2^64
        (f * 18446744073709551616.0) as u64
    }
    fn fill_bytes(&mut self, dest: &mut [u8]) {
        for chunk in dest.chunks_mut(8) {
            let v = self.next_u64().to_le_bytes();
            chunk.copy_from_slice(&v[..chunk.len()]);
        }
    }
    fn try_fill_bytes(&mut self, dest: &mut [u8]) -> Result<(), rand::Error> {
        self.fill_bytes(dest);
        Ok(())
    }
}

// ---------------------------------------------------------------------------
// datasets / parameters
// ---------------------------------------------------------------------------

#[derive(Clone, Debug)]
pub struct Dataset {
    pub alpha: &'static str,
    pub seqs: Vec<Vec<u8>>,
    pub width: usize,
    /// when set, the cells of the striped sequence rows past the sequence end hold this symbol rank instead
    /// of the wildcard (as in `StripedSequence::sample`, which fills them with random symbols)
    pub pad: Option<u8>,
    /// look-ahead rows the sequences were configured with BEFORE being configured for this run (sequence
    /// objects reused after a run with a narrower motif)
    pub pre_wrap: Option<usize>,
    /// spare sequence rows of hand-built striped sequences (StripedSequence::new accepts any matrix large enough)
    pub spare: usize,
}

#[derive(Clone, Debug, PartialEq)]
pub struct Params {
    pub zoops: bool,
    pub seeds: usize,
    pub inertia: usize,
    pub patience: usize,
}

pub fn datasets(quick: bool) -> Vec<Dataset> {
    let mut v = vec![
        // DNA ranks: A=0 C=1 T=2 G=3 N=4
        Dataset { alpha: "dna", seqs: vec![vec![0, 1, 2, 3, 0], vec![3, 3, 1, 0, 2, 2], vec![2, 4, 0, 1, 1]], width: 2, pad: None, pre_wrap: None, spare: 0 },
        Dataset { alpha: "dna", seqs: vec![vec![0, 1, 2, 3], vec![1, 1, 1, 1, 2], vec![3, 0, 3, 0, 4, 1], vec![2, 2, 0, 1]], width: 3, pad: None, pre_wrap: None, spare: 0 },
        Dataset { alpha: "protein", seqs: vec![vec![0, 5, 9, 20, 3], vec![9, 9, 0, 17], vec![19, 18, 0, 5, 9, 9]], width: 2, pad: None, pre_wrap: None, spare: 0 },
        // degenerate weights: every window of sequence 1 (all G) contains a symbol with zero background frequency in the
        // other sequences, so the weighted draw cannot be built and the start must be kept (no draw consumed);
        // sequence 2 is hard-masked (N in every window of width 2)
        Dataset { alpha: "dna", seqs: vec![vec![0, 0, 1, 1, 0], vec![3, 3, 3, 3, 3], vec![4, 2, 4, 0, 4, 1]], width: 2, pad: None, pre_wrap: None, spare: 0 },
        // padding cells of the striped rows hold A, not the wildcard (StripedSequence::new / ::sample build such sequences)
        Dataset { alpha: "dna", seqs: vec![vec![0, 1, 2, 3, 0], vec![3, 3, 1, 0, 2, 2], vec![2, 4, 0, 1, 1]], width: 2, pad: Some(0), pre_wrap: None, spare: 0 },
        // the same for protein sequences (scored by another AVX2 kernel than DNA)
        Dataset { alpha: "protein", seqs: vec![vec![0, 5, 9, 20, 3], vec![9, 9, 0, 17], vec![19, 18, 0, 5, 9, 9]], width: 2, pad: Some(0), pre_wrap: None, spare: 0 },
        // sequence objects that were configured for a narrower motif before (a second sampler run on the same data)
        Dataset { alpha: "dna", seqs: vec![vec![0, 1, 2, 3], vec![1, 1, 1, 1, 2], vec![3, 0, 3, 0, 4, 1], vec![2, 2, 0, 1]], width: 3, pad: None, pre_wrap: Some(1), spare: 0 },
        // hand-built striped sequences with 2 spare sequence rows
        Dataset { alpha: "dna", seqs: vec![vec![0, 1, 2, 3, 0], vec![3, 3, 1, 0, 2, 2], vec![2, 4, 0, 1, 1]], width: 2, pad: None, pre_wrap: None, spare: 2 },
    ];
    if !quick {
        v.push(Dataset { alpha: "dna", seqs: vec![vec![0, 1, 2, 3, 0, 1, 2], vec![3, 3, 1, 0, 2, 2], vec![2, 4, 0, 1, 1], vec![0, 0, 0, 3, 3]], width: 2, pad: None, pre_wrap: None, spare: 0 });
        v.push(Dataset { alpha: "protein", seqs: vec![vec![0, 5, 9, 20, 3, 3], vec![9, 9, 0, 17, 1], vec![19, 18, 0, 5, 9, 9], vec![4, 4, 4, 20, 4]], width: 3, pad: None, pre_wrap: None, spare: 0 });
        v.push(Dataset { alpha: "dna", seqs: vec![vec![0, 1, 2, 3, 0, 4, 4], vec![1, 2, 3, 0, 1, 2, 3], vec![3, 2, 1, 0, 3, 2, 1]], width: 3, pad: None, pre_wrap: None, spare: 0 });
    }
    v
}

pub fn param_sets(quick: bool) -> Vec<Params> {
    let mut v = vec![
        Params { zoops: false, seeds: 0, inertia: 0, patience: 0 },
        Params { zoops: true, seeds: 2, inertia: 0, patience: 1 },
        Params { zoops: true, seeds: 2, inertia: 2, patience: 3 },
    ];
    if !quick {
        v.push(Params { zoops: true, seeds: 2, inertia: 2, patience: 1 });
        v.push(Params { zoops: true, seeds: 2, inertia: 0, patience: 3 });
        v.push(Params { zoops: true, seeds: 3, inertia: 1, patience: 2 });
    }
    v
}

// ---------------------------------------------------------------------------
// one re-execution
// ---------------------------------------------------------------------------

#[derive(Clone, Debug, PartialEq)]
struct Public {
    count_matrix: Vec<Vec<u32>>,
    sequence_count: usize,
    background: Result<Vec<u32>, String>, // f32 bits
    active_sequences: Vec<usize>,
    active_starts: Vec<usize>,
}

#[derive(Clone, Debug, PartialEq)]
struct StepObs {
    pre: VerifState,
    /// None when next() returned None (converged)
    it: Option<(usize, usize, Vec<Vec<u32>>, u64)>, // z, step, counts, pssm hash
    post: VerifState,
    public: Public,
    draws: usize,
}

#[derive(Clone, Debug, PartialEq)]
pub struct RunObs {
    init: VerifState,
    init_public: Public,
    init_draws: usize,
    steps: Vec<StepObs>,
    overrun: usize,
}

fn public_of<A: Alphabet>(s: &lightmotif::sampler::Sampler<'_, ScriptRng, A, &Vec<StripedSequence<A, U32>>, U32>) -> Public {
    let cm = s.count_matrix();
    let bg = catch(|| s.background().frequencies().iter().map(|f| f.to_bits()).collect::<Vec<u32>>());
    Public {
        count_matrix: cm.matrix().iter().map(|r| r.to_vec()).collect(),
        sequence_count: cm.sequence_count(),
        background: bg,
        active_sequences: s.active_sequences(),
        active_starts: s.active_starts(),
    }
}

fn run_typed<A: Alphabet>(ds: &Dataset, pr: &Params, arm: Forced, init_fr: &[f64], steps: &[[f64; 2]]) -> RunObs
where
    Pipeline<A, lightmotif::pli::dispatch::Dispatch>: lightmotif::pli::Score<f32, A, U32>,
{
    with_arm(arm, || {
        let striped: Vec<StripedSequence<A, U32>> = ds
            .seqs
            .iter()
            .map(|s| {
                let mut st: StripedSequence<A, U32> = Pipeline::<A, Generic>::generic().stripe(model::to_symbols::<A>(s));
                if let Some(padsym) = ds.pad {
                    let len = st.len();
                    let sym = model::to_symbols::<A>(&[padsym])[0];
                    let mut m = st.into_matrix();
                    let rows = m.rows();
                    for r in 0..rows {
                        for c in 0..32 {
                            if c * rows + r >= len {
                                m[r][c] = sym;
                            }
                        }
                    }
                    st = StripedSequence::new(m, len).expect("StripedSequence::new rejects a matrix of the right size");
                }
                if ds.spare > 0 {
                    st = crate::cfgs::respread(st, &model::to_symbols::<A>(s), ds.spare);
                }
                if let Some(w) = ds.pre_wrap {
                    st.configure_wrap(w);
                }
                st.configure_wrap(ds.width);
                st
            })
            .collect();
        let data = SamplerData::new(&striped);
        let mut b = SamplerBuilder::new(&data);
        b.width(ds.width);
        if pr.zoops {
            b.mode(SamplerMode::Zoops).seeds(pr.seeds).inertia(pr.inertia).patience(pr.patience);
        } else {
            b.mode(SamplerMode::Oops);
        }
        let rng = ScriptRng::new();
        rng.load(init_fr);
        let mut sampler = b.sample(rng.clone());
        let public = public_of::<A>;
        let mut obs = RunObs {
            init: sampler.verif_state(),
            init_public: public(&sampler),
            init_draws: rng.used(),
            steps: Vec::new(),
            overrun: 0,
        };
        for st in steps {
            let pre = sampler.verif_state();
            rng.load(&st[..]);
            let it = sampler.next();
            let draws = rng.used();
            let post = sampler.verif_state();
            obs.steps.push(StepObs {
                pre,
                it: it.map(|i| {
                    let counts: Vec<Vec<u32>> = i.counts.matrix().iter().map(|r| r.to_vec()).collect();
                    let mut bytes = Vec::new();
                    for row in i.pssm.matrix().iter() {
                        for x in row {
                            bytes.extend_from_slice(&x.to_bits().to_le_bytes());
                        }
                    }
                    (i.z, i.step, counts, fnv1a(&bytes))
                }),
                post,
                public: public(&sampler),
                draws,
            });
        }
        obs.overrun = rng.overrun();
        obs
    })
}

pub fn run_ds(ds: &Dataset, pr: &Params, arm: Forced, init_fr: &[f64], steps: &[[f64; 2]]) -> Result<RunObs, String> {
    catch(|| {
        if ds.alpha == "dna" {
            run_typed::<Dna>(ds, pr, arm, init_fr, steps)
        } else {
            run_typed::<Protein>(ds, pr, arm, init_fr, steps)
        }
    })
}

// ---------------------------------------------------------------------------
// oracle: recomputation from the alignment
// ---------------------------------------------------------------------------

fn k_of(ds: &Dataset) -> usize {
    if ds.alpha == "dna" {
        5
    } else {
        21
    }
}

/// Counts of the width-long windows at `starts` of the sequences in `active`.
fn recount(ds: &Dataset, starts: &[usize], active: &[bool], skip: Option<usize>) -> (Vec<Vec<u32>>, Vec<usize>) {
    let k = k_of(ds);
    let mut motif = vec![vec![0u32; k]; ds.width];
    let mut bg = vec![0usize; k];
    for (i, seq) in ds.seqs.iter().enumerate() {
        if !active[i] || Some(i) == skip {
            continue;
        }
        for (p, &s) in seq.iter().enumerate() {
            if p >= starts[i] && p < starts[i] + ds.width {
                motif[p - starts[i]][s as usize] += 1;
            } else {
                bg[s as usize] += 1;
            }
        }
    }
    (motif, bg)
}

fn check_state(ds: &Dataset, st: &VerifState, public: &Public) -> Result<(), (String, String)> {
    let n = ds.seqs.len();
    if st.starts.len() != n || st.active.len() != n {
        return Err(("shape".into(), "state vectors have the wrong length".into()));
    }
    for i in 0..n {
        if st.starts[i] + ds.width > ds.seqs[i].len() {
            return Err((
                "start out of range".into(),
                format!("sequence {} (length {}) has start {} with width {}: the window leaves the sequence", i, ds.seqs[i].len(), st.starts[i], ds.width),
            ));
        }
    }
    let want_active: Vec<usize> = (0..n).filter(|&i| st.active[i]).collect();
    if public.active_sequences != want_active {
        return Err(("active_sequences".into(), format!("active_sequences() = {:?}, internal mask says {:?}", public.active_sequences, want_active)));
    }
    let want_starts: Vec<usize> = want_active.iter().map(|&i| st.starts[i]).collect();
    if public.active_starts != want_starts {
        return Err(("active_starts".into(), format!("active_starts() = {:?}, expected {:?} (starts of the active sequences {:?})", public.active_starts, want_starts, want_active)));
    }
    // the reported alignment
    let mut act = vec![false; n];
    let mut starts = vec![0usize; n];
    for (j, &i) in public.active_sequences.iter().enumerate() {
        if i >= n {
            return Err(("active index".into(), format!("active sequence index {} out of range", i)));
        }
        act[i] = true;
        starts[i] = public.active_starts[j];
    }
    let (motif, bg) = recount(ds, &starts, &act, None);
    if public.count_matrix != motif {
        return Err((
            "count matrix drift".into(),
            format!("count_matrix() = {:?} but recounting the windows at starts {:?} of sequences {:?} gives {:?}", public.count_matrix, public.active_starts, public.active_sequences, motif),
        ));
    }
    if public.sequence_count != want_active.len() {
        return Err(("sequence count".into(), format!("count matrix claims {} sequences, {} are active", public.sequence_count, want_active.len())));
    }
    let total: usize = bg.iter().sum();
    match &public.background {
        Ok(bits) => {
            if total == 0 {
                return Err(("background".into(), "background() returned frequencies although no symbol lies outside the windows".into()));
            }
            let want: Vec<u32> = bg.iter().map(|&c| (c as f32 / total as f32).to_bits()).collect();
            if *bits != want {
                let got: Vec<f32> = bits.iter().map(|b| f32::from_bits(*b)).collect();
                return Err((
                    "background drift".into(),
                    format!("background() = {:?} but the symbol counts outside the windows are {:?} (total {})", got, bg, total),
                ));
            }
        }
        Err(p) => {
            if total > 0 {
                return Err(("background panic".into(), format!("background() panicked ({}) although {} symbols lie outside the windows", p, total)));
            }
        }
    }
    // hook view must agree with the public view (sanity of the hook itself)
    if st.motif != public.count_matrix {
        return Err(("hook mismatch".into(), "internal motif differs from count_matrix()".into()));
    }
    if st.background_counts != bg {
        return Err(("background drift".into(), format!("internal background counts {:?}, recount {:?}", st.background_counts, bg)));
    }
    Ok(())
}

fn check_step(ds: &Dataset, pr: &Params, s: &StepObs) -> Result<(), (String, String)> {
    match &s.it {
        None => {
            if !s.pre.converged {
                return Err(("premature end".into(), "next() returned None although the sampler had not converged".into()));
            }
            if s.post != s.pre {
                return Err(("state after end".into(), "state changed by a next() that returned None".into()));
            }
        }
        Some((z, step, counts, _)) => {
            let n = ds.seqs.len();
            if *z >= n {
                return Err(("z out of range".into(), format!("held-out sequence {} of {}", z, n)));
            }
            if *step != s.pre.step || s.post.step != s.pre.step + 1 {
                return Err(("step counter".into(), format!("iteration reports step {}, state went {} -> {}", step, s.pre.step, s.post.step)));
            }
            if pr.zoops && s.pre.step < pr.inertia && !s.pre.seed.contains(z) {
                return Err(("holdout outside seeds".into(), format!("step {} < inertia {} but held-out {} is not a seed {:?}", s.pre.step, pr.inertia, z, s.pre.seed)));
            }
            // counts reported with the iteration: alignment of the pre-step state without z
            let (want, _) = recount(ds, &s.pre.starts, &s.pre.active, Some(*z));
            if *counts != want {
                return Err((
                    "iteration counts".into(),
                    format!("iteration counts {:?} but the alignment without sequence {} (starts {:?}, active {:?}) gives {:?}", counts, z, s.pre.starts, s.pre.active, want),
                ));
            }
            // only sequence z may move
            for i in 0..n {
                if i != *z && s.post.starts[i] != s.pre.starts[i] {
                    return Err(("foreign start moved".into(), format!("start of sequence {} changed while {} was held out", i, z)));
                }
                if i != *z && s.post.active[i] != s.pre.active[i] {
                    return Err(("foreign activity changed".into(), format!("activity of sequence {} changed while {} was held out", i, z)));
                }
            }
            if !pr.zoops && !s.post.active.iter().all(|&a| a) {
                return Err(("oops inactive".into(), "a sequence became inactive in one-occurrence-per-sequence mode".into()));
            }
        }
    }
    check_state(ds, &s.post, &s.public)
}

// ---------------------------------------------------------------------------
// exploration
// ---------------------------------------------------------------------------

type Key = (Vec<usize>, Vec<bool>, usize, usize, bool);

fn key_of(pr: &Params, st: &VerifState) -> Key {
    if pr.zoops {
        (
            st.starts.clone(),
            st.active.clone(),
            st.step.min(pr.inertia),
            (st.step - st.last_inclusion.min(st.step)).min(pr.patience + 1),
            st.converged,
        )
    } else {
        (st.starts.clone(), st.active.clone(), 0, 0, false)
    }
}

#[derive(Clone, Debug)]
pub struct Hist {
    init: Vec<f64>,
    steps: Vec<[f64; 2]>,
}

fn hist_json(ds: &Dataset, pr: &Params, arm: Forced, h: &Hist) -> Value {
    json!({
        "alphabet": ds.alpha,
        "sequences": ds.seqs,
        "padding_symbol": ds.pad,
        "pre_wrap": ds.pre_wrap,
        "spare_rows": ds.spare,
        "width": ds.width,
        "mode": if pr.zoops { "zoops" } else { "oops" },
        "seeds": pr.seeds, "inertia": pr.inertia, "patience": pr.patience,
        "arm": cfgs::arm_name(arm),
        // fractions are stored as exact bit patterns too
        "init_fractions": h.init,
        "init_bits": h.init.iter().map(|f| f.to_bits().to_string()).collect::<Vec<_>>(),
        "step_fractions": h.steps.iter().map(|s| vec![s[0], s[1]]).collect::<Vec<_>>(),
        "step_bits": h.steps.iter().map(|s| vec![s[0].to_bits().to_string(), s[1].to_bits().to_string()]).collect::<Vec<_>>(),
    })
}

/// All initial fraction vectors: mid-bucket fractions for every start draw and every seed draw.
fn initial_scripts(ds: &Dataset, pr: &Params) -> Vec<Vec<f64>> {
    let mut ranges: Vec<usize> = ds.seqs.iter().map(|s| s.len() - ds.width + 1).collect();
    if pr.zoops {
        // rand 0.8.8 index::sample -> Floyd: gen_range(0..=j) for j in length-amount..length
        let length = ds.seqs.len();
        let amount = pr.seeds.min(length);
        for j in length - amount..length {
            ranges.push(j + 1);
        }
    }
    let mut out = vec![vec![]];
    for &n in &ranges {
        let mut next = Vec::new();
        for pre in &out {
            for k in 0..n {
                let mut v: Vec<f64> = pre.clone();
                v.push((k as f64 + 0.25) / n as f64);
                next.push(v);
            }
        }
        out = next;
    }
    out
}

struct Explorer<'a> {
    ds: &'a Dataset,
    pr: &'a Params,
    arm: Forced,
    rep: &'a mut Report,
    states: u64,
    transitions: u64,
    probes: u64,
    max_depth: u64,
    machinery: Vec<String>,
}

impl<'a> Explorer<'a> {
    fn sig(&self, s: &str) -> String {
        format!("C16 {} {} {} {}", self.ds.alpha, if self.pr.zoops { "zoops" } else { "oops" }, cfgs::arm_name(self.arm), s)
    }

    fn fail(&mut self, h: &Hist, sig: String, msg: String) {
        let (ds, pr, arm) = (self.ds, self.pr, self.arm);
        let s = self.sig(&sig);
        self.rep.violation(s, msg, || hist_json(ds, pr, arm, h));
    }

    /// The drawn start of the held-out sequence for the last step of `h` (the bisection observable).
    fn probe(&mut self, h: &Hist) -> Result<(usize, usize, RunObs), String> {
        self.probes += 1;
        let (ds, pr, arm) = (self.ds, self.pr, self.arm);
        if !vx_core::util::crumb_bfs(|| json!({"module": "C16", "case": hist_json(ds, pr, arm, h)}).to_string()) {
            return Err("skipped (crashed in an earlier run of this shard)".into());
        }
        let r = run_ds(self.ds, self.pr, self.arm, &h.init, &h.steps)?;
        let last = r.steps.last().unwrap();
        let z = last.it.as_ref().map(|i| i.0).unwrap_or(usize::MAX);
        let start = if z == usize::MAX { usize::MAX } else { last.post.starts[z] };
        Ok((z, start, r))
    }

    fn explore(&mut self, deadline: std::time::Instant, max_depth: usize) -> bool {
        let inits = initial_scripts(self.ds, self.pr);
        let mut seen: HashSet<Key> = HashSet::new();
        let mut frontier: VecDeque<Hist> = VecDeque::new();
        let mut init_states: HashSet<(Vec<usize>, Vec<usize>)> = HashSet::new();
        for init in inits {
            let h = Hist { init: init.clone(), steps: vec![] };
            self.transitions += 1;
            match run_ds(self.ds, self.pr, self.arm, &init, &[]) {
                Err(p) => {
                    self.fail(&h, format!("panic {}", vx_core::util::panic_class(&p)), format!("panic while constructing the sampler: {}", p));
                    continue;
                }
                Ok(r) => {
                    if r.overrun > 0 || r.init_draws != init.len() {
                        self.machinery.push(format!("constructor consumed {} draws, script has {} (overrun {})", r.init_draws, init.len(), r.overrun));
                    }
                    if let Err((sig, msg)) = check_state(self.ds, &r.init, &r.init_public) {
                        self.fail(&h, format!("initial {}", sig), msg);
                        continue;
                    }
                    let mut sd = r.init.seed.clone();
                    sd.sort();
                    init_states.insert((r.init.starts.clone(), sd));
                    if seen.insert(key_of(self.pr, &r.init)) {
                        self.states += 1;
                        frontier.push_back(h);
                    }
                }
            }
        }
        // coverage self-check: every start vector x every seed subset must have been produced
        let nstarts: usize = self.ds.seqs.iter().map(|s| s.len() - self.ds.width + 1).product();
        let nsub = if self.pr.zoops { binom(self.ds.seqs.len(), self.pr.seeds.min(self.ds.seqs.len())) } else { 1 };
        if init_states.len() != nstarts * nsub {
            self.machinery.push(format!("initial-state enumeration produced {} (starts, seed set) pairs, expected {} x {}", init_states.len(), nstarts, nsub));
        }

        let n = self.ds.seqs.len();
        while let Some(h) = frontier.pop_front() {
            if std::time::Instant::now() > deadline {
                return false;
            }
            if h.steps.len() >= max_depth {
                self.rep.cap(format!("C16: depth horizon {} reached", max_depth));
                continue;
            }
            // which hold-out draws exist in this state?
            let pre = match run_ds(self.ds, self.pr, self.arm, &h.init, &h.steps) {
                Ok(r) => r.steps.last().map(|s| s.post.clone()).unwrap_or(r.init),
                Err(_) => continue,
            };
            if pre.converged {
                // terminal: one more next() must return None and change nothing
                let mut hh = h.clone();
                hh.steps.push([0.5, 0.5]);
                self.transitions += 1;
                match run_ds(self.ds, self.pr, self.arm, &hh.init, &hh.steps) {
                    Err(p) => self.fail(&hh, format!("panic {}", vx_core::util::panic_class(&p)), format!("panic: {}", p)),
                    Ok(r) => {
                        if let Err((sig, msg)) = check_step(self.ds, self.pr, r.steps.last().unwrap()) {
                            self.fail(&hh, sig, msg);
                        }
                    }
                }
                continue;
            }
            let nz = if self.pr.zoops && pre.step < self.pr.inertia { pre.seed.len() } else { n };
            let mut zs_seen = HashSet::new();
            let mut panicked = false;
            for kz in 0..nz {
                // a quarter into the bucket: rand's single-sample rejection zone is conservative for power-of-two ranges
                let f1 = (kz as f64 + 0.25) / nz as f64;
                // ---- enumerate every outcome of the weighted draw by monotone bisection ----
                let mut reps: Vec<(usize, f64)> = Vec::new(); // (drawn start, representative fraction)
                let lo_f = 0.0f64;
                let hi_f = 1.0 - 2f64.powi(-53);
                let mut stack: Vec<(f64, usize, f64, usize)> = Vec::new();
                let mut hl = h.clone();
                hl.steps.push([f1, lo_f]);
                let lo = match self.probe(&hl) {
                    Ok(x) => x,
                    Err(p) => {
                        self.transitions += 1;
                        panicked = true;
                        self.fail(&hl, format!("panic {}", vx_core::util::panic_class(&p)), format!("panic: {}", p));
                        continue;
                    }
                };
                zs_seen.insert(lo.0);
                let mut hh = h.clone();
                hh.steps.push([f1, hi_f]);
                let hi = match self.probe(&hh) {
                    Ok(x) => x,
                    Err(p) => {
                        self.transitions += 1;
                        self.fail(&hh, format!("panic {}", vx_core::util::panic_class(&p)), format!("panic: {}", p));
                        continue;
                    }
                };
                reps.push((lo.1, lo_f));
                if hi.1 != lo.1 {
                    reps.push((hi.1, hi_f));
                    stack.push((lo_f, lo.1, hi_f, hi.1));
                }
                let mut broke = false;
                while let Some((a, oa, b, ob)) = stack.pop() {
                    if ob < oa {
                        self.machinery.push(format!("weighted draw not monotone: f={} -> {}, f={} -> {}", a, oa, b, ob));
                        broke = true;
                        break;
                    }
                    // adjacent integers: nothing can hide in between; adjacent grid points: done
                    if ob - oa <= 1 {
                        continue;
                    }
                    let mid = ((a + b) * 0.5 * 9007199254740992.0).floor() / 9007199254740992.0;
                    if mid <= a || mid >= b {
                        continue;
                    }
                    let mut hm = h.clone();
                    hm.steps.push([f1, mid]);
                    match self.probe(&hm) {
                        Ok((_, om, _)) => {
                            if om != oa && om != ob {
                                reps.push((om, mid));
                            }
                            if om != oa {
                                stack.push((a, oa, mid, om));
                            }
                            if om != ob {
                                stack.push((mid, om, b, ob));
                            }
                        }
                        Err(p) => {
                            self.transitions += 1;
                            self.fail(&hm, format!("panic {}", vx_core::util::panic_class(&p)), format!("panic: {}", p));
                            broke = true;
                            break;
                        }
                    }
                }
                if broke {
                    continue;
                }
                // ---- one checked transition per distinct outcome ----
                reps.sort_by(|x, y| x.0.cmp(&y.0));
                reps.dedup_by(|x, y| x.0 == y.0);
                for (_, f2) in reps {
                    let mut hn = h.clone();
                    hn.steps.push([f1, f2]);
                    self.transitions += 1;
                    self.max_depth = self.max_depth.max(hn.steps.len() as u64);
                    let r1 = run_ds(self.ds, self.pr, self.arm, &hn.init, &hn.steps);
                    let r2 = run_ds(self.ds, self.pr, self.arm, &hn.init, &hn.steps);
                    match (r1, r2) {
                        (Ok(a), Ok(b)) => {
                            if a != b {
                                self.fail(&hn, "nondeterministic trace".into(), "two runs with the same data, parameters and RNG script produced different traces".into());
                                continue;
                            }
                            let last = a.steps.last().unwrap();
                            if a.overrun > 0 {
                                self.machinery.push(format!("a step consumed {} draws (overrun {})", last.draws, a.overrun));
                            }
                            if let Err((sig, msg)) = check_step(self.ds, self.pr, last) {
                                self.fail(&hn, sig, msg);
                                continue;
                            }
                            if seen.insert(key_of(self.pr, &last.post)) {
                                self.states += 1;
                                if self.states == 40 {
                                    let (ds, pr, arm) = (self.ds, self.pr, self.arm);
                                    self.rep.sample_space(3, || hist_json(ds, pr, arm, &hn));
                                }
                                frontier.push_back(hn);
                            }
                        }
                        (Err(p), _) | (_, Err(p)) => {
                            self.fail(&hn, format!("panic {}", vx_core::util::panic_class(&p)), format!("panic: {}", p));
                        }
                    }
                }
            }
            if zs_seen.len() != nz && !panicked {
                self.machinery.push(format!("hold-out enumeration reached {} of {} sequences", zs_seen.len(), nz));
            }
        }
        true
    }
}

fn binom(n: usize, k: usize) -> usize {
    let mut r = 1usize;
    for i in 0..k {
        r = r * (n - i) / (i + 1);
    }
    r
}

/// Contig-sized sequences: no state-space search (the start space is far too large), but a few fixed RNG
/// scripts of several steps each, checked against the same recount. Exercises the widths of the
/// per-sequence symbol counters (more than 2^16 occurrences of one symbol in one sequence).
fn run_large(ctx: &mut Ctx, rep: &mut Report) {
    rep.space(
        "large",
        "3 DNA sequences of 66 000 - 70 000 symbols in which one symbol occurs more than 65 536 times (plus a masked stretch of N), width 3, both modes, 3 dispatcher arms x 4 fixed RNG scripts of 5 steps; \
         no search, the same recount oracle on every step (counter widths, long striped rows)",
    );
    let mk = |len: usize, major: u8, salt: usize| -> Vec<u8> {
        (0..len)
            .map(|i| {
                if (i * 7 + salt) % 29 == 0 {
                    ((i / 29 + salt) % 4) as u8
                } else if i % 997 < 5 {
                    4u8
                } else {
                    major
                }
            })
            .collect()
    };
    let ds = Dataset { alpha: "dna", seqs: vec![mk(70_000, 0, 1), mk(68_500, 1, 2), mk(66_000, 0, 3)], width: 3, pad: None, pre_wrap: None, spare: 0 };
    let params = [Params { zoops: false, seeds: 0, inertia: 0, patience: 0 }, Params { zoops: true, seeds: 2, inertia: 1, patience: 2 }];
    let mut idx = 1000u64;
    for pr in &params {
        for arm in cfgs::FORCED {
            for script in 0..4usize {
                let mine = ctx.mine(idx);
                idx += 1;
                if !mine {
                    continue;
                }
                let ninit = ds.seqs.len() + if pr.zoops { pr.seeds } else { 0 };
                let init: Vec<f64> = (0..ninit).map(|i| ((i * 5 + script * 3) as f64 * 0.173 + 0.061) % 1.0).collect();
                let steps: Vec<[f64; 2]> = (0..5).map(|i| [((i + script) as f64 * 0.291 + 0.07) % 1.0, ((i * 3 + script) as f64 * 0.377 + 0.013) % 1.0]).collect();
                let h = Hist { init: init.clone(), steps: steps.clone() };
                let sig = |s: &str| format!("C16 {} {} {} large {}", ds.alpha, if pr.zoops { "zoops" } else { "oops" }, cfgs::arm_name(arm), s);
                rep.eval_distinct(true);
                match run_ds(&ds, pr, arm, &init, &steps) {
                    Err(p) => rep.violation(sig(&format!("panic {}", vx_core::util::panic_class(&p))), format!("panic: {}", p), || large_json(pr, arm, &h)),
                    Ok(r) => {
                        rep.add_states(r.steps.len() as u64 + 1, r.steps.len() as u64, r.steps.len() as u64, r.steps.len() as u64);
                        if let Err((s, m)) = check_state(&ds, &r.init, &r.init_public) {
                            rep.violation(sig(&format!("initial {}", s)), short_msg(&m), || large_json(pr, arm, &h));
                            continue;
                        }
                        for st in &r.steps {
                            if let Err((s, m)) = check_step(&ds, pr, st) {
                                rep.violation(sig(&s), short_msg(&m), || large_json(pr, arm, &h));
                                break;
                            }
                        }
                    }
                }
            }
        }
    }
}

/// A wide, well conserved protein motif made of residues that are rare in the background: windows on the block score
/// far more than 128 bits under the hold-out matrix (position weights 2^score leave the f32 range, not the f64 range).
pub fn conserved_dataset() -> Dataset {
    // protein ranks: A0 C1 D2 E3 F4 G5 H6 I7 K8 L9 M10 N11 P12 Q13 R14 S15 T16 V17 W18 Y19 X20
    const BLOCK: [u8; 20] = [18, 1, 6, 10, 19, 18, 18, 1, 6, 6, 10, 19, 1, 19, 10, 18, 6, 1, 10, 18];
    const COMMON: [u8; 15] = [0, 2, 3, 5, 8, 9, 15, 16, 17, 11, 13, 14, 7, 12, 4];
    const RARE: [u8; 5] = [18, 1, 6, 10, 19];
    let seqs = (0..6usize)
        .map(|k| {
            let at = 17 + 19 * k; // block position differs per sequence
            let mut v: Vec<u8> = (0..150usize).map(|i| COMMON[(i * 7 + k * 3 + i / 15) % 15]).collect();
            v[at..at + 20].copy_from_slice(&BLOCK);
            v[(at + 60) % 150] = RARE[k % 5]; // one stray rare residue per sequence (keeps its background frequency above zero)
            v
        })
        .collect();
    Dataset { alpha: "protein", seqs, width: 20, pad: None, pre_wrap: None, spare: 0 }
}

fn run_conserved(ctx: &mut Ctx, rep: &mut Report) {
    rep.space(
        "conserved",
        "6 protein sequences of 150 residues sharing one 20-residue block of residues that are rare elsewhere (W, C, H, M, Y; one stray occurrence per sequence), width 20, both modes, 3 dispatcher arms x 4 fixed RNG scripts of 6 steps \
         (2 scripts start with every sequence aligned on the block, 2 start elsewhere); windows on the block score more than 128 bits under the hold-out matrix; no search, the recount oracle on every step and no panic",
    );
    let ds = conserved_dataset();
    let params = [Params { zoops: false, seeds: 0, inertia: 0, patience: 0 }, Params { zoops: true, seeds: 3, inertia: 1, patience: 2 }];
    let mut idx = 2000u64;
    for pr in &params {
        for arm in cfgs::FORCED {
            for script in 0..4usize {
                let mine = ctx.mine(idx);
                idx += 1;
                if !mine {
                    continue;
                }
                let n = 150 - 20 + 1;
                let mut init: Vec<f64> = (0..ds.seqs.len())
                    .map(|k| if script < 2 { ((17 + 19 * k) as f64 + 0.25) / n as f64 } else { ((k * 5 + script * 3) as f64 * 0.173 + 0.061) % 1.0 })
                    .collect();
                if pr.zoops {
                    // Floyd's algorithm draws from 0..=j for j in len-seeds..len: answer a quarter into a bucket (never in a rejection zone)
                    let len = ds.seqs.len();
                    init.extend((len - pr.seeds..len).enumerate().map(|(i, j)| (((i + script) % (j + 1)) as f64 + 0.25) / (j + 1) as f64));
                }
                // hold-out draw: a quarter into the bucket of sequence (i + script) mod nz (nz = seeds during the inertia steps)
                let steps: Vec<[f64; 2]> = (0..6usize)
                    .map(|i| {
                        let nz = if pr.zoops && i < pr.inertia { pr.seeds } else { ds.seqs.len() };
                        [(((i + script) % nz) as f64 + 0.25) / nz as f64, ((i * 3 + script) as f64 * 0.377 + 0.013) % 1.0]
                    })
                    .collect();
                let h = Hist { init: init.clone(), steps: steps.clone() };
                let sig = |s: &str| format!("C16 {} {} {} conserved {}", ds.alpha, if pr.zoops { "zoops" } else { "oops" }, cfgs::arm_name(arm), s);
                rep.eval_distinct(true);
                match run_ds(&ds, pr, arm, &init, &steps) {
                    Err(p) => rep.violation(sig(&format!("panic {}", vx_core::util::panic_class(&p))), format!("panic: {}", p), || hist_json(&ds, pr, arm, &h)),
                    Ok(r) => {
                        rep.add_states(r.steps.len() as u64 + 1, r.steps.len() as u64, r.steps.len() as u64, r.steps.len() as u64);
                        if r.overrun > 0 {
                            rep.machinery(format!("conserved: script overrun {}", r.overrun));
                        }
                        if let Err((s, m)) = check_state(&ds, &r.init, &r.init_public) {
                            rep.violation(sig(&format!("initial {}", s)), short_msg(&m), || hist_json(&ds, pr, arm, &h));
                            continue;
                        }
                        for st in &r.steps {
                            if let Err((s, m)) = check_step(&ds, pr, st) {
                                rep.violation(sig(&s), short_msg(&m), || hist_json(&ds, pr, arm, &h));
                                break;
                            }
                        }
                    }
                }
            }
        }
    }
}

fn short_msg(m: &str) -> String {
    if m.len() > 600 {
        format!("{}...", &m[..600])
    } else {
        m.to_string()
    }
}

fn large_json(pr: &Params, arm: Forced, h: &Hist) -> Value {
    json!({
        "kind": "large",
        "mode": if pr.zoops { "zoops" } else { "oops" },
        "seeds": pr.seeds, "inertia": pr.inertia, "patience": pr.patience,
        "arm": cfgs::arm_name(arm),
        "init_bits": h.init.iter().map(|f| f.to_bits().to_string()).collect::<Vec<_>>(),
        "step_bits": h.steps.iter().map(|s| vec![s[0].to_bits().to_string(), s[1].to_bits().to_string()]).collect::<Vec<_>>(),
    })
}

pub fn run(ctx: &mut Ctx, rep: &mut Report) {
    if ctx.wants("large") {
        run_large(ctx, rep);
    }
    if ctx.wants("conserved") {
        run_conserved(ctx, rep);
    }
    if !ctx.wants("sampler") {
        return;
    }
    rep.space(
        "sampler",
        "explicit-state BFS to fixpoint over the real Sampler with a scripted RNG: datasets (DNA / protein, 3-4 sequences of length 4..=7, one with the wildcard, widths 2 and 3) x modes {oops; zoops seeds 2 with (inertia,patience) in {(0,1),(2,3)} (+3 more thorough)} x dispatcher arms; \
         initial states: every start vector x every seed subset; per state every hold-out choice x EVERY outcome of the weighted start draw (monotone bisection on the 53-bit grid over the drawn integer); canonical key oops: starts; zoops: (starts, active, min(step,inertia), min(step-last_inclusion,patience+1), converged) via hook H2; \
         every transition is executed twice (determinism) and checked against a recount from the linear sequences",
    );
    let dss = datasets(ctx.quick());
    let prs = param_sets(ctx.quick());
    let mut idx = 0u64;
    let deadline = ctx.deadline;
    let mut machinery: Vec<String> = Vec::new();
    for ds in &dss {
        for pr in &prs {
            if pr.zoops && pr.seeds > ds.seqs.len() {
                continue;
            }
            for arm in cfgs::FORCED {
                let mine = ctx.mine(idx);
                idx += 1;
                if !mine {
                    continue;
                }
                let mut ex = Explorer { ds, pr, arm, rep, states: 0, transitions: 0, probes: 0, max_depth: 0, machinery: Vec::new() };
                let done = ex.explore(deadline, 60);
                let (s, t, p, d) = (ex.states, ex.transitions, ex.probes, ex.max_depth);
                machinery.extend(ex.machinery.drain(..));
                rep.add_states(s, t, t, d);
                {
                    let c = rep.spaces.get_mut("sampler").unwrap();
                    c.evaluations += t + p;
                    c.nontrivial += s;
                }
                if !done {
                    ctx.capped = true;
                    rep.cap(format!("sampler: wall-clock cap in {} {:?} {}", ds.alpha, pr, cfgs::arm_name(arm)));
                } else {
                    rep.note(format!(
                        "{} w={} n={} {} seeds={} inertia={} patience={} arm={}: fixpoint, {} states, {} transitions, {} bisection probes, depth {}",
                        ds.alpha, ds.width, ds.seqs.len(), if pr.zoops { "zoops" } else { "oops" }, pr.seeds, pr.inertia, pr.patience, cfgs::arm_name(arm), s, t, p, d
                    ));
                }
            }
        }
    }
    machinery.sort();
    machinery.dedup();
    for m in machinery {
        // an environment the harness does not fully own is a machinery problem, never a verdict
        rep.machinery(m);
    }
    rep.note("Zoops with < 2 seeds or a single sequence makes Background::from_counts fail before anything is reported: outside the statement, excluded");
}

pub fn replay(_ctx: &mut Ctx, rep: &mut Report, v: &Value) {
    rep.space("replay", "replay of one recorded RNG script");
    if v.get("machinery").is_some() {
        return;
    }
    if v["kind"].as_str() == Some("large") {
        // re-run the whole (cheap) space restricted to nothing: the case is fully determined by the script
        let mut scratch = Report::new("C16");
        let mut c = Ctx::new(vx_core::Tier::Quick, 0, 1, 0, std::time::Duration::from_secs(600));
        c.only = Some("large".into());
        run_large(&mut c, &mut scratch);
        rep.eval_distinct(true);
        for viol in scratch.violations {
            if viol.case["arm"] == v["arm"] && viol.case["mode"] == v["mode"] && viol.case["step_bits"] == v["step_bits"] {
                let case = viol.case.clone();
                rep.violation(viol.sig, viol.msg, || case);
            }
        }
        return;
    }
    let ds = Dataset {
        alpha: if v["alphabet"].as_str().unwrap() == "dna" { "dna" } else { "protein" },
        seqs: v["sequences"].as_array().unwrap().iter().map(model::ranks_from_json).collect(),
        width: v["width"].as_u64().unwrap() as usize,
        pad: v["padding_symbol"].as_u64().map(|x| x as u8),
        pre_wrap: v["pre_wrap"].as_u64().map(|x| x as usize),
        spare: v["spare_rows"].as_u64().unwrap_or(0) as usize,
    };
    let pr = Params {
        zoops: v["mode"].as_str().unwrap() == "zoops",
        seeds: v["seeds"].as_u64().unwrap() as usize,
        inertia: v["inertia"].as_u64().unwrap() as usize,
        patience: v["patience"].as_u64().unwrap() as usize,
    };
    let arm = match v["arm"].as_str().unwrap() {
        "generic" => Forced::Generic,
        "sse2" => Forced::Sse2,
        _ => Forced::Avx2,
    };
    let bits = |x: &Value| f64::from_bits(x.as_str().unwrap().parse::<u64>().unwrap());
    let h = Hist {
        init: v["init_bits"].as_array().unwrap().iter().map(bits).collect(),
        steps: v["step_bits"].as_array().unwrap().iter().map(|s| [bits(&s[0]), bits(&s[1])]).collect(),
    };
    rep.eval_distinct(true);
    let sig = |s: &str| format!("C16 {} {} {} {}", ds.alpha, if pr.zoops { "zoops" } else { "oops" }, cfgs::arm_name(arm), s);
    let r1 = run_ds(&ds, &pr, arm, &h.init, &h.steps);
    let mut r2 = run_ds(&ds, &pr, arm, &h.init, &h.steps);
    // a trace that depends on something outside (data, parameters, RNG script) - e.g. the per-instance order of a hash
    // set - differs between two runs only with some probability: the replay repeats the run 24 times so that its
    // verdict is the same every time it is asked (up to 2^-24 for a coin-flip dependence)
    if let (Ok(a), Ok(_)) = (&r1, &r2) {
        for _ in 0..24 {
            let rn = run_ds(&ds, &pr, arm, &h.init, &h.steps);
            if rn.as_ref().ok() != Some(a) {
                r2 = rn;
                break;
            }
        }
    }
    match (r1, r2) {
        (Ok(a), Ok(b)) => {
            if a != b {
                rep.violation(sig("nondeterministic trace"), "two runs differ", || hist_json(&ds, &pr, arm, &h));
                return;
            }
            if let Err((s, m)) = check_state(&ds, &a.init, &a.init_public) {
                rep.violation(sig(&format!("initial {}", s)), m, || hist_json(&ds, &pr, arm, &h));
                return;
            }
            for st in &a.steps {
                if let Err((s, m)) = check_step(&ds, &pr, st) {
                    rep.violation(sig(&s), m, || hist_json(&ds, &pr, arm, &h));
                    return;
                }
            }
        }
        (Err(p), _) | (_, Err(p)) => rep.violation(sig(&format!("panic {}", vx_core::util::panic_class(&p))), format!("panic: {}", p), || hist_json(&ds, &pr, arm, &h)),
    }
    let _ = HashMap::<u8, u8>::new();
    let _ = <Dna as Alphabet>::symbols()[0].as_index();
}
