//! C19 — dense matrix storage: explicit-state BFS over the real `DenseMatrix<T, C>`
//! against a `Vec<Vec<T>>` table model (DESIGN §C19).

use std::fmt::Debug;

use lightmotif::dense::{DenseMatrix, MatrixCoordinates, MatrixElement};
use lightmotif::num::{ArrayLength, U1, U16, U21, U32, U43, U5, U7};
use serde_json::{json, Value};
use vx_core::{bfs, catch, fnv1a, Bfs, Ctx, Report};

pub trait Elem: MatrixElement + PartialEq + Debug + 'static {
    fn from_u8(x: u8) -> Self;
    fn to_i64(&self) -> i64;
    /// a value that is not equal to itself, when the type has one (f32: NaN)
    fn irreflexive() -> Option<Self> {
        None
    }
    /// two different representations of one value, when the type has them (f32: 0.0 and -0.0)
    fn equal_pair() -> Option<(Self, Self)> {
        None
    }
    const NAME: &'static str;
}
impl Elem for u8 {
    fn from_u8(x: u8) -> Self {
        x
    }
    fn to_i64(&self) -> i64 {
        *self as i64
    }
    const NAME: &'static str = "u8";
}
impl Elem for u32 {
    fn from_u8(x: u8) -> Self {
        x as u32 * 0x01010101
    }
    fn to_i64(&self) -> i64 {
        *self as i64
    }
    const NAME: &'static str = "u32";
}
impl Elem for f32 {
    fn from_u8(x: u8) -> Self {
        x as f32 + 0.5
    }
    fn to_i64(&self) -> i64 {
        self.to_bits() as i64
    }
    fn irreflexive() -> Option<Self> {
        Some(f32::NAN)
    }
    fn equal_pair() -> Option<(Self, Self)> {
        Some((0.0, -0.0))
    }
    const NAME: &'static str = "f32";
}
/// an element type whose default value is NOT the all-zero bit pattern (Nucleotide::default() = N = 4)
impl Elem for lightmotif::abc::Nucleotide {
    fn from_u8(x: u8) -> Self {
        use lightmotif::abc::Nucleotide::*;
        [A, C, T, G, N][(x % 5) as usize]
    }
    fn to_i64(&self) -> i64 {
        use lightmotif::abc::Symbol;
        self.as_index() as i64
    }
    const NAME: &'static str = "Nucleotide";
}
impl Elem for i64 {
    fn from_u8(x: u8) -> Self {
        -(x as i64) * 0x0101010101
    }
    fn to_i64(&self) -> i64 {
        *self
    }
    const NAME: &'static str = "i64";
}

#[derive(Clone, Copy, Debug, PartialEq)]
enum Op {
    New(usize),
    WithCapacity(usize, usize),
    FromRows(usize),
    Uninit(usize),
    Resize(usize),
    Fill(u8),
    WriteIdx(bool),   // false: cell (0,0); true: last row, last col
    WriteCoord(bool), // idem through MatrixCoordinates
    IterMut,
    IntoIterMut,
    Clone,
    Reserve(usize),
    /// `clone_from` a source matrix with the given number of rows (the destination's buffer may be reused)
    CloneFrom(usize),
}

fn ops(quick: bool) -> Vec<Op> {
    let mut v = vec![
        Op::New(0),
        Op::New(2),
        Op::WithCapacity(3, 1),
        Op::WithCapacity(1, 8),
        Op::FromRows(2),
        Op::FromRows(0),
        Op::Uninit(3),
        Op::Resize(0),
        Op::Resize(1),
        Op::Resize(2),
        Op::Resize(5),
        Op::Fill(7),
        Op::WriteIdx(false),
        Op::WriteIdx(true),
        Op::WriteCoord(true),
        Op::IterMut,
        Op::Clone,
        Op::Reserve(16),
        Op::CloneFrom(1),
        Op::CloneFrom(3),
    ];
    if !quick {
        v.extend([
            Op::Resize(3),
            Op::Resize(9),
            Op::WriteCoord(false),
            Op::IntoIterMut,
            Op::Reserve(0),
            Op::New(1),
            Op::CloneFrom(0),
        ]);
    }
    v
}

fn pat(i: usize, j: usize, salt: u8) -> u8 {
    ((i * 53 + j * 7 + salt as usize) % 250 + 1) as u8
}

struct Sys<T: Elem, C: ArrayLength + PartialEq> {
    real: DenseMatrix<T, C>,
    model: Vec<Vec<T>>,
}

impl<T: Elem, C: ArrayLength + PartialEq> Sys<T, C> {
    fn new() -> Self {
        Self {
            real: DenseMatrix::new(0),
            model: Vec::new(),
        }
    }

    fn apply(&mut self, op: Op) {
        let c = C::USIZE;
        match op {
            Op::New(r) => {
                self.real = DenseMatrix::new(r);
                self.model = vec![vec![T::default(); c]; r];
            }
            Op::WithCapacity(r, cap) => {
                self.real = DenseMatrix::with_capacity(r, cap);
                self.model = vec![vec![T::default(); c]; r];
            }
            Op::FromRows(r) => {
                let rows: Vec<Vec<T>> = (0..r)
                    .map(|i| (0..c).map(|j| T::from_u8(pat(i, j, 1))).collect())
                    .collect();
                self.real = DenseMatrix::from_rows(rows.iter().map(|x| x.as_slice()).collect::<Vec<_>>());
                self.model = rows;
            }
            Op::Uninit(r) => {
                let mut m = unsafe { DenseMatrix::<T, C>::uninitialized(r) };
                let mut model = vec![vec![T::default(); c]; r];
                for i in 0..r {
                    for j in 0..c {
                        let v = T::from_u8(pat(i, j, 2));
                        m[i][j] = v;
                        model[i][j] = v;
                    }
                }
                self.real = m;
                self.model = model;
            }
            Op::Resize(r) => {
                self.real.resize(r);
                self.model.resize(r, vec![T::default(); c]);
            }
            Op::Fill(v) => {
                self.real.fill(T::from_u8(v));
                for row in self.model.iter_mut() {
                    for x in row.iter_mut() {
                        *x = T::from_u8(v);
                    }
                }
            }
            Op::WriteIdx(last) => {
                if !self.model.is_empty() {
                    let (i, j) = if last { (self.model.len() - 1, c - 1) } else { (0, 0) };
                    let v = T::from_u8(pat(i, j, 3));
                    self.real[i][j] = v;
                    self.model[i][j] = v;
                }
            }
            Op::WriteCoord(last) => {
                if !self.model.is_empty() {
                    let (i, j) = if last { (self.model.len() - 1, c - 1) } else { (0, 0) };
                    let v = T::from_u8(pat(i, j, 4));
                    self.real[MatrixCoordinates::new(i, j)] = v;
                    self.model[i][j] = v;
                }
            }
            Op::IterMut => {
                let w = 5u8;
                for (i, row) in self.real.iter_mut().enumerate() {
                    for (j, x) in row.iter_mut().enumerate() {
                        *x = T::from_u8(pat(i, j, w));
                    }
                }
                for (i, row) in self.model.iter_mut().enumerate() {
                    for (j, x) in row.iter_mut().enumerate() {
                        *x = T::from_u8(pat(i, j, w));
                    }
                }
            }
            Op::IntoIterMut => {
                let w = 6u8;
                let mut i = 0;
                for row in &mut self.real {
                    row[c - 1] = T::from_u8(pat(i, c - 1, w));
                    i += 1;
                }
                for (i, row) in self.model.iter_mut().enumerate() {
                    row[c - 1] = T::from_u8(pat(i, c - 1, w));
                }
            }
            Op::Clone => {
                let cl = self.real.clone();
                self.real = cl;
            }
            Op::Reserve(n) => {
                self.real.reserve(n);
            }
            Op::CloneFrom(r) => {
                let rows: Vec<Vec<T>> = (0..r)
                    .map(|i| (0..c).map(|j| T::from_u8(pat(i, j, 7))).collect())
                    .collect();
                let src = DenseMatrix::<T, C>::from_rows(rows.iter().map(|x| x.as_slice()).collect::<Vec<_>>());
                self.real.clone_from(&src);
                self.model = rows;
            }
        }
    }

    /// The oracle; returns the first discrepancy.
    fn check(&self) -> Result<(), String> {
        let m = &self.real;
        let c = C::USIZE;
        let rows = self.model.len();
        if m.rows() != rows {
            return Err(format!("rows() = {} but model has {}", m.rows(), rows));
        }
        if m.columns() != c {
            return Err(format!("columns() = {} != {}", m.columns(), c));
        }
        let size = std::mem::size_of::<T>();
        if m.stride() < c {
            return Err(format!("stride {} < columns {}", m.stride(), c));
        }
        if (m.stride() * size) % 32 != 0 {
            return Err(format!("stride {} x {} bytes is not a multiple of 32", m.stride(), size));
        }
        if m.capacity() < rows {
            return Err(format!("capacity {} < rows {}", m.capacity(), rows));
        }
        for i in 0..rows {
            let row = &m[i];
            if row.len() != c {
                return Err(format!("row {} has {} cells, expected {}", i, row.len(), c));
            }
            if (row.as_ptr() as usize) % 32 != 0 {
                return Err(format!("row {} pointer {:p} is not 32-byte aligned", i, row.as_ptr()));
            }
            if i > 0 {
                let d = row.as_ptr() as usize - m[i - 1].as_ptr() as usize;
                if d != m.stride() * size {
                    return Err(format!("row {} is {} bytes after row {}, stride says {}", i, d, i - 1, m.stride() * size));
                }
            }
            for j in 0..c {
                if row[j] != self.model[i][j] {
                    return Err(format!("cell ({},{}) = {:?}, model {:?}", i, j, row[j], self.model[i][j]));
                }
                if m[MatrixCoordinates::new(i, j)] != self.model[i][j] {
                    return Err(format!("cell [coord ({},{})] = {:?}, model {:?}", i, j, m[MatrixCoordinates::new(i, j)], self.model[i][j]));
                }
            }
        }
        // iteration protocols
        let it = m.iter();
        if it.len() != rows {
            return Err(format!("iter().len() = {} != {}", it.len(), rows));
        }
        let fwd: Vec<&[T]> = m.iter().collect();
        if fwd.len() != rows || fwd.iter().zip(&self.model).any(|(a, b)| *a != b.as_slice()) {
            return Err("iter() does not visit exactly the rows in order".into());
        }
        let rev: Vec<&[T]> = m.iter().rev().collect();
        if rev.len() != rows || rev.iter().zip(self.model.iter().rev()).any(|(a, b)| *a != b.as_slice()) {
            return Err("iter().rev() does not visit exactly the rows in reverse order".into());
        }
        let into: Vec<&[T]> = (&*m).into_iter().collect();
        if into.len() != rows || into.iter().zip(&self.model).any(|(a, b)| *a != b.as_slice()) {
            return Err("&m IntoIterator does not visit exactly the rows in order".into());
        }
        // INTERNAL iteration (fold / rfold / for_each / last go through the iterator's own overrides)
        {
            // (size_hint() is NOT checked: the row iterators return the default (0, None) although they are
            // ExactSizeIterators - untidy, but the statement speaks of which rows are visited, not of hints)
            let mut seen: Vec<&[T]> = Vec::new();
            m.iter().for_each(|r| seen.push(r));
            if seen.len() != rows || seen.iter().zip(&self.model).any(|(a, b)| *a != b.as_slice()) {
                return Err("iter().for_each() does not visit exactly the rows in order".into());
            }
            let mut seen: Vec<&[T]> = Vec::new();
            m.iter().rev().for_each(|r| seen.push(r));
            if seen.len() != rows || seen.iter().zip(self.model.iter().rev()).any(|(a, b)| *a != b.as_slice()) {
                return Err("iter().rev().for_each() does not visit exactly the rows in reverse order".into());
            }
            let order: Vec<usize> = m.iter().rfold(Vec::new(), |mut acc, r| {
                acc.push(self.model.iter().position(|x| x.as_slice() == r).unwrap_or(usize::MAX));
                acc
            });
            let distinct = (0..rows).all(|i| (0..i).all(|k| self.model[i] != self.model[k]));
            if order.len() != rows || (distinct && order.iter().enumerate().any(|(k, &i)| i != rows - 1 - k)) {
                return Err(format!("iter().rfold() visits rows in the order {:?}", order));
            }
            let first_by_rev_last = m.iter().rev().last();
            if first_by_rev_last != self.model.first().map(|x| x.as_slice()) {
                return Err("iter().rev().last() is not the first row".into());
            }
            if m.iter().last() != self.model.last().map(|x| x.as_slice()) {
                return Err("iter().last() is not the last row".into());
            }
            let mut idx: Vec<(usize, &[T])> = Vec::new();
            m.iter().rev().enumerate().for_each(|(k, r)| idx.push((k, r)));
            if idx.iter().any(|&(k, r)| r != self.model[rows - 1 - k].as_slice()) {
                return Err("iter().rev().enumerate().for_each() pairs indices with the wrong rows".into());
            }
        }
        // multi-step use of ONE iterator: nth / nth_back / skip / step_by, in range and past the end
        {
            for n in [0usize, 1, rows.saturating_sub(1), rows, rows + 2] {
                let mut it = m.iter();
                let got = it.nth(n);
                let want = self.model.get(n).map(|x| x.as_slice());
                if got != want {
                    return Err(format!("iter().nth({}) returned the wrong row (rows = {})", n, rows));
                }
                let rest: Vec<&[T]> = it.collect();
                let want_rest: Vec<&[T]> = self.model.iter().skip(n + 1).map(|x| x.as_slice()).collect();
                if rest != want_rest {
                    return Err(format!("after iter().nth({}) the iterator yields {} more rows, expected {} (rows = {})", n, rest.len(), want_rest.len(), rows));
                }
                let mut it = m.iter();
                let got = it.nth_back(n);
                let want = if n < rows { Some(self.model[rows - 1 - n].as_slice()) } else { None };
                if got != want {
                    return Err(format!("iter().nth_back({}) returned the wrong row (rows = {})", n, rows));
                }
                let left = it.len();
                if left != rows.saturating_sub(n + 1) {
                    return Err(format!("after iter().nth_back({}) len() = {}, expected {} (rows = {})", n, left, rows.saturating_sub(n + 1), rows));
                }
                let mut sk = m.iter().skip(n);
                let first = sk.next();
                let second = sk.next();
                if first != self.model.get(n).map(|x| x.as_slice()) || second != self.model.get(n + 1).map(|x| x.as_slice()) {
                    return Err(format!("iter().skip({}) polled twice yields the wrong rows (rows = {})", n, rows));
                }
            }
            let stepped: Vec<&[T]> = m.iter().step_by(2).collect();
            let want: Vec<&[T]> = self.model.iter().step_by(2).map(|x| x.as_slice()).collect();
            if stepped != want {
                return Err("iter().step_by(2) does not visit rows 0, 2, 4, ...".into());
            }
            let mut cl2 = m.clone();
            {
                let mut it = cl2.iter_mut();
                while let Some(r) = it.nth(2) {
                    r[0] = T::from_u8(251);
                }
                for r in it {
                    r[0] = T::from_u8(252);
                }
            }
            for i in 0..rows {
                let want = if i % 3 == 2 { T::from_u8(251) } else { self.model[i][0] };
                if cl2[i][0] != want {
                    return Err(format!("iter_mut(): while-let nth(2) then for-loop modified row {} wrongly (rows = {})", i, rows));
                }
            }
        }
        // from_rows given the matrix's own iterators (ExactSizeIterator whose len() is the row count)
        {
            let a = DenseMatrix::<T, C>::from_rows(m.iter());
            let b = DenseMatrix::<T, C>::from_rows(&*m);
            let c2 = DenseMatrix::<T, C>::from_rows(m.iter().map(|r| r.to_vec()));
            let d = DenseMatrix::<T, C>::from_rows(m.iter().rev());
            for (name, x) in [("from_rows(m.iter())", &a), ("from_rows(&m)", &b), ("from_rows(m.iter().map(to_vec))", &c2)] {
                if x.rows() != rows || (0..rows).any(|i| &x[i] != self.model[i].as_slice()) {
                    return Err(format!("{} has {} rows / different cells, the source has {}", name, x.rows(), rows));
                }
            }
            if d.rows() != rows || (0..rows).any(|i| &d[i] != self.model[rows - 1 - i].as_slice()) {
                return Err(format!("from_rows(m.iter().rev()) has {} rows / different cells, the source has {}", d.rows(), rows));
            }
        }
        // mixed front/back consumption
        {
            let mut it = m.iter();
            let mut lo = 0usize;
            let mut hi = rows;
            let mut flip = false;
            while lo < hi {
                let (got, want) = if flip {
                    hi -= 1;
                    (it.next_back(), &self.model[hi])
                } else {
                    lo += 1;
                    (it.next(), &self.model[lo - 1])
                };
                if got != Some(want.as_slice()) {
                    return Err("interleaved next()/next_back() visits a wrong row".into());
                }
                flip = !flip;
            }
            if it.next().is_some() || it.next_back().is_some() {
                return Err("iterator yields more rows than the matrix has".into());
            }
        }
        // mutable iteration visits the same rows (on a clone, so state is untouched)
        let mut cl = m.clone();
        if cl != *m {
            return Err("clone != original".into());
        }
        {
            let n = cl.iter_mut().len();
            if n != rows {
                return Err(format!("iter_mut().len() = {} != {}", n, rows));
            }
            for (i, row) in cl.iter_mut().enumerate() {
                if row != self.model[i].as_slice() {
                    return Err(format!("iter_mut() row {} differs from model", i));
                }
            }
            let mut k = rows;
            for row in cl.iter_mut().rev() {
                k -= 1;
                if row != self.model[k].as_slice() {
                    return Err(format!("iter_mut().rev() row {} differs from model", k));
                }
            }
            // reverse mutable pass through internal iteration: tag column 0 of every row with its reverse rank
            let mut tagged = m.clone();
            tagged.iter_mut().rev().enumerate().for_each(|(k, row)| row[0] = T::from_u8((k % 200) as u8 + 1));
            for i in 0..rows {
                if tagged[i][0] != T::from_u8(((rows - 1 - i) % 200) as u8 + 1) {
                    return Err(format!("iter_mut().rev().enumerate().for_each() wrote row {} with the wrong rank", i));
                }
            }
        }
        // equality depends on logical cells only: compare with a fresh matrix built from the model
        let fresh = DenseMatrix::<T, C>::from_rows(self.model.iter().map(|r| r.as_slice()).collect::<Vec<_>>());
        if fresh != *m {
            return Err("matrix != fresh matrix with the same logical cells (padding/capacity history leaks into equality)".into());
        }
        if rows > 0 {
            for (i, j) in [(0usize, 0usize), (rows - 1, c - 1)] {
                let mut other = m.clone();
                let old = other[i][j];
                let mut v = T::from_u8(251);
                if v == old {
                    v = T::from_u8(252);
                }
                other[i][j] = v;
                if other == *m {
                    return Err(format!("matrix == clone with cell ({},{}) changed", i, j));
                }
            }
            let mut shorter = m.clone();
            shorter.resize(rows - 1);
            if shorter == *m {
                return Err("matrix == clone with one row less".into());
            }
            // equality is a function of the logical cells and nothing else (not of object identity): with a
            // cell that is not equal to itself the matrix answers what the table of its cells answers,
            // whether it is compared with itself, with its clone or with a rebuilt matrix
            // ... and of the VALUES of the cells, not of their bit patterns
            if let Some((x, y)) = T::equal_pair() {
                let (i, j) = (rows - 1, c - 1);
                let mut a = m.clone();
                let mut b = m.clone();
                a[i][j] = x;
                b[i][j] = y;
                if a != b || !(a == b) {
                    return Err(format!("matrices whose cells are all equal (cell ({},{}) holds {:?} in one and {:?} in the other) compare unequal", i, j, x, y));
                }
            }
            if let Some(w) = T::irreflexive() {
                for (i, j) in [(0usize, 0usize), (rows - 1, c - 1)] {
                    let mut table = self.model.clone();
                    table[i][j] = w;
                    let mut a = m.clone();
                    a[i][j] = w;
                    let b = a.clone();
                    let rebuilt = DenseMatrix::<T, C>::from_rows(table.iter().map(|r| r.as_slice()).collect::<Vec<_>>());
                    let want = table == table.clone();
                    let alias: &DenseMatrix<T, C> = &a;
                    for (what, got, ne) in [
                        ("itself", *alias == a, *alias != a),
                        ("its clone", a == b, a != b),
                        ("a matrix rebuilt from the same cells", a == rebuilt, a != rebuilt),
                    ] {
                        if got != want || ne == want {
                            return Err(format!(
                                "matrix with a not-self-equal value in cell ({},{}) compared with {}: == gives {}, != gives {}, the table of its cells gives {}",
                                i, j, what, got, ne, want
                            ));
                        }
                    }
                }
            }
        }
        Ok(())
    }

    fn key(&self) -> (usize, usize, u64) {
        let mut bytes = Vec::with_capacity(self.model.len() * C::USIZE * 8);
        for row in &self.model {
            for x in row {
                bytes.extend_from_slice(&x.to_i64().to_le_bytes());
            }
        }
        // written values depend only on (cell, operation kind), so futures are a function of
        // (rows, capacity, logical cells); capacity is kept (clipped) because it decides reallocation in resize/reserve.
        (self.model.len(), self.real.capacity().min(24), fnv1a(&bytes))
    }
}

fn op_json(op: Op) -> Value {
    json!(format!("{:?}", op))
}

fn run_inst<T: Elem, C: ArrayLength + PartialEq>(ctx: &mut Ctx, rep: &mut Report, depth: usize) {
    let oplist = ops(ctx.quick());
    let inst = format!("{}x{}", T::NAME, C::USIZE);
    let build = |hist: &[usize]| -> Sys<T, C> {
        // make reads of memory the library forgot to initialise deterministic (0xA5 pattern)
        vx_core::util::poison_heap();
        let mut s = Sys::<T, C>::new();
        for &o in hist {
            s.apply(oplist[o]);
        }
        s
    };
    let root = Sys::<T, C>::new();
    if let Err(e) = root.check() {
        rep.violation(format!("C19 {} root", inst), e, || json!({"inst": inst, "history": []}));
    }
    let root_key = root.key();
    let mut viol: Vec<(String, String, Vec<usize>)> = Vec::new();
    let mut sample: Option<Vec<usize>> = None;
    let mut outcomes = std::collections::HashSet::new();
    let nops = oplist.len();
    let deadline = ctx.deadline;
    let st = bfs(
        root_key,
        depth,
        |_| nops,
        |hist, op| {
            let mut full = hist.to_vec();
            full.push(op);
            if !vx_core::util::crumb_bfs(|| json!({"module": "C19", "case": {"inst": inst, "ops": full}}).to_string()) {
                return Bfs { key: None };
            }
            let r = catch(|| {
                let mut s = build(hist);
                s.apply(oplist[op]);
                let c = s.check();
                (s.key(), c)
            });
            match r {
                Ok((k, Ok(()))) => {
                    outcomes.insert(k);
                    if sample.is_none() && full.len() >= 3 {
                        sample = Some(full.clone());
                    }
                    Bfs { key: Some(k) }
                }
                Ok((_, Err(e))) => {
                    let sig = format!("C19 {} op={:?} {}", inst, oplist[op], short(&e));
                    viol.push((sig, e, full));
                    Bfs { key: None }
                }
                Err(p) => {
                    let sig = format!("C19 {} op={:?} panic {}", inst, oplist[op], vx_core::util::panic_class(&p));
                    viol.push((sig, format!("panic: {}", p), full));
                    Bfs { key: None }
                }
            }
        },
        || std::time::Instant::now() > deadline,
    );
    rep.add_states(st.states, st.transitions, st.transitions, st.max_depth);
    let c = rep.spaces.get_mut("histories").unwrap();
    c.evaluations += st.transitions;
    c.nontrivial += st.states;
    c.outcomes += outcomes.len() as u64;
    if st.depth_capped && st.frontier_left > 0 && std::time::Instant::now() > deadline {
        ctx.capped = true;
        rep.cap(format!("{}: wall-clock cap hit with {} frontier states left", inst, st.frontier_left));
    } else if st.depth_capped {
        rep.note(format!("{}: depth bound {} reached with {} unexpanded states ({} states, {} transitions)", inst, depth, st.frontier_left, st.states, st.transitions));
    } else {
        rep.note(format!("{}: FIXPOINT reached at depth {} ({} states, {} transitions)", inst, st.max_depth, st.states, st.transitions));
    }
    for (sig, msg, hist) in viol {
        rep.violation(sig, msg, || {
            json!({"inst": inst, "history": hist.iter().map(|&o| op_json(oplist[o])).collect::<Vec<_>>(), "ops": hist})
        });
    }
    if let Some(h) = sample {
        rep.sample_space(3, || json!({"inst": inst, "history": h.iter().map(|&o| op_json(oplist[o])).collect::<Vec<_>>(), "states": st.states, "transitions": st.transitions}));
    }
}

/// Stable class of a discrepancy message: the words before the first number / parenthesis / '='
/// (messages quote cell values, which for uninitialised memory differ from run to run).
fn short(e: &str) -> String {
    let cut = e.find(|c: char| c.is_ascii_digit() || c == '(' || c == '=').unwrap_or(e.len());
    let head = e[..cut].trim();
    let head = if head.is_empty() { e } else { head };
    head.split_whitespace().take(6).collect::<Vec<_>>().join("_")
}

macro_rules! insts {
    ($f:ident, $idx:expr, $ctx:expr, $rep:expr, $depth:expr; $( ($i:expr, $t:ty, $c:ty) ),* ) => {
        match $idx {
            $( $i => $f::<$t, $c>($ctx, $rep, $depth), )*
            _ => unreachable!(),
        }
    };
}

pub const N_INST: usize = 35;
type Nuc = lightmotif::abc::Nucleotide;

pub fn run_index(i: usize, ctx: &mut Ctx, rep: &mut Report, depth: usize) {
    insts!(run_inst, i, ctx, rep, depth;
        (0, u8, U1), (1, u8, U5), (2, u8, U7), (3, u8, U16), (4, u8, U21), (5, u8, U32), (6, u8, U43),
        (7, u32, U1), (8, u32, U5), (9, u32, U7), (10, u32, U16), (11, u32, U21), (12, u32, U32), (13, u32, U43),
        (14, f32, U1), (15, f32, U5), (16, f32, U7), (17, f32, U16), (18, f32, U21), (19, f32, U32), (20, f32, U43),
        (21, i64, U1), (22, i64, U5), (23, i64, U7), (24, i64, U16), (25, i64, U21), (26, i64, U32), (27, i64, U43),
        (28, Nuc, U1), (29, Nuc, U5), (30, Nuc, U7), (31, Nuc, U16), (32, Nuc, U21), (33, Nuc, U32), (34, Nuc, U43)
    );
}

fn inst_index(name: &str) -> Option<usize> {
    let ts = ["u8", "u32", "f32", "i64", "Nucleotide"];
    let cs = [1, 5, 7, 16, 21, 32, 43];
    for (a, t) in ts.iter().enumerate() {
        for (b, c) in cs.iter().enumerate() {
            if format!("{}x{}", t, c) == name {
                return Some(a * 7 + b);
            }
        }
    }
    None
}

pub fn run(ctx: &mut Ctx, rep: &mut Report) {
    let depth = if ctx.quick() { 8 } else { 11 };
    rep.space(
        "histories",
        &format!(
            "explicit-state BFS over the real DenseMatrix<T,C> for T in {{u8,u32,f32,i64,Nucleotide (default value N is not the all-zero pattern)}} x C in {{1,5,7,16,21,32,43}}; \
             {} operations (new/with_capacity/from_rows/uninitialized+write/resize/fill/IndexMut<usize>/IndexMut<MatrixCoordinates>/iter_mut/clone/clone_from/reserve); in every state also internal iteration (for_each/rfold/last, forwards and reversed, shared and mutable; nth/nth_back/skip/step_by in range and past the end followed by further use of the same iterator) and from_rows fed with the matrix's own iterators, \
             all histories to depth {} with canonical-state de-duplication (rows, capacity<=24, logical cells); \
             a state is non-trivial when distinct by that key; every transition re-executes its whole history on a fresh matrix and is checked against the Vec<Vec<T>> model",
            ops(ctx.quick()).len(),
            depth
        ),
    );
    for i in 0..N_INST {
        if ctx.mine(i as u64) {
            run_index(i, ctx, rep, depth);
        }
    }
}

pub fn replay(ctx: &mut Ctx, rep: &mut Report, case: &Value) {
    rep.space("replay", "replay of one recorded history");
    let inst = case["inst"].as_str().unwrap();
    let idx = inst_index(inst).expect("unknown instantiation");
    let hist: Vec<usize> = case["ops"].as_array().unwrap().iter().map(|x| x.as_u64().unwrap() as usize).collect();
    fn go<T: Elem, C: ArrayLength + PartialEq>(ctx: &mut Ctx, rep: &mut Report, hist: &[usize]) {
        // the quick op table is a prefix of the thorough one
        let table = ops(false);
        let _ = &ctx;
        let inst = format!("{}x{}", T::NAME, C::USIZE);
        let r = catch(|| {
            vx_core::util::poison_heap();
            let mut s = Sys::<T, C>::new();
            for (n, &o) in hist.iter().enumerate() {
                s.apply(table[o]);
                if let Err(e) = s.check() {
                    return Err(format!("after op {} ({:?}): {}", n, table[o], e));
                }
            }
            Ok(())
        });
        rep.eval_distinct(true);
        match r {
            Ok(Ok(())) => {}
            Ok(Err(e)) => rep.violation(format!("C19 {} replay", inst), e, || json!({"inst": inst, "ops": hist})),
            Err(p) => rep.violation(format!("C19 {} replay panic", inst), p, || json!({"inst": inst, "ops": hist})),
        }
    }
    struct H<'a>(&'a [usize]);
    let h = H(&hist);
    fn wrap<T: Elem, C: ArrayLength + PartialEq>(ctx: &mut Ctx, rep: &mut Report, _d: usize) {
        REPLAY_HIST.with(|r| {
            let hist = r.borrow().clone();
            go::<T, C>(ctx, rep, &hist);
        });
    }
    REPLAY_HIST.with(|r| *r.borrow_mut() = h.0.to_vec());
    insts!(wrap, idx, ctx, rep, 0;
        (0, u8, U1), (1, u8, U5), (2, u8, U7), (3, u8, U16), (4, u8, U21), (5, u8, U32), (6, u8, U43),
        (7, u32, U1), (8, u32, U5), (9, u32, U7), (10, u32, U16), (11, u32, U21), (12, u32, U32), (13, u32, U43),
        (14, f32, U1), (15, f32, U5), (16, f32, U7), (17, f32, U16), (18, f32, U21), (19, f32, U32), (20, f32, U43),
        (21, i64, U1), (22, i64, U5), (23, i64, U7), (24, i64, U16), (25, i64, U21), (26, i64, U32), (27, i64, U43),
        (28, Nuc, U1), (29, Nuc, U5), (30, Nuc, U7), (31, Nuc, U16), (32, Nuc, U21), (33, Nuc, U32), (34, Nuc, U43)
    );
}

thread_local! {
    static REPLAY_HIST: std::cell::RefCell<Vec<usize>> = const { std::cell::RefCell::new(Vec::new()) };
}
