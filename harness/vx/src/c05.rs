//! C05 — encoding accepts exactly the alphabet, identically on every backend (DESIGN §C05).

use lightmotif::abc::{Alphabet, Dna, Protein, Symbol};
use lightmotif::seq::EncodedSequence;
use serde_json::{json, Value};
use vx_core::{catch, Ctx, Report};

use crate::cfgs::{self, ECfg, EncodeOut};
use crate::model;

fn letters<A: Alphabet>() -> &'static [u8] {
    A::as_str().as_bytes()
}

/// Reference: rank of a byte, or None.
fn rank(letters: &[u8], b: u8) -> Option<u8> {
    letters.iter().position(|&x| x == b).map(|i| i as u8)
}

/// Reference outcome for a byte string.
fn expected(letters: &[u8], text: &[u8]) -> Result<Vec<u8>, char> {
    let mut out = Vec::with_capacity(text.len());
    for &b in text {
        match rank(letters, b) {
            Some(r) => out.push(r),
            None => return Err(b as char),
        }
    }
    Ok(out)
}

thread_local! {
    /// The alphabet this process encoded BEFORE the one being checked (None: the first one): encoders that cache
    /// per-alphabet tables in process-wide state can depend on it, so it is part of every recorded case.
    static EARLIER: std::cell::Cell<Option<&'static str>> = const { std::cell::Cell::new(None) };
}

fn case_json(alpha: &str, cfg: &str, text: &[u8]) -> Value {
    json!({"alphabet": alpha, "cfg": cfg, "text_bytes": text, "text_lossy": String::from_utf8_lossy(text),
           "alphabet_used_earlier_in_this_process": EARLIER.with(|x| x.get())})
}

/// Encode one valid text of `alpha` through every entry point (what a process that used this alphabet before has done).
fn warm_up(alpha: &str) {
    fn go<A: Alphabet>() {
        let text: Vec<u8> = letters::<A>().to_vec();
        for cfg in cfgs::ALL_ECFGS {
            let _ = catch(|| cfgs::encode_all::<A>(cfg, &text));
        }
        for arm in cfgs::FORCED {
            let _ = catch(|| cfgs::with_arm(arm, || EncodedSequence::<A>::encode(&text).is_ok()));
        }
    }
    if alpha == "dna" {
        go::<Dna>()
    } else {
        go::<Protein>()
    }
}

/// Check one (cfg, text); returns a description of the first discrepancy.
pub fn check_one<A: Alphabet>(cfg: ECfg, text: &[u8]) -> Result<(), (String, String)> {
    let want = expected(letters::<A>(), text);
    let got: EncodeOut = match catch(|| cfgs::encode_all::<A>(cfg, text)) {
        Ok(g) => g,
        Err(p) => return Err((format!("panic {}", vx_core::util::panic_class(&p)), format!("panic: {}", p))),
    };
    match &want {
        Ok(ranks) => {
            match &got.encode {
                Ok((r, shown)) => {
                    if r != ranks {
                        let i = r.iter().zip(ranks).position(|(a, b)| a != b).unwrap_or(r.len().min(ranks.len()));
                        return Err(("encode symbols".into(), format!("encode(): symbol {} is rank {:?}, expected {:?}", i, r.get(i), ranks.get(i))));
                    }
                    if shown.as_bytes() != text {
                        return Err(("display".into(), format!("displaying the encoded sequence gives {:?}, input was {:?}", shown, String::from_utf8_lossy(text))));
                    }
                }
                Err(c) => return Err(("encode rejects valid".into(), format!("encode() rejected a valid text reporting {:?}", c))),
            }
            if got.encode_raw.as_ref() != Ok(ranks) {
                return Err(("encode_raw".into(), format!("encode_raw() = {:?}, expected Ok({:?})", got.encode_raw, ranks)));
            }
            if got.encode_into.as_ref() != Ok(ranks) {
                return Err(("encode_into".into(), format!("encode_into() = {:?}, expected Ok({:?})", got.encode_into, ranks)));
            }
        }
        Err(c) => {
            for (name, r) in [
                ("encode", got.encode.as_ref().map(|_| ()).map_err(|e| *e)),
                ("encode_raw", got.encode_raw.as_ref().map(|_| ()).map_err(|e| *e)),
                ("encode_into", got.encode_into.as_ref().map(|_| ()).map_err(|e| *e)),
            ] {
                match r {
                    Ok(()) => return Err((format!("{} accepts invalid", name), format!("{}() accepted a text whose first invalid byte is {:?}", name, c))),
                    Err(e) if e != *c => {
                        return Err((format!("{} wrong char", name), format!("{}() reported {:?}, the first offending character is {:?}", name, e, c)))
                    }
                    _ => {}
                }
            }
        }
    }
    Ok(())
}

/// The convenience API on EncodedSequence (dispatching): encode + from_str, under a forced arm.
pub fn check_api<A: Alphabet>(arm: lightmotif::verif::Forced, text: &[u8]) -> Result<(), (String, String)> {
    let want = expected(letters::<A>(), text);
    let got = catch(|| {
        cfgs::with_arm(arm, || {
            let a = EncodedSequence::<A>::encode(text).map(|e| e.iter().map(|s| s.as_index() as u8).collect::<Vec<u8>>()).map_err(|e| e.0);
            let b = match std::str::from_utf8(text) {
                Ok(s) => Some(s.parse::<EncodedSequence<A>>().map(|e| e.iter().map(|s| s.as_index() as u8).collect::<Vec<u8>>()).map_err(|e| e.0)),
                Err(_) => None,
            };
            (a, b)
        })
    });
    match got {
        Err(p) => Err((format!("api panic {}", vx_core::util::panic_class(&p)), format!("panic: {}", p))),
        Ok((a, b)) => {
            if a != want {
                return Err(("EncodedSequence::encode".into(), format!("EncodedSequence::encode = {:?}, expected {:?}", a, want)));
            }
            if let Some(b) = b {
                if b != want {
                    return Err(("from_str".into(), format!("from_str = {:?}, expected {:?}", b, want)));
                }
            }
            Ok(())
        }
    }
}

fn background(letters: &[u8], len: usize, offset: usize) -> Vec<u8> {
    (0..len).map(|i| letters[(i + offset) % letters.len()]).collect()
}

fn run_alpha<A: Alphabet>(alpha: &'static str, ctx: &mut Ctx, rep: &mut Report, base: &mut u64) {
    let lt = letters::<A>();
    let lmax = if ctx.quick() { 100 } else { 300 };
    // ---- single substitutions: every byte value at every position -------------------------
    rep.space(
        "substitution",
        "product: alphabet x {generic, sse2, avx2, dispatcher arms generic/sse2/avx2} x every length 0..=100 (thorough 0..=300) x valid background (alphabet cycled from offset 0/1) \
         x every position x every byte value 0..=255 substituted there; encode / encode_raw / encode_into of each pipeline plus EncodedSequence::encode / from_str under each arm; \
         oracle: letter table (Ok iff all bytes are upper-case alphabet letters, ranks, Display round-trip, first offending character); non-trivial = substituted byte is not the background byte",
    );
    for len in 0..=lmax {
        for offset in 0..2usize {
            let idx = *base;
            *base += 1;
            if !ctx.mine(idx) {
                continue;
            }
            let bg = background(lt, len, offset);
            // the unmodified text
            for cfg in cfgs::ALL_ECFGS {
                rep.eval_distinct(len > 0 && offset == 0);
                if let Err((sig, msg)) = check_one::<A>(cfg, &bg) {
                    rep.violation(format!("C05 {} {} {}", alpha, cfg.name(), sig), msg, || case_json(alpha, cfg.name(), &bg));
                }
            }
            let mut text = bg.clone();
            for p in 0..len {
                for b in 0..=255u8 {
                    text[p] = b;
                    let nontrivial = b != bg[p];
                    for cfg in cfgs::ALL_ECFGS {
                        rep.eval_distinct(nontrivial);
                        if let Err((sig, msg)) = check_one::<A>(cfg, &text) {
                            rep.violation(format!("C05 {} {} {}", alpha, cfg.name(), sig), msg, || case_json(alpha, cfg.name(), &text));
                        }
                    }
                    // the dispatching convenience API: every arm, a thinner byte menu is enough
                    // for positions that are not block-relative boundaries, full menu elsewhere
                    let boundary = p < 2 || p % 16 == 15 || p % 16 == 0 || p + 2 >= len;
                    if boundary || b % 16 == 1 || rank(lt, b).is_some() || b.is_ascii_lowercase() {
                        for arm in cfgs::FORCED {
                            rep.eval_distinct(nontrivial);
                            if let Err((sig, msg)) = check_api::<A>(arm, &text) {
                                rep.violation(format!("C05 {} api[{}] {}", alpha, cfgs::arm_name(arm), sig), msg, || {
                                    case_json(alpha, &format!("api[{}]", cfgs::arm_name(arm)), &text)
                                });
                            }
                        }
                    }
                }
                text[p] = bg[p];
            }
            if len == 37 && offset == 0 {
                let mut t = bg.clone();
                t[33] = b'x';
                rep.sample_space(2, || case_json(alpha, "all", &t));
            }
        }
        if ctx.out_of_time() {
            rep.cap(format!("substitution/{}: wall-clock cap at L={}", alpha, len));
            return;
        }
    }
    // ---- two faults: which one is reported ----------------------------------------------
    rep.space(
        "two_faults",
        "product: alphabet x 6 pipelines x every length <= 70 (thorough 100) x every ordered pair of positions p<q x 3 pairs of distinct invalid bytes; \
         oracle: the error names the byte at p (first offending character); non-trivial = all of them",
    );
    let lmax2 = if ctx.quick() { 70 } else { 100 };
    let pairs: [(u8, u8); 3] = [(b'a', b'c'), (b'#', 0xFF), (0x00, b'n')];
    for len in 2..=lmax2 {
        let idx = *base;
        *base += 1;
        if !ctx.mine(idx) {
            continue;
        }
        let bg = background(lt, len, 0);
        let mut text = bg.clone();
        for p in 0..len {
            for q in p + 1..len {
                for (b1, b2) in pairs {
                    text[p] = b1;
                    text[q] = b2;
                    for cfg in cfgs::ALL_ECFGS {
                        rep.eval_distinct(true);
                        if let Err((sig, msg)) = check_one::<A>(cfg, &text) {
                            rep.violation(format!("C05 {} {} two-faults {}", alpha, cfg.name(), sig), msg, || case_json(alpha, cfg.name(), &text));
                        }
                    }
                    text[q] = bg[q];
                }
                text[p] = bg[p];
            }
        }
        if len == 40 {
            let mut t = bg.clone();
            t[15] = b'#';
            t[33] = 0xFF;
            rep.sample_space(1, || case_json(alpha, "all", &t));
        }
        if ctx.out_of_time() {
            rep.cap(format!("two_faults/{}: wall-clock cap at L={}", alpha, len));
            return;
        }
    }
    // ---- long texts: block-wise code paths of Display / encode --------------------------------
    rep.space(
        "long",
        "product: alphabet x 6 pipelines + API arms x lengths {1023,1024,1025,2047,2048,2049,3000,4097,8200} x {valid text, one invalid byte at L-1 / L/2 / 1024 / 1025}; \
         oracle: letter table incl. the Display round-trip of the WHOLE text (block-wise formatting paths) and the first offending character",
    );
    for &len in &[1023usize, 1024, 1025, 2047, 2048, 2049, 3000, 4097, 8200] {
        let idx = *base;
        *base += 1;
        if !ctx.mine(idx) {
            continue;
        }
        let bg = background(lt, len, 1);
        let mut texts = vec![bg.clone()];
        for &p in &[len - 1, len / 2, 1024, 1025] {
            if p < len {
                let mut t = bg.clone();
                t[p] = b'z';
                texts.push(t);
            }
        }
        for text in &texts {
            for cfg in cfgs::ALL_ECFGS {
                rep.eval_distinct(true);
                if let Err((sig, msg)) = check_one::<A>(cfg, text) {
                    rep.violation(format!("C05 {} {} long {}", alpha, cfg.name(), sig), msg, || case_json(alpha, cfg.name(), text));
                }
            }
            for arm in cfgs::FORCED {
                rep.eval_distinct(true);
                if let Err((sig, msg)) = check_api::<A>(arm, text) {
                    rep.violation(format!("C05 {} api[{}] long {}", alpha, cfgs::arm_name(arm), sig), msg, || {
                        case_json(alpha, &format!("api[{}]", cfgs::arm_name(arm)), text)
                    });
                }
            }
        }
    }
    // ---- the same invalid byte in every 16/32-byte block: per-lane error accumulators over many blocks -----
    rep.space(
        "repeated",
        "texts in which EVERY 32-byte block holds an invalid byte in the same lane (soft-masked chunks, line feeds of 31-letter lines): alphabet x 6 pipelines + API arms x block counts {255,256,257,512,513} x lane in {0,7,8,15,16,24,31} (thorough: every lane) x invalid byte {a, LF} + a valid tail of 0 or 5 letters; \
         plus all-lower-case texts of 8192, 8193 and 16384 bytes; oracle: rejected, naming the first offending byte",
    );
    {
        let lanes: Vec<usize> = if ctx.quick() { vec![0, 7, 8, 15, 16, 24, 31] } else { (0..32).collect() };
        for &blocks in &[255usize, 256, 257, 512, 513] {
            for &lane in &lanes {
                let idx = *base;
                *base += 1;
                if !ctx.mine(idx) {
                    continue;
                }
                for &bad in &[b'a', b'\n'] {
                    for &tail in &[0usize, 5] {
                        let len = blocks * 32 + tail;
                        let mut text = background(lt, len, 0);
                        for b in 0..blocks {
                            text[b * 32 + lane] = bad;
                        }
                        for cfg in cfgs::ALL_ECFGS {
                            rep.eval_distinct(true);
                            if let Err((sig, msg)) = check_one::<A>(cfg, &text) {
                                rep.violation(format!("C05 {} {} repeated {}", alpha, cfg.name(), sig), msg, || case_json(alpha, cfg.name(), &text));
                            }
                        }
                        for arm in cfgs::FORCED {
                            rep.eval_distinct(true);
                            if let Err((sig, msg)) = check_api::<A>(arm, &text) {
                                rep.violation(format!("C05 {} api[{}] repeated {}", alpha, cfgs::arm_name(arm), sig), msg, || {
                                    case_json(alpha, &format!("api[{}]", cfgs::arm_name(arm)), &text)
                                });
                            }
                        }
                    }
                }
            }
        }
        for &len in &[8192usize, 8193, 16384] {
            let idx = *base;
            *base += 1;
            if !ctx.mine(idx) {
                continue;
            }
            let text: Vec<u8> = background(lt, len, 0).iter().map(|b| b.to_ascii_lowercase()).collect();
            for cfg in cfgs::ALL_ECFGS {
                rep.eval_distinct(true);
                if let Err((sig, msg)) = check_one::<A>(cfg, &text) {
                    rep.violation(format!("C05 {} {} repeated {}", alpha, cfg.name(), sig), msg, || case_json(alpha, cfg.name(), &text));
                }
            }
        }
    }
    // ---- homopolymer runs: whole SIMD blocks made of one byte (masked N / X stretches, low-complexity runs) -----
    rep.space(
        "homopolymer",
        "runs of ONE repeated byte filling whole 16/32-byte blocks: alphabet x 6 pipelines + API arms x \
         (a) a run of each alphabet letter (wildcard included) of length {32, 40, 64, 70} after a valid head of 0 or 3 letters and before a valid tail of 5, with EVERY position of the run x EVERY byte value 0..=255 substituted; \
         (b) a run of EVERY byte value 0..=255 (valid or not) of length {32, 33, 64} after a head of 0 or 1 letters, with a valid tail of 0 or 5 letters; oracle: letter table (ranks, Display round-trip, first offending character)",
    );
    for (li, &letter) in lt.iter().enumerate() {
        for &run in &[32usize, 40, 64, 70] {
            for &head in &[0usize, 3] {
                let idx = *base;
                *base += 1;
                if !ctx.mine(idx) {
                    continue;
                }
                let mut bg = background(lt, head, li);
                bg.extend(std::iter::repeat(letter).take(run));
                bg.extend(background(lt, 5, li + 1));
                let mut text = bg.clone();
                for p in head..head + run {
                    for b in 0..=255u8 {
                        text[p] = b;
                        for cfg in cfgs::ALL_ECFGS {
                            rep.eval_distinct(b != letter);
                            if let Err((sig, msg)) = check_one::<A>(cfg, &text) {
                                rep.violation(format!("C05 {} {} homopolymer {}", alpha, cfg.name(), sig), msg, || case_json(alpha, cfg.name(), &text));
                            }
                        }
                        if b % 16 == 1 || rank(lt, b).is_some() || b.is_ascii_lowercase() || (b & letter) == letter {
                            for arm in cfgs::FORCED {
                                rep.eval_distinct(b != letter);
                                if let Err((sig, msg)) = check_api::<A>(arm, &text) {
                                    rep.violation(format!("C05 {} api[{}] homopolymer {}", alpha, cfgs::arm_name(arm), sig), msg, || {
                                        case_json(alpha, &format!("api[{}]", cfgs::arm_name(arm)), &text)
                                    });
                                }
                            }
                        }
                    }
                    text[p] = letter;
                }
            }
        }
        if ctx.out_of_time() {
            rep.cap(format!("homopolymer/{}: wall-clock cap at letter {}", alpha, letter as char));
            return;
        }
    }
    for v in 0..=255u8 {
        let idx = *base;
        *base += 1;
        if !ctx.mine(idx) {
            continue;
        }
        for &run in &[32usize, 33, 64] {
            for &head in &[0usize, 1] {
                for &tail in &[0usize, 5] {
                    let mut text = background(lt, head, 0);
                    text.extend(std::iter::repeat(v).take(run));
                    text.extend(background(lt, tail, 1));
                    for cfg in cfgs::ALL_ECFGS {
                        rep.eval_distinct(true);
                        if let Err((sig, msg)) = check_one::<A>(cfg, &text) {
                            rep.violation(format!("C05 {} {} homopolymer {}", alpha, cfg.name(), sig), msg, || case_json(alpha, cfg.name(), &text));
                        }
                    }
                    for arm in cfgs::FORCED {
                        rep.eval_distinct(true);
                        if let Err((sig, msg)) = check_api::<A>(arm, &text) {
                            rep.violation(format!("C05 {} api[{}] homopolymer {}", alpha, cfgs::arm_name(arm), sig), msg, || {
                                case_json(alpha, &format!("api[{}]", cfgs::arm_name(arm)), &text)
                            });
                        }
                    }
                }
            }
        }
    }
    // ---- multi-byte UTF-8 text through from_str ------------------------------------------------
    rep.space(
        "utf8",
        "product: alphabet x API arms (EncodedSequence::encode, str::parse / from_str) + 6 pipelines x every length 3..=40 x every position q of a 2-byte UTF-8 character ('\u{e9}' = C3 A9), a 3-byte one and a 4-byte one, \
         alone or preceded by an invalid ASCII byte at every p<q ('.', 'a', NUL); oracle: byte-wise letter table - the error names the FIRST offending byte (the invalid ASCII byte when there is one, else the lead byte of the multi-byte character)",
    );
    let multis: [&[u8]; 3] = ["\u{e9}".as_bytes(), "\u{20ac}".as_bytes(), "\u{1F600}".as_bytes()];
    for len in 3..=40usize {
        let idx = *base;
        *base += 1;
        if !ctx.mine(idx) {
            continue;
        }
        let bg = background(lt, len, 0);
        for mb in multis {
            for q in 0..=len {
                // the multi-byte character inserted before position q
                let mut t: Vec<u8> = bg[..q].to_vec();
                t.extend_from_slice(mb);
                t.extend_from_slice(&bg[q..]);
                let mut variants = vec![t.clone()];
                for p in 0..q {
                    for &bad in &[b'.', b'a', 0u8] {
                        let mut u = t.clone();
                        u[p] = bad;
                        variants.push(u);
                    }
                }
                for text in &variants {
                    debug_assert!(std::str::from_utf8(text).is_ok());
                    for arm in cfgs::FORCED {
                        rep.eval_distinct(true);
                        if let Err((sig, msg)) = check_api::<A>(arm, text) {
                            rep.violation(format!("C05 {} api[{}] utf8 {}", alpha, cfgs::arm_name(arm), sig), msg, || {
                                case_json(alpha, &format!("api[{}]", cfgs::arm_name(arm)), text)
                            });
                        }
                    }
                    if q % 5 == 0 {
                        for cfg in cfgs::ALL_ECFGS {
                            rep.eval_distinct(true);
                            if let Err((sig, msg)) = check_one::<A>(cfg, text) {
                                rep.violation(format!("C05 {} {} utf8 {}", alpha, cfg.name(), sig), msg, || case_json(alpha, cfg.name(), text));
                            }
                        }
                    }
                }
            }
        }
        if ctx.out_of_time() {
            rep.cap(format!("utf8/{}: wall-clock cap at L={}", alpha, len));
            return;
        }
    }
}

pub fn run(ctx: &mut Ctx, rep: &mut Report) {
    // each alphabet has its own index range, so that the partition into shards does not depend on the order; even
    // shards encode DNA first and protein second, odd shards the other way round (process-wide state shared between
    // the alphabets - lookup tables built on first use - is exercised in both orders)
    let mut base_dna = 0u64;
    let mut base_prot = 1u64 << 40;
    if ctx.shard % 2 == 0 {
        EARLIER.with(|x| x.set(None));
        run_alpha::<Dna>("dna", ctx, rep, &mut base_dna);
        EARLIER.with(|x| x.set(Some("dna")));
        run_alpha::<Protein>("protein", ctx, rep, &mut base_prot);
    } else {
        EARLIER.with(|x| x.set(None));
        run_alpha::<Protein>("protein", ctx, rep, &mut base_prot);
        EARLIER.with(|x| x.set(Some("protein")));
        run_alpha::<Dna>("dna", ctx, rep, &mut base_dna);
    }
    rep.note("even shards encode DNA before protein, odd shards protein before DNA; every recorded case names the alphabet used earlier in its process and the replay encodes a text of that alphabet first");
    let _ = model::DNA_LETTERS;
}

pub fn replay(_ctx: &mut Ctx, rep: &mut Report, case: &Value) {
    rep.space("replay", "replay of one recorded text");
    let alpha = case["alphabet"].as_str().unwrap();
    let text: Vec<u8> = case["text_bytes"].as_array().unwrap().iter().map(|x| x.as_u64().unwrap() as u8).collect();
    let cfgname = case["cfg"].as_str().unwrap();
    if let Some(earlier) = case["alphabet_used_earlier_in_this_process"].as_str() {
        warm_up(earlier);
    }
    fn go<A: Alphabet>(alpha: &str, cfgname: &str, text: &[u8], rep: &mut Report) {
        for cfg in cfgs::ALL_ECFGS {
            if cfgname == "all" || cfgname == cfg.name() {
                rep.eval_distinct(true);
                if let Err((sig, msg)) = check_one::<A>(cfg, text) {
                    rep.violation(format!("C05 {} {} {}", alpha, cfg.name(), sig), msg, || case_json(alpha, cfg.name(), text));
                }
            }
        }
        for arm in cfgs::FORCED {
            let n = format!("api[{}]", cfgs::arm_name(arm));
            if cfgname == "all" || cfgname == n {
                rep.eval_distinct(true);
                if let Err((sig, msg)) = check_api::<A>(arm, text) {
                    rep.violation(format!("C05 {} {} {}", alpha, n, sig), msg, || case_json(alpha, &n, text));
                }
            }
        }
    }
    if alpha == "dna" {
        go::<Dna>(alpha, cfgname, &text, rep)
    } else {
        go::<Protein>(alpha, cfgname, &text, rep)
    }
}
