//! Reference models (DESIGN §1.3): boring, independent of the code under test.
//! Sequences are `Vec<u8>` of symbol ranks kept *linear*; matrices are `Vec<Vec<f32>>`.

#![allow(dead_code)]

use lightmotif::abc::{Alphabet, Background, Symbol};
use lightmotif::dense::DenseMatrix;
use lightmotif::num::Unsigned;
use lightmotif::pwm::ScoringMatrix;

pub const DNA_LETTERS: &[u8] = b"ACTGN";
pub const PROTEIN_LETTERS: &[u8] = b"ACDEFGHIKLMNPQRSTVWYX";

/// Convert ranks to the library's symbol type.
pub fn to_symbols<A: Alphabet>(ranks: &[u8]) -> Vec<A::Symbol> {
    let syms = A::symbols();
    ranks.iter().map(|&r| syms[r as usize]).collect()
}

pub fn ranks_to_text(letters: &[u8], ranks: &[u8]) -> String {
    ranks.iter().map(|&r| letters[r as usize] as char).collect()
}

pub fn k_of<A: Alphabet>() -> usize {
    A::K::USIZE
}

/// Build a library scoring matrix from plain rows (uniform background).
pub fn scoring<A: Alphabet>(rows: &[Vec<f32>]) -> ScoringMatrix<A> {
    let data = DenseMatrix::<f32, A::K>::from_rows(rows.iter().map(|r| r.as_slice()).collect::<Vec<_>>());
    ScoringMatrix::new(Background::uniform(), data)
}

/// The same matrix built with `extra` more rows (large finite weights) and cut down with `DenseMatrix::resize`.
pub fn scoring_trimmed<A: Alphabet>(rows: &[Vec<f32>], extra: usize) -> ScoringMatrix<A> {
    let k = A::K::USIZE;
    let mut all: Vec<Vec<f32>> = rows.to_vec();
    for e in 0..extra {
        all.push((0..k).map(|j| 1000.0 + (e * k + j) as f32).collect());
    }
    let mut data = DenseMatrix::<f32, A::K>::from_rows(all.iter().map(|r| r.as_slice()).collect::<Vec<_>>());
    data.resize(rows.len());
    ScoringMatrix::new(Background::uniform(), data)
}

/// Reference: rows of the striped layout.
pub fn stripe_rows(len: usize, c: usize) -> usize {
    (len + c - 1) / c
}

/// Reference striping: cell (r, col) of the sequence rows.
pub fn striped_cell(seq: &[u8], rows: usize, r: usize, col: usize, wildcard: u8) -> u8 {
    let i = col * rows + r;
    if rows > 0 && i < seq.len() {
        seq[i]
    } else {
        wildcard
    }
}

/// Exact score (f64) of position `i`, and the sum of |terms| for the error bound.
/// Returns (score, abs_sum); score is -inf as soon as one term is.
pub fn ref_score(matrix: &[Vec<f32>], seq: &[u8], i: usize) -> (f64, f64) {
    let mut s = 0f64;
    let mut a = 0f64;
    let mut neg_inf = false;
    for (j, row) in matrix.iter().enumerate() {
        let t = row[seq[i + j] as usize];
        if t == f32::NEG_INFINITY {
            neg_inf = true;
        } else {
            s += t as f64;
            a += (t as f64).abs();
        }
    }
    if neg_inf {
        (f64::NEG_INFINITY, a)
    } else {
        (s, a)
    }
}

/// The f32 value obtained by adding the terms in order j = 0..M-1 into +0.0
/// (what every backend is documented to do).
pub fn ref_score_f32(matrix: &[Vec<f32>], seq: &[u8], i: usize) -> f32 {
    let mut s = 0f32;
    for (j, row) in matrix.iter().enumerate() {
        s += row[seq[i + j] as usize];
    }
    s
}

/// Recursive-summation error bound for an M-term f32 sum.
pub fn sum_bound(m: usize, abs_sum: f64) -> f64 {
    if m <= 1 {
        return 0.0;
    }
    (m as f64 - 1.0) * 2f64.powi(-24) * abs_sum * (1.0 + 2f64.powi(-20))
}

/// Does `got` agree with the exact score within the summation bound?
pub fn score_ok(got: f32, exact: f64, abs_sum: f64, m: usize) -> bool {
    if exact == f64::NEG_INFINITY {
        return got == f32::NEG_INFINITY;
    }
    if !got.is_finite() {
        return false;
    }
    // the exact sum rounded to f32 adds half an ulp
    let b = sum_bound(m, abs_sum) + (exact.abs() * 2f64.powi(-24));
    ((got as f64) - exact).abs() <= b
}

/// Digit pattern p over the non-wildcard symbols: symbol i = floor(i / (K-1)^p) mod (K-1).
pub fn digit_pattern(len: usize, k: usize, p: u32) -> Vec<u8> {
    let b = (k - 1) as u64;
    let d = b.pow(p);
    (0..len as u64).map(|i| ((i / d) % b) as u8).collect()
}

/// Same with the wildcard injected at i ≡ r (mod 7).
pub fn digit_pattern_wild(len: usize, k: usize, p: u32, r: usize) -> Vec<u8> {
    let mut v = digit_pattern(len, k, p);
    for (i, x) in v.iter_mut().enumerate() {
        if i % 7 == r {
            *x = (k - 1) as u8;
        }
    }
    v
}

/// Number of digit patterns needed so that any two positions < len differ in one.
pub fn n_digit_patterns(len: usize, k: usize) -> u32 {
    let b = (k - 1) as u64;
    let mut p = 1u32;
    while b.pow(p) <= len as u64 {
        p += 1;
    }
    p
}

/// A cyclic de Bruijn-like sequence containing every word of length `n` over `k`
/// symbols (standard FKM algorithm), unrolled linearly (first n-1 symbols appended).
pub fn de_bruijn(k: usize, n: usize) -> Vec<u8> {
    fn db(t: usize, p: usize, k: usize, n: usize, a: &mut Vec<u8>, out: &mut Vec<u8>) {
        if t > n {
            if n % p == 0 {
                out.extend_from_slice(&a[1..=p]);
            }
        } else {
            a[t] = a[t - p];
            db(t + 1, p, k, n, a, out);
            for j in (a[t - p] + 1)..(k as u8) {
                a[t] = j;
                db(t + 1, t, k, n, a, out);
            }
        }
    }
    let mut a = vec![0u8; k * n + 1];
    let mut out = Vec::new();
    db(1, 1, k, n, &mut a, &mut out);
    let head: Vec<u8> = out[..n - 1].to_vec();
    out.extend(head);
    out
}

/// All sequences of length `len` over `k` symbols, by index (mixed radix, last fastest).
pub fn nth_word(mut index: u64, len: usize, k: usize) -> Vec<u8> {
    let mut v = vec![0u8; len];
    for i in (0..len).rev() {
        v[i] = (index % k as u64) as u8;
        index /= k as u64;
    }
    v
}

pub fn f32_to_json(x: f32) -> serde_json::Value {
    if x.is_finite() {
        serde_json::json!(x)
    } else {
        serde_json::json!(format!("{}", x))
    }
}

pub fn f32_from_json(v: &serde_json::Value) -> f32 {
    match v {
        serde_json::Value::String(s) => match s.as_str() {
            "-inf" => f32::NEG_INFINITY,
            "inf" => f32::INFINITY,
            _ => f32::NAN,
        },
        _ => v.as_f64().unwrap() as f32,
    }
}

pub fn matrix_to_json(m: &[Vec<f32>]) -> serde_json::Value {
    serde_json::Value::Array(
        m.iter()
            .map(|r| serde_json::Value::Array(r.iter().map(|&x| f32_to_json(x)).collect()))
            .collect(),
    )
}

pub fn matrix_from_json(v: &serde_json::Value) -> Vec<Vec<f32>> {
    v.as_array()
        .unwrap()
        .iter()
        .map(|r| r.as_array().unwrap().iter().map(f32_from_json).collect())
        .collect()
}

pub fn ranks_from_json(v: &serde_json::Value) -> Vec<u8> {
    v.as_array()
        .unwrap()
        .iter()
        .map(|x| x.as_u64().unwrap() as u8)
        .collect()
}

/// rank vector -> as_index sanity (library symbols must agree with ranks)
pub fn sym_index<S: Symbol>(s: &S) -> u8 {
    s.as_index() as u8
}
