//! C02 — Scanner yields exactly the positions scoring at or above the threshold;
//! C03 — Scanner::max is a maximum-scoring position that meets the threshold (DESIGN §C02, §C03).
//!
//! The scanner is a small state machine (state: next block row, buffered hits). One configuration =
//! (sequence, matrix, threshold, block size, dispatcher arm). C02 drives `next()` to exhaustion (+2 calls);
//! C03 runs every history `next^k · max` (every prefix length k) on a fresh scanner.

use lightmotif::abc::Dna;
use lightmotif::num::U32;
use lightmotif::pli::dispatch::Dispatch;
use lightmotif::pli::{Pipeline, Stripe};
use lightmotif::scan::Scanner;
use lightmotif::seq::StripedSequence;
use lightmotif::verif::Forced;
use serde_json::{json, Value};
use vx_core::{catch, Ctx, Report};

use crate::cfgs::{self, with_arm};
use crate::model;

#[derive(Clone, Debug)]
pub struct Config {
    pub seq: Vec<u8>,
    pub matrix: Vec<Vec<f32>>,
    pub threshold: f32,
    pub block: usize,
    pub arm: Forced,
    pub origin: String,
    /// look-ahead rows the striped sequence was configured with BEFORE being configured for this motif
    /// (a sequence object reused after a scan with a shorter motif); None = freshly striped
    pub pre_wrap: Option<usize>,
    /// scan a CLONE of the configured sequence (a clone has no spare row capacity: any access past the last
    /// look-ahead row leaves the allocation)
    pub exact: bool,
    /// spare sequence rows of a hand-built striped sequence (StripedSequence::new); 0 = as striped by the library
    pub spare: usize,
    /// Some(n): the striped buffer first received a sequence of n symbols, then this sequence through `stripe_into`
    /// on the same object (ignored when `spare` > 0); None = freshly striped
    pub prev_len: Option<usize>,
}

impl Config {
    pub fn json(&self) -> Value {
        json!({
            "seq_ranks": self.seq,
            "seq_text": model::ranks_to_text(model::DNA_LETTERS, &self.seq[..self.seq.len().min(400)]),
            "len": self.seq.len(),
            "matrix": model::matrix_to_json(&self.matrix),
            "threshold": model::f32_to_json(self.threshold),
            "block_size": self.block,
            "arm": cfgs::arm_name(self.arm),
            "origin": self.origin,
            "pre_wrap": self.pre_wrap,
            "exact_capacity_clone": self.exact,
            "spare_rows": self.spare,
            "prev_len": self.prev_len,
        })
    }
    pub fn from_json(v: &Value) -> Config {
        Config {
            seq: model::ranks_from_json(&v["seq_ranks"]),
            matrix: model::matrix_from_json(&v["matrix"]),
            threshold: model::f32_from_json(&v["threshold"]),
            block: v["block_size"].as_u64().unwrap() as usize,
            arm: match v["arm"].as_str().unwrap() {
                "generic" => Forced::Generic,
                "sse2" => Forced::Sse2,
                _ => Forced::Avx2,
            },
            origin: v["origin"].as_str().unwrap_or("").into(),
            pre_wrap: v["pre_wrap"].as_u64().map(|x| x as usize),
            exact: v["exact_capacity_clone"].as_bool().unwrap_or(false),
            spare: v["spare_rows"].as_u64().unwrap_or(0) as usize,
            prev_len: v["prev_len"].as_u64().map(|x| x as usize),
        }
    }
}

/// Reference: (position, exact f64 score, abs-sum, f32 sequential sum) for all valid positions.
struct Oracle {
    exact: Vec<(f64, f64)>,
    /// the row-order f32 sum of every position: what every scoring path of the library returns bit for bit
    /// (C01 checks the identity across configurations and against the exact sum); the scanner decides on it
    f32sum: Vec<f32>,
    m: usize,
}

impl Oracle {
    fn new(cfg: &Config) -> Oracle {
        let l = cfg.seq.len();
        let m = cfg.matrix.len();
        let valid = if l >= m { l - m + 1 } else { 0 };
        Oracle {
            exact: (0..valid).map(|i| model::ref_score(&cfg.matrix, &cfg.seq, i)).collect(),
            f32sum: (0..valid).map(|i| model::ref_score_f32(&cfg.matrix, &cfg.seq, i)).collect(),
            m,
        }
    }
    /// Some(true): must be reported; Some(false): must not; None: within rounding of the threshold.
    fn must(&self, i: usize, t: f32) -> Option<bool> {
        let (ex, ab) = self.exact[i];
        if ex == f64::NEG_INFINITY {
            return Some(false);
        }
        if STRICT.with(|x| x.get()) {
            return Some(self.f32sum[i] >= t);
        }
        let b = model::sum_bound(self.m, ab) + ex.abs() * 2f64.powi(-24);
        if ex - b >= t as f64 {
            Some(true)
        } else if ex + b < t as f64 {
            Some(false)
        } else {
            None
        }
    }
}

thread_local! {
    /// Decide hits on the row-order f32 sum exactly (no rounding zone around the threshold).
    static STRICT: std::cell::Cell<bool> = const { std::cell::Cell::new(true) };
}

pub enum After {
    /// drive next() to exhaustion
    Exhaust,
    /// k × next(), then max()
    Max(usize),
    /// k × next(), then `threshold(t2)` on the SAME scanner, then next() to exhaustion
    Rethreshold(usize, f32),
    /// `next^k . block_size(b2) . next*` on one scanner (hits after the change go to `post`)
    Reblock(usize, usize),
    /// `next^k . threshold(t2) . max()` on one scanner
    RethresholdMax(usize, f32),
    /// k × next(), then the best remaining hit asked through the ITERATOR interface: `scanner.by_ref().max()`
    /// (`Iterator::max` on `&mut Scanner`, which ranks hits by `Ord for Hit` and not by `Scanner::max`)
    MaxByRef(usize),
}

pub struct RunOut {
    /// hits yielded after the threshold was changed (`After::Rethreshold` only)
    pub post: Vec<(usize, f32)>,
    /// the first phase of `After::Rethreshold` ran into None
    pub pre_exhausted: bool,
    pub hits: Vec<(usize, f32)>,
    pub extra_after_none: usize,
    pub max: Option<Option<(usize, f32)>>,
    pub calls: usize,
}

pub fn run_scanner(cfg: &Config, after: &After) -> Result<RunOut, String> {
    catch(|| {
        with_arm(cfg.arm, || {
            let pssm = model::scoring::<Dna>(&cfg.matrix);
            let syms = model::to_symbols::<Dna>(&cfg.seq);
            let mut striped: StripedSequence<Dna, U32> = match cfg.prev_len {
                Some(n) if cfg.spare == 0 => {
                    let prev: Vec<u8> = (0..n).map(|i| ((i * 7 + 1) % 4) as u8).collect();
                    let mut st: StripedSequence<Dna, U32> = Pipeline::<Dna, Dispatch>::dispatch().stripe(&model::to_symbols::<Dna>(&prev));
                    // the earlier use of the buffer: configured for this motif, as a scan would have left it
                    st.configure(&pssm);
                    Pipeline::<Dna, Dispatch>::dispatch().stripe_into(&syms, &mut st);
                    st
                }
                _ => cfgs::respread(Pipeline::<Dna, Dispatch>::dispatch().stripe(&syms), &syms, cfg.spare),
            };
            if let Some(w) = cfg.pre_wrap {
                striped.configure_wrap(w);
            }
            striped.configure(&pssm);
            if cfg.exact {
                striped = striped.clone();
            }
            let mut sc = Scanner::new(&pssm, &striped);
            sc.threshold(cfg.threshold);
            sc.block_size(cfg.block);
            let mut out = RunOut { post: Vec::new(), pre_exhausted: false, hits: Vec::new(), extra_after_none: 0, max: None, calls: 0 };
            match after {
                After::Exhaust => {
                    let horizon = cfg.seq.len() + 3;
                    let mut ended = false;
                    for _ in 0..horizon {
                        out.calls += 1;
                        match sc.next() {
                            Some(h) => out.hits.push((h.position(), h.score())),
                            None => {
                                ended = true;
                                break;
                            }
                        }
                    }
                    if !ended {
                        // more Some()s than positions: livelock verdict, flagged by the caller through hits.len()
                        return out;
                    }
                    for _ in 0..2 {
                        out.calls += 1;
                        if sc.next().is_some() {
                            out.extra_after_none += 1;
                        }
                    }
                }
                After::Rethreshold(k, t2) => {
                    for _ in 0..*k {
                        out.calls += 1;
                        match sc.next() {
                            Some(h) => out.hits.push((h.position(), h.score())),
                            None => {
                                out.pre_exhausted = true;
                                break;
                            }
                        }
                    }
                    sc.threshold(*t2);
                    for _ in 0..cfg.seq.len() + 3 {
                        out.calls += 1;
                        match sc.next() {
                            Some(h) => out.post.push((h.position(), h.score())),
                            None => break,
                        }
                    }
                }
                After::Reblock(k, b2) => {
                    for _ in 0..*k {
                        out.calls += 1;
                        match sc.next() {
                            Some(h) => out.hits.push((h.position(), h.score())),
                            None => {
                                out.pre_exhausted = true;
                                break;
                            }
                        }
                    }
                    sc.block_size(*b2);
                    for _ in 0..cfg.seq.len() + 3 {
                        out.calls += 1;
                        match sc.next() {
                            Some(h) => out.post.push((h.position(), h.score())),
                            None => break,
                        }
                    }
                }
                After::RethresholdMax(k, t2) => {
                    for _ in 0..*k {
                        out.calls += 1;
                        match sc.next() {
                            Some(h) => out.hits.push((h.position(), h.score())),
                            None => break,
                        }
                    }
                    sc.threshold(*t2);
                    out.calls += 1;
                    out.max = Some(sc.max().map(|h| (h.position(), h.score())));
                }
                After::MaxByRef(k) => {
                    for _ in 0..*k {
                        out.calls += 1;
                        match sc.next() {
                            Some(h) => out.hits.push((h.position(), h.score())),
                            None => break,
                        }
                    }
                    out.calls += 1;
                    out.max = Some(sc.by_ref().max().map(|h| (h.position(), h.score())));
                }
                After::Max(k) => {
                    for _ in 0..*k {
                        out.calls += 1;
                        match sc.next() {
                            Some(h) => out.hits.push((h.position(), h.score())),
                            None => break,
                        }
                    }
                    out.calls += 1;
                    out.max = Some(sc.max().map(|h| (h.position(), h.score())));
                }
            }
            out
        })
    })
}

/// C02 oracle on one exhausted run.
pub fn judge_hits(cfg: &Config, or: &Oracle, out: &RunOut) -> Result<(), (String, String)> {
    let valid = or.exact.len();
    if out.hits.len() > cfg.seq.len() + 1 {
        return Err(("livelock".into(), format!("{} hits yielded for a sequence of length {} without reaching the end", out.hits.len(), cfg.seq.len())));
    }
    if out.extra_after_none > 0 {
        return Err(("hit after end".into(), "next() returned a hit after having returned None".into()));
    }
    let mut seen = vec![false; valid];
    for &(p, s) in &out.hits {
        if p >= valid {
            return Err(("position out of range".into(), format!("hit at position {} but the last valid position is {} (L={}, M={})", p, valid as i64 - 1, cfg.seq.len(), or.m)));
        }
        if seen[p] {
            return Err(("duplicate hit".into(), format!("position {} yielded twice", p)));
        }
        seen[p] = true;
        let (ex, ab) = or.exact[p];
        if !model::score_ok(s, ex, ab, or.m) {
            return Err(("wrong score".into(), format!("hit at position {} carries score {} but the exact score is {}", p, s, ex)));
        }
        if STRICT.with(|x| x.get()) && !(s == or.f32sum[p]) {
            return Err(("hit score differs from the row-order sum".into(), format!("hit at position {} carries score {:?} but every scoring path returns the row-order f32 sum {:?}", p, s, or.f32sum[p])));
        }
        if or.must(p, cfg.threshold) == Some(false) {
            return Err(("hit below threshold".into(), format!("position {} scoring {} yielded with threshold {}", p, ex, cfg.threshold)));
        }
    }
    for p in 0..valid {
        if !seen[p] && or.must(p, cfg.threshold) == Some(true) {
            return Err(("missed hit".into(), format!("position {} scores {} >= threshold {} but was not yielded (L={}, M={}, block={})", p, or.exact[p].0, cfg.threshold, cfg.seq.len(), or.m, cfg.block)));
        }
    }
    Ok(())
}

/// Oracle for `threshold(t1) . next^k . threshold(t2) . next*`: the blocks after the block of the last hit
/// yielded before the change had not been scored when the threshold changed (the scanner scores a block only
/// when its hit buffer is empty), so every position of those blocks meeting t2 must be yielded; nothing yielded
/// may be below min(t1, t2), nothing in those later blocks below t2, nothing twice.
pub fn judge_rethreshold(cfg: &Config, or: &Oracle, out: &RunOut, k: usize, t2: f32) -> Result<(), (String, String)> {
    let valid = or.exact.len();
    let l = cfg.seq.len();
    let r = (l + 31) / 32;
    let t1 = cfg.threshold;
    let tmin = t1.min(t2);
    let mut seen = vec![false; valid];
    for (phase, list) in [(0, &out.hits), (1, &out.post)] {
        for &(p, s) in list.iter() {
            if p >= valid {
                return Err(("position out of range".into(), format!("hit at position {} but the last valid position is {}", p, valid as i64 - 1)));
            }
            if seen[p] {
                return Err(("duplicate hit".into(), format!("position {} yielded twice", p)));
            }
            seen[p] = true;
            let (ex, ab) = or.exact[p];
            if !model::score_ok(s, ex, ab, or.m) {
                return Err(("wrong score".into(), format!("hit at position {} carries score {} but the exact score is {}", p, s, ex)));
            }
            let t = if phase == 0 { t1 } else { tmin };
            if or.must(p, t) == Some(false) {
                return Err(("hit below threshold".into(), format!("position {} scoring {} yielded with thresholds {} then {}", p, ex, t1, t2)));
            }
        }
    }
    if out.pre_exhausted {
        return Ok(());
    }
    // first block that was certainly unscored when the threshold changed
    let first_pending_row = match out.hits.last() {
        Some(&(p, _)) if k > 0 => ((p % r.max(1)) / cfg.block + 1) * cfg.block,
        _ => 0,
    };
    for p in 0..valid {
        let row = p % r.max(1);
        // a position meeting BOTH thresholds is owed whatever the state of its block at the change: either it was
        // confirmed against t1 and sits in the hit buffer (which a threshold change must not lose - seeded change
        // C08-v cleared it), or its block is scored later against t2
        if !seen[p] && or.must(p, t1.max(t2)) == Some(true) {
            return Err((
                "missed hit meeting both thresholds".into(),
                format!(
                    "threshold {} -> {} after {} hit(s): position {} (row {}) scores {} >= both thresholds but was never yielded (L={}, M={}, block={})",
                    t1, t2, k, p, row, or.exact[p].0, l, or.m, cfg.block
                ),
            ));
        }
        if row < first_pending_row {
            continue;
        }
        if !seen[p] && or.must(p, t2) == Some(true) {
            return Err((
                "missed hit after threshold change".into(),
                format!(
                    "threshold {} -> {} after {} hit(s): position {} (row {}, in a block not yet scored at the change) scores {} >= {} but was not yielded (L={}, M={}, block={})",
                    t1, t2, k, p, row, or.exact[p].0, t2, l, or.m, cfg.block
                ),
            ));
        }
        if seen[p] && out.post.iter().any(|h| h.0 == p) && or.must(p, t2) == Some(false) {
            return Err(("hit below the new threshold".into(), format!("position {} (block scored after the change) scoring {} yielded with threshold {}", p, or.exact[p].0, t2)));
        }
    }
    Ok(())
}

/// C03 oracle for one `next^k · max` history.
pub fn judge_max(cfg: &Config, or: &Oracle, out: &RunOut) -> Result<(), (String, String)> {
    let valid = or.exact.len();
    let mut consumed = vec![false; valid];
    for &(p, _) in &out.hits {
        if p < valid {
            consumed[p] = true;
        }
    }
    // H = positions that must / may still be reported
    let mut best_must = f64::NEG_INFINITY;
    let mut best_may = f64::NEG_INFINITY;
    let mut slack = 0f64;
    for p in 0..valid {
        if consumed[p] {
            continue;
        }
        let (ex, ab) = or.exact[p];
        let b = model::sum_bound(or.m, ab) + ex.abs() * 2f64.powi(-24);
        match or.must(p, cfg.threshold) {
            Some(true) => {
                if ex > best_must {
                    best_must = ex;
                }
                if ex > best_may {
                    best_may = ex;
                }
                slack = slack.max(b);
            }
            None => {
                if ex > best_may {
                    best_may = ex;
                }
                slack = slack.max(b);
            }
            Some(false) => {}
        }
    }
    match out.max.unwrap() {
        None => {
            if best_must > f64::NEG_INFINITY {
                return Err(("max None".into(), format!("max() = None but an unconsumed position scores {} >= threshold {}", best_must, cfg.threshold)));
            }
        }
        Some((p, s)) => {
            if p >= valid {
                return Err(("max position out of range".into(), format!("max() at position {} but the last valid position is {}", p, valid as i64 - 1)));
            }
            if consumed[p] {
                return Err(("max returns consumed hit".into(), format!("max() returned position {} which next() had already yielded", p)));
            }
            let (ex, ab) = or.exact[p];
            if !model::score_ok(s, ex, ab, or.m) {
                return Err(("max wrong score".into(), format!("max() at position {} carries score {} but the exact score is {}", p, s, ex)));
            }
            if or.must(p, cfg.threshold) == Some(false) {
                return Err(("max below threshold".into(), format!("max() = position {} scoring {} which is below the threshold {}", p, ex, cfg.threshold)));
            }
            if ex + 2.0 * slack < best_must {
                return Err(("max not maximal".into(), format!("max() = position {} scoring {} but unconsumed position(s) score {}", p, ex, best_must)));
            }
            let _ = best_may;
        }
    }
    Ok(())
}

// ---------------------------------------------------------------------------
// configuration menus
// ---------------------------------------------------------------------------

/// Rows chosen to create exact ties and near-ties (8-bit images of two windows order differently from their real scores).
pub fn row_menu() -> Vec<[f32; 4]> {
    vec![
        [1.0, 0.0, -1.0, 2.0],
        [0.0, 0.4, 1.0, 1.6],
        [0.0, 0.6, 1.0, 1.4],
        [-2.0, -2.0, 3.0, 0.5],
        [0.0, 0.0, 0.0, 0.0],
        [1.5, -0.5, 0.25, 1.5],
        // designed pair (used as rows 0 and 1 of a 2-column motif): byte step is exactly 1/64;
        // window "CC" has byte score 33+33 = 66 for a real score of 1+2/1024, window "TT" has byte
        // score 33+32 = 65 for the larger real score 65/64 -- the 8-bit order inverts the real order
        [0.0, 0.5 + 1.0 / 1024.0, 33.0 / 64.0, 2.953125],
        [0.0, 0.5 + 1.0 / 1024.0, 0.5, 1.0],
    ]
}

pub fn matrix_from_digits(digits: &[u8], wild: usize) -> Vec<Vec<f32>> {
    let rows = row_menu();
    digits
        .iter()
        .map(|&d| {
            let r = rows[d as usize];
            let mut v = r.to_vec();
            v.push(match wild {
                0 => f32::NEG_INFINITY,
                // finite wildcard column (user-built ScoringMatrix::new): lower than every row entry
                1 => -3.0,
                // finite wildcard ABOVE the row minimum (a "neutral" wildcard: mean of the row)
                2 => (r[0] + r[1] + r[2] + r[3]) / 4.0,
                // wildcard ABOVE every entry of its row (e.g. pseudocounts on all columns with a rare-N background):
                // max_score() and the 8-bit scale ignore the wildcard column, so windows holding several N exceed the
                // 8-bit headroom and rely on saturation
                _ => r.iter().cloned().fold(f32::MIN, f32::max) + 0.25 * (r.iter().cloned().fold(f32::MIN, f32::max) - r.iter().cloned().fold(f32::MAX, f32::min)) + 0.125,
            });
            v
        })
        .collect()
}

/// Threshold menu derived from the scores attainable on this sequence (+ matrix extremes).
pub fn threshold_menu(cfg_matrix: &[Vec<f32>], seq: &[u8], max_n: usize) -> Vec<f32> {
    let m = cfg_matrix.len();
    let mut scores: Vec<f32> = Vec::new();
    if seq.len() >= m {
        for i in 0..=seq.len() - m {
            let s = model::ref_score_f32(cfg_matrix, seq, i);
            if s.is_finite() {
                scores.push(s);
            }
        }
    }
    let mn: f32 = cfg_matrix.iter().map(|r| r[..4].iter().cloned().fold(f32::INFINITY, f32::min)).sum();
    let mx: f32 = cfg_matrix.iter().map(|r| r[..4].iter().cloned().fold(f32::NEG_INFINITY, f32::max)).sum();
    scores.push(mn);
    scores.push(mx);
    scores.sort_by(|a, b| a.partial_cmp(b).unwrap());
    scores.dedup();
    let mut ts: Vec<f32> = vec![mn - 100.0, mn - 1.0, mx + 1.0];
    // every distinct attainable score and the midpoints between neighbours (thinned to max_n evenly ranked ones)
    let step = (scores.len() + max_n - 1) / max_n.max(1);
    let step = step.max(1);
    let mut i = 0;
    while i < scores.len() {
        ts.push(scores[i]);
        if i + 1 < scores.len() {
            ts.push((scores[i] + scores[i + 1]) * 0.5);
        }
        i += step;
    }
    ts.push(*scores.last().unwrap());
    ts.sort_by(|a, b| a.partial_cmp(b).unwrap());
    ts.dedup();
    ts
}

fn content(l: usize, pat: usize) -> Vec<u8> {
    match pat {
        // order-3 de Bruijn cycle over ACTG repeated
        0 => {
            let db = model::de_bruijn(4, 3);
            (0..l).map(|i| db[i % 64]).collect()
        }
        1 => vec![3u8; l],
        // period-5 with wildcard
        _ => (0..l).map(|i| [0u8, 1, 4, 2, 3][i % 5]).collect(),
    }
}

pub const BLOCKS: [usize; 8] = [1, 2, 3, 4, 5, 7, 8, 256];

/// Which property is being decided.
#[derive(Clone, Copy, PartialEq)]
pub enum Mode {
    C02,
    C03,
}

struct Sink<'a> {
    quick: bool,
    mode: Mode,
    rep: &'a mut Report,
    states: u64,
    transitions: u64,
}

impl<'a> Sink<'a> {
    fn config(&mut self, cfg: &Config, or: &Oracle) {
        let pid = if self.mode == Mode::C02 { "C02" } else { "C03" };
        let nontrivial = !or.exact.is_empty();
        match self.mode {
            Mode::C02 => {
                self.rep.eval_distinct(nontrivial);
                match run_scanner(cfg, &After::Exhaust) {
                    Err(p) => self.rep.violation(
                        format!("{} {} panic {}", pid, cfgs::arm_name(cfg.arm), vx_core::util::panic_class(&p)),
                        format!("panic: {} (L={}, M={}, block={}, threshold={})", p, cfg.seq.len(), cfg.matrix.len(), cfg.block, cfg.threshold),
                        || cfg.json(),
                    ),
                    Ok(out) => {
                        self.transitions += out.calls as u64;
                        self.states += out.calls as u64 + 1;
                        if let Err((sig, msg)) = judge_hits(cfg, or, &out) {
                            self.rep.violation(format!("{} {} {}", pid, cfgs::arm_name(cfg.arm), sig), msg, || cfg.json());
                        }
                    }
                }
            }
            Mode::C03 => {
                // number of hits decides the prefix lengths
                let nhits = (0..or.exact.len()).filter(|&p| or.must(p, cfg.threshold) != Some(false)).count();
                let ks: Vec<usize> = if nhits <= 40 {
                    (0..=nhits + 1).collect()
                } else {
                    let mut v = vec![0, 1, 2, 3, nhits / 3, nhits / 2, nhits - 1, nhits, nhits + 1];
                    v.sort();
                    v.dedup();
                    v
                };
                // the same question asked through the iterator interface (Ord for Hit), for a few prefixes
                let by_ref_ks: &[usize] = if self.quick { &[0] } else { &[0, 1, usize::MAX] };
                for &k in by_ref_ks {
                    let k = if k == usize::MAX { nhits / 2 } else { k };
                    if k > nhits || (self.quick && nhits < 2) {
                        continue;
                    }
                    self.rep.eval_distinct(nontrivial);
                    match run_scanner(cfg, &After::MaxByRef(k)) {
                        Err(p) => self.rep.violation(
                            format!("{} {} by_ref().max() panic {}", pid, cfgs::arm_name(cfg.arm), vx_core::util::panic_class(&p)),
                            format!("panic: {} (k={}, L={}, M={}, block={}, threshold={})", p, k, cfg.seq.len(), cfg.matrix.len(), cfg.block, cfg.threshold),
                            || {
                                let mut j = cfg.json();
                                j["k"] = json!(k);
                                j["by_ref"] = json!(true);
                                j
                            },
                        ),
                        Ok(out) => {
                            self.transitions += out.calls as u64;
                            self.states += 1;
                            if let Err((sig, msg)) = judge_max(cfg, or, &out) {
                                self.rep.violation(format!("{} {} by_ref().max() {}", pid, cfgs::arm_name(cfg.arm), sig), format!("after {} next() calls, scanner.by_ref().max(): {}", k, msg), || {
                                    let mut j = cfg.json();
                                    j["k"] = json!(k);
                                    j["by_ref"] = json!(true);
                                    j
                                });
                            }
                        }
                    }
                }
                for k in ks {
                    self.rep.eval_distinct(nontrivial);
                    match run_scanner(cfg, &After::Max(k)) {
                        Err(p) => {
                            self.rep.violation(
                                format!("{} {} panic {}", pid, cfgs::arm_name(cfg.arm), vx_core::util::panic_class(&p)),
                                format!("panic: {} (k={}, L={}, M={}, block={}, threshold={})", p, k, cfg.seq.len(), cfg.matrix.len(), cfg.block, cfg.threshold),
                                || {
                                    let mut j = cfg.json();
                                    j["k"] = json!(k);
                                    j
                                },
                            );
                        }
                        Ok(out) => {
                            self.transitions += out.calls as u64;
                            self.states += 1;
                            if let Err((sig, msg)) = judge_max(cfg, or, &out) {
                                self.rep.violation(format!("{} {} {}", pid, cfgs::arm_name(cfg.arm), sig), format!("after {} next() calls: {}", k, msg), || {
                                    let mut j = cfg.json();
                                    j["k"] = json!(k);
                                    j
                                });
                            }
                        }
                    }
                }
            }
        }
    }
}

fn sweep(mode: Mode, ctx: &mut Ctx, rep: &mut Report) {
    let mut base = 0u64;
    let mut sink = Sink { quick: ctx.quick(), mode, rep, states: 0, transitions: 0 };
    let nrows = row_menu().len();

    // ---- (i) content-exhaustive: ALL DNA strings of length <= 5 --------------------------------
    if ctx.wants("small") {
        sink.rep.space(
            "small",
            "ALL 3906 strings over {A,C,T,G,N} of length 0..=5 (covers empty, L<M, L=M) x matrices: all 8^M for M<=2 from an 8-row tie/near-tie menu (incl. a designed pair whose 8-bit order inverts the real order) + every 16th of M=3 (thorough: all) x wildcard column {-inf, finite below every entry, finite row mean, finite ABOVE every entry of its row} \
             x thresholds {below min, min-1, every distinct attainable score, midpoints, max, above max} x block sizes {1,256} x dispatcher arms {generic,sse2,avx2}; \
             non-trivial = L>=M",
        );
        for m in 1..=3usize {
            let nmat = (nrows as u64).pow(m as u32);
            for mi in 0..nmat {
                if m == 3 && ctx.quick() && mi % 16 != 1 {
                    continue;
                }
                for wild in 0..4 {
                    // quick tier, M = 3: the neutral-wildcard kind only for every 64th matrix
                    if m == 3 && wild >= 2 && ctx.quick() && mi % 64 != 1 {
                        continue;
                    }
                    // quick tier, C03 (every next^k.max history is re-executed): the wildcard-above kind on every 4th matrix of M = 2
                    if mode == Mode::C03 && m == 2 && wild == 3 && ctx.quick() && mi % 4 != 1 {
                        continue;
                    }
                    let idx = base;
                    base += 1;
                    if !ctx.mine(idx) {
                        continue;
                    }
                    let matrix = matrix_from_digits(&model::nth_word(mi, m, nrows), wild);
                    for l in 0..=5usize {
                        for si in 0..5u64.pow(l as u32) {
                            let seq = model::nth_word(si, l, 5);
                            let ts = threshold_menu(&matrix, &seq, if ctx.quick() { 4 } else { 8 });
                            let probe = Config { seq: seq.clone(), matrix: matrix.clone(), threshold: 0.0, block: 1, arm: Forced::Generic, origin: String::new(), pre_wrap: None, exact: false, spare: 0, prev_len: None };
                            let or = Oracle::new(&probe);
                            for &t in &ts {
                                for &block in &[1usize, 256] {
                                    for arm in cfgs::FORCED {
                                        let cfg = Config {
                                            seq: seq.clone(),
                                            matrix: matrix.clone(),
                                            threshold: t,
                                            block,
                                            arm,
                                            origin: format!("small L={} seq#{} M={} matrix#{} wild={}", l, si, m, mi, wild),
                                            pre_wrap: None,
                                            exact: false,
                                            spare: 0,
                                            prev_len: None,
                                        };
                                        sink.config(&cfg, &or);
                                        if l == 4 && si == 200 && mi == 1 && block == 1 && arm == Forced::Avx2 {
                                            sink.rep.sample_space(1, || cfg.json());
                                        }
                                    }
                                }
                            }
                        }
                    }
                }
                if ctx.out_of_time() {
                    sink.rep.cap(format!("small: wall-clock cap at M={} matrix#{}", m, mi));
                    break;
                }
            }
        }
    }

    // ---- (ii) shapes: every L in 0..=170, all block sizes ---------------------------------------
    if ctx.wants("shapes") && !ctx.capped {
        sink.rep.space(
            "shapes",
            "every length L in 0..=170 (R<=6 sequence rows, so with block sizes 1..8 every relative position of a block boundary w.r.t. the sequence rows and the M-1 look-ahead rows occurs) plus L = 8192 +- {0,32,64} (+-1) \
             x 3 contents (de Bruijn cycle, constant, period-5 with wildcard) x matrix menu (M in 1..=4, 14 matrices; thorough 40) x wildcard column {-inf, finite below every entry, finite row mean, finite ABOVE every entry of its row} x striped sequence {fresh, previously configured for a shorter motif, previously configured for a longer motif, a buffer that held another (longer or shorter) sequence and was refilled through stripe_into under the arm (always for L<3)} x thresholds (<= 4 (thorough 8) evenly ranked attainable scores, their midpoints, + extremes) \
             x block sizes {1,2,3,4,5,7,8,256} x 3 dispatcher arms",
        );
        let mut mats: Vec<(usize, u64)> = vec![(1, 0), (1, 3), (2, 7), (2, 8), (2, 20), (3, 44), (3, 100), (3, 215), (4, 0), (4, 333), (4, 800), (4, 1295), (2, 28), (3, 86), (2, 55), (3, 6 * 64 + 7 * 8 + 1), (4, 6 * 512 + 7 * 64 + 8 + 5)];
        if !ctx.quick() {
            for i in 0..26u64 {
                mats.push((((i % 4) + 1) as usize, (i * 37) % (nrows as u64).pow(((i % 4) + 1) as u32)));
            }
        }
        let mut lens: Vec<usize> = (0..=170).collect();
        lens.extend([8127, 8128, 8129, 8159, 8160, 8161, 8191, 8192, 8193, 8223, 8224, 8225, 8256]);
        for &l in &lens {
            let big = l > 1000;
            for pat in 0..3usize {
                let seq = content(l, pat);
                for (mm, &(m, mi)) in mats.iter().enumerate() {
                    if big && mm % 3 != 0 {
                        continue;
                    }
                    // quick tier: every matrix on the row-count boundaries, a third of them elsewhere
                    if ctx.quick() && !big && l > 70 && l % 32 > 2 && (mm + l) % 3 != 0 {
                        continue;
                    }
                    for wild in 0..4 {
                        let idx = base;
                        base += 1;
                        if !ctx.mine(idx) {
                            continue;
                        }
                        if mode == Mode::C03 && wild == 3 && ctx.quick() && (mm + l) % 2 != 0 {
                            continue;
                        }
                        let matrix = matrix_from_digits(&model::nth_word(mi, m, nrows), wild);
                        let ts = threshold_menu(&matrix, &seq, if big { 3 } else if ctx.quick() { 4 } else { 8 });
                        let probe = Config { seq: seq.clone(), matrix: matrix.clone(), threshold: 0.0, block: 1, arm: Forced::Generic, origin: String::new(), pre_wrap: None, exact: false, spare: 0, prev_len: None };
                        let or = Oracle::new(&probe);
                        let blocks: Vec<usize> = if big { vec![256, 255, 7, 300] } else { BLOCKS.to_vec() };
                        for &t in &ts {
                            for &block in &blocks {
                                for arm in cfgs::FORCED {
                                    // C03 on the big sequences with low thresholds is quadratic: extremes only
                                    if big && mode == Mode::C03 && t < ts[ts.len() / 2] {
                                        continue;
                                    }
                                    // the striped sequence object may have been used before with a shorter motif:
                                    // every second block size gets a sequence pre-configured with M-2 (or 1) look-ahead rows
                                    // even block sizes: configured for a shorter motif before; block sizes 3 and 7: for a LONGER one (wrap rows in excess)
                                    let pre_wrap = if m >= 2 && block % 2 == 0 { Some((m - 1).saturating_sub(1).max(1).min(m - 1)) } else if block == 3 || block == 7 { Some(m + 6) } else { None };
                                    let cfg = Config {
                                        seq: seq.clone(),
                                        matrix: matrix.clone(),
                                        threshold: t,
                                        block,
                                        arm,
                                        origin: format!("shapes L={} content={} M={} matrix#{} wild={} pre_wrap={:?}", l, pat, m, mi, wild, pre_wrap),
                                        pre_wrap,
                                        // every third threshold/block combination scans an exact-capacity clone
                                        exact: (block + m) % 3 == 0,
                                        // every fifth combination scans a hand-built sequence with 2 spare sequence rows
                                        spare: if (block + 2 * m + l) % 5 == 0 { 2 } else { 0 },
                                        // tiny sequences always, and every fourth other combination: the striped buffer held ANOTHER sequence before
                                        // and was refilled with stripe_into by the arm under test (seeded change C02-v: stale contents after an empty sequence)
                                        prev_len: if l < 3 || (block + m + l) % 4 == 1 { Some(if l < 64 { 64 + m } else { 10 }) } else { None },
                                    };
                                    sink.config(&cfg, &or);
                                    if l == 70 && pat == 0 && mm == 5 && block == 2 && arm == Forced::Sse2 {
                                        sink.rep.sample_space(1, || cfg.json());
                                    }
                                }
                            }
                        }
                    }
                }
            }
            if ctx.out_of_time() {
                sink.rep.cap(format!("shapes: wall-clock cap at L={}", l));
                break;
            }
        }
    }
    // ---- threshold changed in the middle of a scan (C02 only) -------------------------------------
    if mode == Mode::C02 && ctx.wants("rethreshold") {
        sink.rep.space(
            "rethreshold",
            "histories threshold(t1) . next^k . threshold(t2) . next* on ONE scanner: lengths {5,33,70,100,200} x 2 contents x matrices (M in 1..=3, 12 from the menu x wildcard {-inf, row mean}) x block sizes {1,2,3} x ordered pairs (t1,t2) of <= 5 attainable thresholds x k in 0..=6 x 3 dispatcher arms; \
             oracle: nothing yielded twice or below min(t1,t2); every position of a block not yet scored when the threshold changed that meets t2 is yielded, none of those below t2; every position meeting max(t1,t2) is yielded whatever the state of its block at the change (buffered hits survive a threshold change)",
        );
        let mats: Vec<(usize, u64)> = vec![(1, 0), (1, 3), (1, 6), (2, 1), (2, 14), (2, 55), (3, 9), (3, 100), (3, 511), (2, 62), (1, 5), (3, 300)];
        for &l in &[5usize, 33, 70, 100, 200] {
            for pat in [0usize, 2] {
                let seq = content(l, pat);
                for &(m, mi) in &mats {
                    for wild in [0usize, 2] {
                        let idx = base;
                        base += 1;
                        if !ctx.mine(idx) {
                            continue;
                        }
                        let matrix = matrix_from_digits(&model::nth_word(mi, m, nrows), wild);
                        let ts = threshold_menu(&matrix, &seq, 3);
                        let probe = Config { seq: seq.clone(), matrix: matrix.clone(), threshold: 0.0, block: 1, arm: Forced::Generic, origin: String::new(), pre_wrap: None, exact: false, spare: 0, prev_len: None };
                        let or = Oracle::new(&probe);
                        for &t1 in ts.iter().take(5) {
                            for &t2 in ts.iter().take(5) {
                                if t1 == t2 {
                                    continue;
                                }
                                for &block in &[1usize, 2, 3] {
                                    for arm in cfgs::FORCED {
                                        for k in 0..=6usize {
                                            let cfg = Config {
                                                seq: seq.clone(),
                                                matrix: matrix.clone(),
                                                threshold: t1,
                                                block,
                                                arm,
                                                origin: format!("rethreshold L={} content={} M={} matrix#{} wild={}", l, pat, m, mi, wild),
                                                pre_wrap: None,
                                                exact: false,
                                                spare: 0,
                                                prev_len: None,
                                            };
                                            sink.rep.eval_distinct(!or.exact.is_empty());
                                            sink.states += 1;
                                            let js = |cfg: &Config| {
                                                let mut j = cfg.json();
                                                j["kind"] = json!("rethreshold");
                                                j["k"] = json!(k);
                                                j["threshold2"] = model::f32_to_json(t2);
                                                j
                                            };
                                            match run_scanner(&cfg, &After::Rethreshold(k, t2)) {
                                                Err(p) => sink.rep.violation(format!("C02 {} rethreshold panic {}", cfgs::arm_name(arm), vx_core::util::panic_class(&p)), format!("panic: {}", p), || js(&cfg)),
                                                Ok(out) => {
                                                    sink.transitions += out.calls as u64;
                                                    if let Err((sig, msg)) = judge_rethreshold(&cfg, &or, &out, k, t2) {
                                                        sink.rep.violation(format!("C02 {} rethreshold {}", cfgs::arm_name(arm), sig), msg, || js(&cfg));
                                                    }
                                                }
                                            }
                                        }
                                    }
                                }
                            }
                        }
                    }
                }
            }
        }
    }
    // ---- threshold RAISED in the middle of a scan, then max() (C03 only) ------------------------------
    if mode == Mode::C03 && ctx.wants("rethreshold_max") {
        sink.rep.space(
            "rethreshold_max",
            "histories threshold(t1) . next^k . threshold(t2) . max() on ONE scanner with t2 > t1: lengths {33,70,100,200} x 2 contents x matrices (M in 1..=3, 12 from the menu x wildcard {-inf, row mean}) x block sizes {1,2,3,256} x ordered pairs t1 < t2 of <= 5 attainable thresholds x k in 0..=6 x 3 dispatcher arms; \
             oracle: as for next^k . max under threshold t2 - the position returned was not yielded before, meets t2 and no unconsumed position scores higher; None only if no unconsumed position meets t2",
        );
        let mats: Vec<(usize, u64)> = vec![(1, 0), (1, 3), (1, 6), (2, 1), (2, 14), (2, 55), (3, 9), (3, 100), (3, 511), (2, 62), (1, 5), (3, 300)];
        for &l in &[33usize, 70, 100, 200] {
            for pat in [0usize, 2] {
                let seq = content(l, pat);
                for &(m, mi) in &mats {
                    for wild in [0usize, 2] {
                        let idx = base;
                        base += 1;
                        if !ctx.mine(idx) {
                            continue;
                        }
                        let matrix = matrix_from_digits(&model::nth_word(mi, m, nrows), wild);
                        let ts = threshold_menu(&matrix, &seq, 3);
                        let probe = Config { seq: seq.clone(), matrix: matrix.clone(), threshold: 0.0, block: 1, arm: Forced::Generic, origin: String::new(), pre_wrap: None, exact: false, spare: 0, prev_len: None };
                        let or = Oracle::new(&probe);
                        for &t1 in ts.iter().take(5) {
                            for &t2 in ts.iter().take(6) {
                                if !(t2 > t1) {
                                    continue;
                                }
                                for &block in &[1usize, 2, 3, 256] {
                                    for arm in cfgs::FORCED {
                                        for k in 0..=6usize {
                                            let cfg = Config { seq: seq.clone(), matrix: matrix.clone(), threshold: t1, block, arm, origin: format!("rethreshold_max L={} content={} M={} matrix#{} wild={}", l, pat, m, mi, wild), pre_wrap: None, exact: false, spare: 0, prev_len: None };
                                            let cfg2 = Config { threshold: t2, ..cfg.clone() };
                                            sink.rep.eval_distinct(!or.exact.is_empty());
                                            sink.states += 1;
                                            let js = |cfg: &Config| {
                                                let mut j = cfg.json();
                                                j["kind"] = json!("rethreshold_max");
                                                j["k"] = json!(k);
                                                j["threshold2"] = model::f32_to_json(t2);
                                                j
                                            };
                                            match run_scanner(&cfg, &After::RethresholdMax(k, t2)) {
                                                Err(p) => sink.rep.violation(format!("C03 {} rethreshold_max panic {}", cfgs::arm_name(arm), vx_core::util::panic_class(&p)), format!("panic: {}", p), || js(&cfg)),
                                                Ok(out) => {
                                                    sink.transitions += out.calls as u64;
                                                    if let Err((sig, msg)) = judge_max(&cfg2, &or, &out) {
                                                        sink.rep.violation(format!("C03 {} rethreshold_max {}", cfgs::arm_name(arm), sig), format!("threshold {} -> {} after {} next() calls: {}", t1, t2, k, msg), || js(&cfg));
                                                    }
                                                }
                                            }
                                        }
                                    }
                                }
                            }
                        }
                    }
                }
            }
        }
    }
    // ---- block size changed in the middle of a scan (C02 only) -------------------------------------
    if mode == Mode::C02 && ctx.wants("reblock") {
        sink.rep.space(
            "reblock",
            "histories next^k . block_size(b2) . next* on ONE scanner built with block size b1: lengths {33,70,100,200} x 2 contents x matrices (M in 1..=3, 12 from the menu x wildcard {-inf, row mean}) x (b1, b2) ordered pairs of {1,2,3,5,256} x <= 3 attainable thresholds x k in 0..=6 x 3 dispatcher arms; \
             oracle: the hits before and after the change together are exactly the positions meeting the threshold, each once",
        );
        let mats: Vec<(usize, u64)> = vec![(1, 0), (1, 3), (1, 6), (2, 1), (2, 14), (2, 55), (3, 9), (3, 100), (3, 511), (2, 62), (1, 5), (3, 300)];
        for &l in &[33usize, 70, 100, 200] {
            for pat in [0usize, 2] {
                let seq = content(l, pat);
                for &(m, mi) in &mats {
                    for wild in [0usize, 2] {
                        let idx = base;
                        base += 1;
                        if !ctx.mine(idx) {
                            continue;
                        }
                        let matrix = matrix_from_digits(&model::nth_word(mi, m, nrows), wild);
                        let ts = threshold_menu(&matrix, &seq, 3);
                        let probe = Config { seq: seq.clone(), matrix: matrix.clone(), threshold: 0.0, block: 1, arm: Forced::Generic, origin: String::new(), pre_wrap: None, exact: false, spare: 0, prev_len: None };
                        let or = Oracle::new(&probe);
                        for &t1 in ts.iter().take(3) {
                            for &b1 in &[1usize, 2, 3, 5, 256] {
                                for &b2 in &[1usize, 2, 3, 5, 256] {
                                    if b1 == b2 {
                                        continue;
                                    }
                                    for arm in cfgs::FORCED {
                                        for k in 0..=6usize {
                                            let cfg = Config {
                                                seq: seq.clone(),
                                                matrix: matrix.clone(),
                                                threshold: t1,
                                                block: b1,
                                                arm,
                                                origin: format!("reblock L={} content={} M={} matrix#{} wild={}", l, pat, m, mi, wild),
                                                pre_wrap: None,
                                                exact: false,
                                                spare: 0,
                                                prev_len: None,
                                            };
                                            sink.rep.eval_distinct(!or.exact.is_empty());
                                            sink.states += 1;
                                            let js = |cfg: &Config| {
                                                let mut j = cfg.json();
                                                j["kind"] = json!("reblock");
                                                j["k"] = json!(k);
                                                j["block2"] = json!(b2);
                                                j
                                            };
                                            match run_scanner(&cfg, &After::Reblock(k, b2)) {
                                                Err(p) => sink.rep.violation(format!("C02 {} reblock panic {}", cfgs::arm_name(arm), vx_core::util::panic_class(&p)), format!("panic: {}", p), || js(&cfg)),
                                                Ok(mut out) => {
                                                    sink.transitions += out.calls as u64;
                                                    let post = std::mem::take(&mut out.post);
                                                    out.hits.extend(post);
                                                    if let Err((sig, msg)) = judge_hits(&cfg, &or, &out) {
                                                        sink.rep.violation(format!("C02 {} reblock {}", cfgs::arm_name(arm), sig), format!("{} [block size {} -> {} after {} hit(s)]", msg, b1, b2, k), || js(&cfg));
                                                    }
                                                }
                                            }
                                        }
                                    }
                                }
                            }
                        }
                    }
                }
            }
        }
    }
    // ---- matrices at the edges of the 8-bit discretisation: large common offsets; long motifs -----------
    if ctx.wants("extremes") && !ctx.capped {
        sink.rep.space(
            "extremes",
            "(a) all 5^M matrices, M in 1..=3, over five rows whose cells share a large offset relative to their spread (65536 + {0, 1/128, 1/2, 1}; 65536 + {1/4, 0, 1/8, 3/4}; 2^20 + {0, 1/2, 1, 2}; 65536 + {0, 1, 2, 3}/128; 65536 + {5, 0, 9, 2}/128; wildcard -inf): one discrete step is far smaller than the f32 rounding of a window score; \
             sequences of 33 / 70 / 200 symbols x 2 contents; (b) long motifs M in {40, 70, 100} (3 cell flavours whose rounded-up row maxima sum far past 255) on consensus / anti-consensus / every single-substitution neighbour; \
             x <= 4 (a) / 3 (b) attainable thresholds + below / above x block sizes {1, 256} x dispatcher arms {generic, sse2, avx2}; same oracle and histories as `small`",
        );
        let off_rows: [[f32; 4]; 5] = [
            [65536.0, 65536.0078125, 65536.5, 65537.0],
            [65536.25, 65536.0, 65536.125, 65536.75],
            [1048576.0, 1048576.5, 1048577.0, 1048578.0],
            // spreads of a few f32 steps only: the rounding error of a window score is worth tens of discrete levels
            [65536.0, 65536.0078125, 65536.015625, 65536.0234375],
            [65536.0390625, 65536.0, 65536.0703125, 65536.015625],
        ];
        for m in 1..=3usize {
            for mi in 0..5u64.pow(m as u32) {
                for &l in &[33usize, 70, 200] {
                    for pat in [0usize, 2] {
                        let idx = base;
                        base += 1;
                        if !ctx.mine(idx) {
                            continue;
                        }
                        let matrix: Vec<Vec<f32>> = model::nth_word(mi, m, 5)
                            .iter()
                            .map(|&d| {
                                let r = off_rows[d as usize];
                                vec![r[0], r[1], r[2], r[3], f32::NEG_INFINITY]
                            })
                            .collect();
                        let seq = content(l, pat);
                        let ts = threshold_menu(&matrix, &seq, 4);
                        let probe = Config { seq: seq.clone(), matrix: matrix.clone(), threshold: 0.0, block: 1, arm: Forced::Generic, origin: String::new(), pre_wrap: None, exact: false, spare: 0, prev_len: None };
                        let or = Oracle::new(&probe);
                        for &t in &ts {
                            for &block in &[1usize, 256] {
                                for arm in cfgs::FORCED {
                                    let cfg = Config { seq: seq.clone(), matrix: matrix.clone(), threshold: t, block, arm, origin: format!("extremes/offset L={} content={} M={} matrix#{}", l, pat, m, mi), pre_wrap: None, exact: false, spare: 0, prev_len: None };
                                    sink.config(&cfg, &or);
                                }
                            }
                        }
                    }
                }
            }
        }
        for &m in &[40usize, 70, 100] {
            for fl in 0..3usize {
                let idx = base;
                base += 1;
                if !ctx.mine(idx) {
                    continue;
                }
                let matrix = crate::c08::wide_matrix(m, fl);
                let seq = crate::c08::wide_sequence(&matrix);
                let ts = threshold_menu(&matrix, &seq, 3);
                let probe = Config { seq: seq.clone(), matrix: matrix.clone(), threshold: 0.0, block: 1, arm: Forced::Generic, origin: String::new(), pre_wrap: None, exact: false, spare: 0, prev_len: None };
                let or = Oracle::new(&probe);
                for &t in &ts {
                    for &block in &[1usize, 256] {
                        for arm in cfgs::FORCED {
                            let cfg = Config { seq: seq.clone(), matrix: matrix.clone(), threshold: t, block, arm, origin: format!("extremes/long-motif M={} flavour={}", m, fl), pre_wrap: None, exact: false, spare: 0, prev_len: None };
                            sink.config(&cfg, &or);
                        }
                    }
                }
                if ctx.out_of_time() {
                    sink.rep.cap(format!("extremes: wall-clock cap at M={}", m));
                    break;
                }
            }
        }
    }
    // ---- (iii) more than 65536 sequence rows: 16-bit row counters of the 8-bit kernels ----------
    if ctx.wants("huge") {
        sink.rep.space(
            "huge",
            "sequences with MORE THAN 65536 striped rows (L = 32*65536 + {100, 2100}: the 8-bit kernels keep 16-bit row indices per block) x block sizes {256, 65535, 65536, 65537, 2^20 (one block over all rows)}              x dispatcher arms {generic,sse2,avx2}; motif of width 5, background content with 6 planted sites (first row, rows around 65535/65536, last row, last valid position) ; threshold between background and site scores; same oracle as shapes",
        );
        for (li, &extra) in [100usize, 2100].iter().enumerate() {
            if ctx.quick() && li > 0 {
                continue;
            }
            let l = 32 * 65536 + extra;
            let rows = (l + 31) / 32;
            let m = 5usize;
            // background: alternating A/C (scores low); sites: GGTGT planted
            let mut seq: Vec<u8> = (0..l).map(|i| if i % 997 == 500 { 4 } else { (i % 2) as u8 }).collect();
            let site = [3u8, 3, 2, 3, 2];
            let positions = [0usize, 65535, 65536, rows - 1, rows + 65535, 31 * rows + 3, l - m];
            for &p in &positions {
                if p + m <= l {
                    seq[p..p + m].copy_from_slice(&site);
                }
            }
            // ranks: A=0 C=1 T=2 G=3 N=4
            let matrix: Vec<Vec<f32>> = (0..m)
                .map(|j| {
                    let mut r = vec![-1.0f32, -1.5, -2.0, -2.0, f32::NEG_INFINITY];
                    r[site[j] as usize] = 2.0 + j as f32 * 0.25;
                    r
                })
                .collect();
            let proto = Config { seq, matrix, threshold: 8.0, block: 256, arm: Forced::Avx2, origin: String::new(), pre_wrap: None, exact: false, spare: 0, prev_len: None };
            let or = Oracle::new(&proto);
            for &block in &[256usize, 65535, 65536, 65537, 1 << 20] {
                for arm in cfgs::FORCED {
                    let idx = base;
                    base += 1;
                    if !ctx.mine(idx) {
                        continue;
                    }
                    let mut cfg = proto.clone();
                    cfg.block = block;
                    cfg.arm = arm;
                    cfg.origin = format!("huge L={} rows={} block={}", l, rows, block);
                    sink.config(&cfg, &or);
                }
            }
        }
    }
    let (s, t) = (sink.states, sink.transitions);
    rep.space("shapes", "");
    rep.add_states(s, t, t, 0);
}

pub fn run_c02(ctx: &mut Ctx, rep: &mut Report) {
    sweep(Mode::C02, ctx, rep);
    rep.note("thresholds are finite (+-inf / NaN are outside the stated domain); block size 0 is out of contract");
}

pub fn run_c03(ctx: &mut Ctx, rep: &mut Report) {
    sweep(Mode::C03, ctx, rep);
    rep.note("every history next^k . max for k = 0..=#hits+1 (all k when #hits <= 40, else {0,1,2,3,h/3,h/2,h-1,h,h+1}) is re-executed on a fresh scanner; for k = 0 (thorough: k in {0, 1, #hits/2}) the best hit is also asked through the iterator interface (scanner.by_ref().max(), ranking by Ord for Hit); hits are decided on the row-order f32 sum exactly (every scoring path of the library returns it bit for bit, checked by C01/C02)");
}

pub fn replay_c02(_ctx: &mut Ctx, rep: &mut Report, v: &Value) {
    rep.space("replay", "replay of one recorded configuration");
    let cfg = Config::from_json(v);
    let or = Oracle::new(&cfg);
    rep.eval_distinct(true);
    if v["kind"].as_str() == Some("rethreshold") {
        let k = v["k"].as_u64().unwrap() as usize;
        let t2 = model::f32_from_json(&v["threshold2"]);
        match run_scanner(&cfg, &After::Rethreshold(k, t2)) {
            Err(p) => rep.violation(format!("C02 {} rethreshold panic {}", cfgs::arm_name(cfg.arm), vx_core::util::panic_class(&p)), format!("panic: {}", p), || cfg.json()),
            Ok(out) => {
                if let Err((sig, msg)) = judge_rethreshold(&cfg, &or, &out, k, t2) {
                    rep.violation(format!("C02 {} rethreshold {}", cfgs::arm_name(cfg.arm), sig), msg, || cfg.json());
                }
            }
        }
        return;
    }
    if v["kind"].as_str() == Some("reblock") {
        let k = v["k"].as_u64().unwrap() as usize;
        let b2 = v["block2"].as_u64().unwrap() as usize;
        match run_scanner(&cfg, &After::Reblock(k, b2)) {
            Err(p) => rep.violation(format!("C02 {} reblock panic {}", cfgs::arm_name(cfg.arm), vx_core::util::panic_class(&p)), format!("panic: {}", p), || cfg.json()),
            Ok(mut out) => {
                let post = std::mem::take(&mut out.post);
                out.hits.extend(post);
                if let Err((sig, msg)) = judge_hits(&cfg, &or, &out) {
                    rep.violation(format!("C02 {} reblock {}", cfgs::arm_name(cfg.arm), sig), msg, || cfg.json());
                }
            }
        }
        return;
    }
    match run_scanner(&cfg, &After::Exhaust) {
        Err(p) => rep.violation(format!("C02 {} panic {}", cfgs::arm_name(cfg.arm), vx_core::util::panic_class(&p)), format!("panic: {}", p), || cfg.json()),
        Ok(out) => {
            if let Err((sig, msg)) = judge_hits(&cfg, &or, &out) {
                rep.violation(format!("C02 {} {}", cfgs::arm_name(cfg.arm), sig), msg, || cfg.json());
            }
        }
    }
}

pub fn replay_c03(_ctx: &mut Ctx, rep: &mut Report, v: &Value) {
    rep.space("replay", "replay of one recorded history");
    let cfg = Config::from_json(v);
    let or = Oracle::new(&cfg);
    let k = v["k"].as_u64().unwrap_or(0) as usize;
    rep.eval_distinct(true);
    if v["kind"].as_str() == Some("rethreshold_max") {
        let t2 = model::f32_from_json(&v["threshold2"]);
        let cfg2 = Config { threshold: t2, ..cfg.clone() };
        match run_scanner(&cfg, &After::RethresholdMax(k, t2)) {
            Err(p) => rep.violation(format!("C03 {} rethreshold_max panic {}", cfgs::arm_name(cfg.arm), vx_core::util::panic_class(&p)), format!("panic: {}", p), || cfg.json()),
            Ok(out) => {
                if let Err((sig, msg)) = judge_max(&cfg2, &or, &out) {
                    rep.violation(format!("C03 {} rethreshold_max {}", cfgs::arm_name(cfg.arm), sig), msg, || cfg.json());
                }
            }
        }
        return;
    }
    if v["by_ref"].as_bool() == Some(true) {
        match run_scanner(&cfg, &After::MaxByRef(k)) {
            Err(p) => rep.violation(format!("C03 {} by_ref().max() panic {}", cfgs::arm_name(cfg.arm), vx_core::util::panic_class(&p)), format!("panic: {}", p), || cfg.json()),
            Ok(out) => {
                if let Err((sig, msg)) = judge_max(&cfg, &or, &out) {
                    rep.violation(format!("C03 {} by_ref().max() {}", cfgs::arm_name(cfg.arm), sig), format!("after {} next() calls, scanner.by_ref().max(): {}", k, msg), || cfg.json());
                }
            }
        }
        return;
    }
    match run_scanner(&cfg, &After::Max(k)) {
        Err(p) => rep.violation(format!("C03 {} panic {}", cfgs::arm_name(cfg.arm), vx_core::util::panic_class(&p)), format!("panic: {}", p), || cfg.json()),
        Ok(out) => {
            if let Err((sig, msg)) = judge_max(&cfg, &or, &out) {
                rep.violation(format!("C03 {} {}", cfgs::arm_name(cfg.arm), sig), format!("after {} next() calls: {}", k, msg), || cfg.json());
            }
        }
    }
}
