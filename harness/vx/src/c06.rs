//! C06 — no safe API call reads or writes outside the memory it owns (DESIGN §C06).
//!
//! Memory safety is not observable through return values: the *enumeration* of this module
//! (boundary shapes × every backend × call histories, built from the per-case functions of the
//! other checkers) is run by the driver under monitors — AddressSanitizer (`asan` build),
//! valgrind memcheck (`rel` build), and the alignment checks of the `chk` build. A monitor report
//! kills the process; the driver attributes it to the case named in the breadcrumb file, re-runs
//! that case alone, and resumes the shard after it.
//!
//! In-process, only panics that denote an invalid memory access in `unsafe` code (misaligned
//! pointer dereference, unsafe precondition violated) are C06 violations; value discrepancies and
//! ordinary bounds-check panics are the business of the other properties and are ignored here.

use lightmotif::abc::{Alphabet, Background, Dna, Protein};
use lightmotif::num::U32;
use lightmotif::seq::{EncodedSequence, StripedSequence};
use lightmotif::verif::Forced;
use serde_json::{json, Value};
use vx_core::util::{crumb, panic_class};
use vx_core::{catch, Ctx, Report};

use crate::cfgs::{self, SCfg};
use crate::model;
use crate::{c01, c02, c04, c05, c07, c08, c16, c19};

fn is_memory_panic(msg: &str) -> bool {
    let m = msg.to_ascii_lowercase();
    m.contains("misaligned") || m.contains("unsafe precondition") || m.contains("null pointer") || m.contains("attempt to create unaligned")
}

fn wrap(module: &str, case: Value) -> String {
    json!({"module": module, "case": case}).to_string()
}

/// Use an accepted encoding the way a caller would: stripe, count symbols, display.
fn use_encoded<A: Alphabet>(text: &[u8]) -> usize {
    match lightmotif::seq::EncodedSequence::<A>::encode(text) {
        Ok(e) => {
            let s = e.to_striped();
            let counts = lightmotif::seq::SymbolCount::<A>::count_symbols(&s);
            let shown = format!("{}", e);
            counts.iter().sum::<usize>() + shown.len()
        }
        Err(_) => 0,
    }
}

/// Record a C06 violation if `msg` is a memory-class panic.
fn memory_panic(rep: &mut Report, module: &str, what: &str, msg: &str, case: impl FnOnce() -> Value) {
    if is_memory_panic(msg) {
        rep.violation(format!("C06 {} {} {}", module, what, panic_class(msg)), msg.to_string(), || json!({"module": module, "case": case()}));
    }
}

fn lens_dense(quick: bool, asan_like: bool) -> Vec<usize> {
    // every length 0..=1100: L >= 993 with L mod 32 != 0 is covered 100 times over
    let max = if quick && !asan_like { 1100 } else { 1100 };
    let mut v: Vec<usize> = (0..=max).collect();
    if !quick {
        v.extend(2016..=2050);
        v.extend(8190..=8194);
    } else {
        v.extend([2017, 2047, 2048, 2049]);
    }
    v
}

fn lens_boundary() -> Vec<usize> {
    let mut v: Vec<usize> = (0..=70).collect();
    for b in [96usize, 128, 992, 1024, 1056, 2048] {
        for d in -2i64..=2 {
            v.push((b as i64 + d) as usize);
        }
    }
    v.push(1000);
    v
}

pub fn run(ctx: &mut Ctx, rep: &mut Report) {
    let quick = ctx.quick();
    let mut idx = 0u64;

    // ---------------------------------------------------------------- encode
    if ctx.wants("encode") {
        rep.space(
            "encode",
            "encode / encode_raw / encode_into through generic, sse2, avx2 and the three dispatcher arms + EncodedSequence::encode, DNA and protein, every length 0..=1100 (valid text, an invalid byte at the first / last position, upper-case letters outside the alphabet at L/4); whatever EncodedSequence::encode accepts is then striped, counted (count_symbols) and displayed; for L in {33,64,96} also encode_into with a destination 1/16/32 symbols too short",
        );
        for len in lens_dense(quick, true) {
            for alpha in 0..2 {
                let mine = ctx.mine(idx);
                idx += 1;
                if !mine {
                    continue;
                }
                let letters: &[u8] = if alpha == 0 { model::DNA_LETTERS } else { model::PROTEIN_LETTERS };
                let mut texts: Vec<Vec<u8>> = vec![(0..len).map(|i| letters[i % letters.len()]).collect()];
                if len > 0 {
                    let mut t = texts[0].clone();
                    t[len - 1] = b'#';
                    texts.push(t);
                    let mut t = texts[0].clone();
                    t[0] = b'z';
                    texts.push(t);
                    // upper-case letters outside the alphabet (IUPAC ambiguity codes for DNA, B/Z/J/O/U for protein)
                    if len % 8 == 1 || len == 64 {
                        for &b in if alpha == 0 { &b"RYSWKMBDHV"[..] } else { &b"BZJOU"[..] } {
                            let mut t = texts[0].clone();
                            t[len / 4] = b;
                            texts.push(t);
                        }
                    }
                }
                for text in &texts {
                    for cfg in cfgs::ALL_ECFGS {
                        let a = if alpha == 0 { "dna" } else { "protein" };
                        if !crumb(|| wrap("C05", json!({"alphabet": a, "cfg": cfg.name(), "text_bytes": text}))) {
                            continue;
                        }
                        rep.eval_distinct(len > 0);
                        let r = if alpha == 0 { c05::check_one::<Dna>(cfg, text) } else { c05::check_one::<Protein>(cfg, text) };
                        if let Err((_, msg)) = r {
                            memory_panic(rep, "C05", cfg.name(), &msg, || json!({"alphabet": a, "cfg": cfg.name(), "text_bytes": text}));
                        }
                        // the same text into a destination that is 1 / 16 / 32 symbols too short: whatever the call
                        // answers (the library panics), it must not write past the destination
                        if std::ptr::eq(text, &texts[0]) && (len == 33 || len == 64 || len == 96) {
                            for short in [1usize, 16, 32] {
                                if short <= len {
                                    let _ = if alpha == 0 { cfgs::encode_into_short::<Dna>(cfg, text, len - short) } else { cfgs::encode_into_short::<Protein>(cfg, text, len - short) };
                                }
                            }
                        }
                        // USE whatever the encoder accepted: stripe it, count its symbols, print it (a symbol value
                        // outside the alphabet indexes past the K-entry tables)
                        if let Some(arm) = cfg.arm() {
                            let used = catch(|| {
                                cfgs::with_arm(arm, || {
                                    if alpha == 0 {
                                        use_encoded::<Dna>(text)
                                    } else {
                                        use_encoded::<Protein>(text)
                                    }
                                })
                            });
                            if let Err(msg) = used {
                                memory_panic(rep, "C05", cfg.name(), &msg, || json!({"alphabet": a, "cfg": cfg.name(), "text_bytes": text}));
                            }
                        }
                    }
                }
            }
            if ctx.out_of_time() {
                rep.cap(format!("encode: wall-clock cap at L={}", len));
                break;
            }
        }
    }

    // ---------------------------------------------------------------- stripe
    if ctx.wants("stripe") {
        rep.space(
            "stripe",
            "Stripe::stripe through every striping configuration (generic U1..U32, avx2, dispatcher arms) for every length 0..=1100 (+2016..=2050, 8190..=8194 thorough), DNA and protein, followed by configure_wrap menus (none / 14 / 40 / more than the reserved 32 rows)",
        );
        for len in lens_dense(quick, true) {
            for alpha in 0..2 {
                let mine = ctx.mine(idx);
                idx += 1;
                if !mine {
                    continue;
                }
                for cfg in cfgs::ALL_SCFGS {
                    if cfg == SCfg::GenU1 && len > 300 && len % 64 != 1 {
                        continue;
                    }
                    if (cfg == SCfg::GenU2 || cfg == SCfg::GenU4) && len > 300 && len % 16 != 1 {
                        continue;
                    }
                    for wraps in [vec![], vec![14usize], vec![2, 40], vec![33, 70]] {
                        if !wraps.is_empty() && len > 130 && len % 32 > 1 && !(990..=1060).contains(&len) {
                            continue;
                        }
                        let case = c04::SingleCase { alpha: if alpha == 0 { "dna" } else { "protein" }, cfg, len, pat: 0, wild: len % 2 == 1, wraps };
                        if !crumb(|| wrap("C04", case.json())) {
                            continue;
                        }
                        rep.eval_distinct(len > 0);
                        let mut scratch = Report::new("C04");
                        scratch.space("x", "");
                        if alpha == 0 {
                            c04::run_single_case::<Dna>(&case, &mut scratch)
                        } else {
                            c04::run_single_case::<Protein>(&case, &mut scratch)
                        }
                        for v in &scratch.violations {
                            memory_panic(rep, "C04", cfg.name(), &v.msg, || case.json());
                        }
                    }
                }
            }
            if ctx.out_of_time() {
                rep.cap(format!("stripe: wall-clock cap at L={}", len));
                break;
            }
        }
    }

    // ---------------------------------------------------------------- stripe histories (reuse / resize / clone)
    if ctx.wants("stripe_histories") {
        rep.space(
            "stripe_histories",
            "the C04 explicit-state BFS over buffer-reuse histories (stripe_into by every backend / configure_wrap / configure / clone on one StripedSequence), to fixpoint, re-run under the monitors",
        );
        let mut scratch = Report::new("C04");
        scratch.space("histories", "");
        if ctx.mine(idx) {
            c04::run_histories::<Dna>("dna", ctx, &mut scratch, if quick { 6 } else { 12 });
        }
        idx += 1;
        if ctx.mine(idx) {
            c04::run_histories::<Protein>("protein", ctx, &mut scratch, if quick { 6 } else { 12 });
        }
        idx += 1;
        let st = scratch.spaces.get("histories").cloned().unwrap_or_default();
        rep.add_states(st.states, st.transitions, st.traces, st.max_depth);
        {
            let c = rep.spaces.get_mut("stripe_histories").unwrap();
            c.evaluations += st.transitions;
            c.nontrivial += st.states;
        }
        for v in &scratch.violations {
            let case = v.case.clone();
            memory_panic(rep, "C04", "history", &v.msg, || case);
        }
    }

    // ---------------------------------------------------------------- score (f32)
    if ctx.wants("score") {
        rep.space(
            "score",
            "f32 scoring through all 11 configurations (incl. avx2 permute for DNA and gather for protein) x row sub-range menu, lengths 0..=70 and around 96/128/992/1024/1056/2048, widths {1,2,8,15,34,40} (34 and 40 need more look-ahead rows than the 32 reserved); motifs nearly as long as the sequence (L in {33,64,96,100,102,128,160,200}, M = L-{0,1,3,4}: fewer valid positions than sequence rows)",
        );
        for len in lens_boundary() {
            for m in [1usize, 2, 8, 15, 34, 40] {
                for alpha in 0..2 {
                    let mine = ctx.mine(idx);
                    idx += 1;
                    if !mine {
                        continue;
                    }
                    let k = if alpha == 0 { 5 } else { 21 };
                    let case = c01::Case {
                        alpha: if alpha == 0 { "dna" } else { "protein" },
                        seq: model::digit_pattern_wild(len, k, 1, 2),
                        matrix: c01::make_matrix("int", m, k, 0),
                        origin: format!("c06 score L={} M={}", len, m),
                        wrap_override: None,
                        spare_rows: 0,
                        trimmed_rows: 0,
                        cloned: 0,
                    };
                    if !crumb(|| wrap("C01", case.json(None))) {
                        continue;
                    }
                    let o = if alpha == 0 { c01::check_case::<Dna>(&case, &cfgs::ALL_CFGS, len > 200) } else { c01::check_case::<Protein>(&case, &cfgs::ALL_CFGS, len > 200) };
                    for _ in 0..o.invocations {
                        rep.eval_distinct(o.nontrivial);
                    }
                    for (_, msg, cfg) in &o.failures {
                        memory_panic(rep, "C01", cfg.map(|c| c.name()).unwrap_or("-"), msg, || case.json(*cfg));
                    }
                }
            }
            if ctx.out_of_time() {
                rep.cap(format!("score: wall-clock cap at L={}", len));
                break;
            }
        }
        // motifs nearly as long as the sequence: FEWER valid positions (L-M+1) than sequence rows
        for len in [33usize, 64, 96, 100, 102, 128, 160, 200] {
            for d in [0usize, 1, 3, 4] {
                for alpha in 0..2 {
                    let mine = ctx.mine(idx);
                    idx += 1;
                    if !mine || d >= len {
                        continue;
                    }
                    let m = len - d;
                    let k = if alpha == 0 { 5 } else { 21 };
                    let case = c01::Case {
                        alpha: if alpha == 0 { "dna" } else { "protein" },
                        seq: model::digit_pattern_wild(len, k, 1, 2),
                        matrix: c01::make_matrix("int", m, k, 0),
                        origin: format!("c06 score long motif L={} M={}", len, m),
                        wrap_override: None,
                        spare_rows: 0,
                        trimmed_rows: 0,
                        cloned: 0,
                    };
                    if !crumb(|| wrap("C01", case.json(None))) {
                        continue;
                    }
                    let o = if alpha == 0 { c01::check_case::<Dna>(&case, &cfgs::ALL_CFGS, true) } else { c01::check_case::<Protein>(&case, &cfgs::ALL_CFGS, true) };
                    for _ in 0..o.invocations {
                        rep.eval_distinct(o.nontrivial);
                    }
                    for (_, msg, cfg) in &o.failures {
                        memory_panic(rep, "C01", cfg.map(|c| c.name()).unwrap_or("-"), msg, || case.json(*cfg));
                    }
                }
            }
        }
    }

    // ---------------------------------------------------------------- histories on reused sequence / score buffers
    if ctx.wants("score_reuse") {
        rep.space(
            "score_reuse",
            "the C01 `reuse` histories (ONE StripedSequence and ONE StripedScores buffer: stripe_into six lengths incl. shrink-then-grow-past-the-first-size, configure / score_into / score_rows_into for three widths) of length 1..=3 (thorough 1..=4) ending in a scoring operation, under the 32-lane configurations {generic, sse2, avx2, dispatcher arms}",
        );
        let depth = if quick { 3 } else { 4 };
        let ops = c01::reuse_ops();
        let (seqs, mats) = c01::reuse_data();
        let cfgs_ = [cfgs::Cfg::GenU32, cfgs::Cfg::SseU32, cfgs::Cfg::AvxU32, cfgs::Cfg::DispGen, cfgs::Cfg::DispSse, cfgs::Cfg::DispAvx];
        let mut stack: Vec<Vec<cfgs::HOp>> = ops.iter().map(|&o| vec![o]).collect();
        while let Some(h) = stack.pop() {
            if h.len() < depth {
                for &o in &ops {
                    let mut n = h.clone();
                    n.push(o);
                    stack.push(n);
                }
            }
            if !matches!(h.last().unwrap(), cfgs::HOp::Score(_) | cfgs::HOp::ScoreRows(_)) {
                continue;
            }
            let mine = ctx.mine(idx);
            idx += 1;
            if !mine {
                continue;
            }
            for &cfg in &cfgs_ {
                if !crumb(|| wrap("C01", c01::reuse_json(cfg, &h))) {
                    continue;
                }
                rep.eval_distinct(h.len() > 1);
                if let Some((_, msg)) = c01::check_reuse(cfg, &h, &seqs, &mats) {
                    memory_panic(rep, "C01", cfg.name(), &msg, || c01::reuse_json(cfg, &h));
                }
            }
        }
    }

    // ---------------------------------------------------------------- score on exact-capacity buffers
    if ctx.wants("score_exact") {
        rep.space(
            "score_exact",
            "f32 and u8 scoring of striped sequences WITHOUT spare row capacity (a clone of a configured sequence; a sequence from StripedSequence::sample then configured):              any read one row past the matrix leaves the allocation. Lengths 0..=70 and around 96/128/992/1024/1056, widths {1,2,8,15,34}, DNA and protein, generic / sse2 / avx2 / dispatcher arms, full scan and last-row range",
        );
        for len in lens_boundary() {
            if len > 1100 {
                continue;
            }
            for m in [1usize, 2, 8, 15, 34] {
                for alpha in 0..2 {
                    let mine = ctx.mine(idx);
                    idx += 1;
                    if !mine {
                        continue;
                    }
                    let a = if alpha == 0 { "dna" } else { "protein" };
                    if !crumb(|| wrap("C06", json!({"kind": "score_exact", "alphabet": a, "len": len, "m": m}))) {
                        continue;
                    }
                    rep.eval_distinct(len >= m);
                    let r = catch(|| if alpha == 0 { score_exact_case::<Dna>(len, m) } else { score_exact_case::<Protein>(len, m) });
                    if let Err(msg) = r {
                        memory_panic(rep, "C06", "score_exact", &msg, || json!({"kind": "score_exact", "alphabet": a, "len": len, "m": m}));
                    }
                    if alpha == 0 {
                        if let Err(msg) = catch(|| score_exact_u8(len, m)) {
                            memory_panic(rep, "C06", "score_exact_u8", &msg, || json!({"kind": "score_exact", "alphabet": a, "len": len, "m": m}));
                        }
                    }
                }
            }
        }
    }

    // ---------------------------------------------------------------- gather (thin menus for the slow monitor)
    if ctx.only.is_some() && ctx.wants("gather") {
        rep.space(
            "gather",
            "protein f32 scoring through the AVX2 gather kernel (avx2 pipeline and dispatcher arm; vgatherdps is not instrumented by ASan, valgrind sees it) and DNA permute kernel, lengths 0..=70 and around 96/128/992/1024/1056/2048, widths {1,8,34}",
        );
        for len in lens_boundary() {
            for m in [1usize, 8, 34] {
                for alpha in 0..2 {
                    let mine = ctx.mine(idx);
                    idx += 1;
                    if !mine {
                        continue;
                    }
                    let k = if alpha == 0 { 5 } else { 21 };
                    let case = c01::Case {
                        alpha: if alpha == 0 { "dna" } else { "protein" },
                        seq: model::digit_pattern_wild(len, k, 1, 2),
                        matrix: c01::make_matrix("int", m, k, 0),
                        origin: format!("c06 gather L={} M={}", len, m),
                        wrap_override: None,
                        spare_rows: 0,
                        trimmed_rows: 0,
                        cloned: 0,
                    };
                    if !crumb(|| wrap("C01", case.json(None))) {
                        continue;
                    }
                    let set = [cfgs::Cfg::AvxU32, cfgs::Cfg::DispAvx, cfgs::Cfg::SseU32];
                    let o = if alpha == 0 { c01::check_case::<Dna>(&case, &set, true) } else { c01::check_case::<Protein>(&case, &set, true) };
                    for _ in 0..o.invocations {
                        rep.eval_distinct(o.nontrivial);
                    }
                    for (_, msg, cfg) in &o.failures {
                        memory_panic(rep, "C01", cfg.map(|c| c.name()).unwrap_or("-"), msg, || case.json(*cfg));
                    }
                }
            }
        }
    }
    if ctx.only.is_some() && (ctx.wants("encode_v") || ctx.wants("stripe_v")) {
        rep.space("thin", "encode and stripe on the boundary-length menu (0..=70, around 96/128/992/1024/1056/2048, 1000) for the slow monitor");
        for len in lens_boundary() {
            for alpha in 0..2 {
                let mine = ctx.mine(idx);
                idx += 1;
                if !mine {
                    continue;
                }
                let a = if alpha == 0 { "dna" } else { "protein" };
                if ctx.wants("encode_v") {
                    let letters: &[u8] = if alpha == 0 { model::DNA_LETTERS } else { model::PROTEIN_LETTERS };
                    let text: Vec<u8> = (0..len).map(|i| letters[i % letters.len()]).collect();
                    for cfg in cfgs::ALL_ECFGS {
                        if !crumb(|| wrap("C05", json!({"alphabet": a, "cfg": cfg.name(), "text_bytes": text}))) {
                            continue;
                        }
                        rep.eval_distinct(len > 0);
                        let r = if alpha == 0 { c05::check_one::<Dna>(cfg, &text) } else { c05::check_one::<Protein>(cfg, &text) };
                        if let Err((_, msg)) = r {
                            memory_panic(rep, "C05", cfg.name(), &msg, || json!({"alphabet": a, "cfg": cfg.name(), "text_bytes": text}));
                        }
                    }
                }
                if ctx.wants("stripe_v") {
                    for cfg in cfgs::U32_SCFGS {
                        let case = c04::SingleCase { alpha: a, cfg, len, pat: 0, wild: false, wraps: vec![14] };
                        if !crumb(|| wrap("C04", case.json())) {
                            continue;
                        }
                        rep.eval_distinct(len > 0);
                        let mut scratch = Report::new("C04");
                        scratch.space("x", "");
                        if alpha == 0 {
                            c04::run_single_case::<Dna>(&case, &mut scratch)
                        } else {
                            c04::run_single_case::<Protein>(&case, &mut scratch)
                        }
                        for v in &scratch.violations {
                            memory_panic(rep, "C04", cfg.name(), &v.msg, || case.json());
                        }
                    }
                }
            }
        }
    }

    // ---------------------------------------------------------------- buffer reuse, thin menu for the slow monitor
    if ctx.only.is_some() && ctx.wants("stripe_reuse_v") {
        rep.space(
            "stripe_reuse_v",
            "stripe_into on a REUSED buffer (default-constructed, previously striped, cloned, grown by configure_wrap(40)) for every ordered pair of lengths in {0,33,1024,1056,2049} x every 32-column striping configuration;              streaming stores are not instrumented by ASan, valgrind sees them",
        );
        let lens = [0usize, 33, 1024, 1056, 2049];
        for cfg in cfgs::U32_SCFGS {
            for &l1 in &lens {
                for &l2 in &lens {
                    let mine = ctx.mine(idx);
                    idx += 1;
                    if !mine {
                        continue;
                    }
                    if !crumb(|| wrap("C06", json!({"kind": "stripe_reuse", "cfg": cfg.name(), "l1": l1, "l2": l2}))) {
                        continue;
                    }
                    rep.eval_distinct(true);
                    if let Err(msg) = catch(|| stripe_reuse_case(cfg, l1, l2)) {
                        memory_panic(rep, "C06", "stripe_reuse", &msg, || json!({"kind": "stripe_reuse", "cfg": cfg.name(), "l1": l1, "l2": l2}));
                    }
                }
            }
        }
    }

    // ---------------------------------------------------------------- score (u8) + maxima
    if ctx.wants("score_u8") {
        rep.space("score_u8", "8-bit kernels (generic, sse2, avx2 shuffle, dispatcher arms, scalar) on wide matrices M in {2,5,16,40} x consensus-neighbourhood sequences and lengths around 32/1024");
        for m in [2usize, 5, 16, 40] {
            for extra in [0usize, 1, 31, 32, 33, 1000] {
                let mine = ctx.mine(idx);
                idx += 1;
                if !mine {
                    continue;
                }
                let matrix = c08::wide_matrix(m, 0);
                let mut seq = c08::wide_sequence(&matrix);
                seq.extend(model::digit_pattern(extra, 5, 0));
                let case = c08::Case { alpha: "dna", matrix, seq, origin: format!("c06 u8 M={} extra={}", m, extra), pre_wrap: None, spare: 0 };
                if !crumb(|| wrap("C08", case.json(None))) {
                    continue;
                }
                let (e, nt, fails) = c08::check_case(&case, &c08::K8::all_dna());
                for _ in 0..e {
                    rep.eval_distinct(nt);
                }
                for (_, msg, _) in &fails {
                    memory_panic(rep, "C08", "u8", msg, || case.json(None));
                }
            }
        }
    }
    if ctx.wants("maxima") {
        rep.space("maxima", "max / argmax / threshold (f32 and u8) through every configuration on matrices of 0,1,2,3,31,32,33,255,256,257,1000 rows");
        for rows in [0usize, 1, 2, 3, 31, 32, 33, 255, 256, 257, 1000] {
            let mine = ctx.mine(idx);
            idx += 1;
            if !mine {
                continue;
            }
            for cfg in c07::all_mcfgs() {
                let pf = c07::Plan::<f32> { rows, background: 3, planted: if rows > 0 { vec![(rows - 1, 0, 2.5)] } else { vec![] } };
                let ts = [0.0f32, -1.0e30];
                if crumb(|| wrap("C07", c07::plan_json(&pf, cfg, &ts))) {
                    let mut scratch = Report::new("C07");
                    scratch.space("x", "");
                    c07::check_plan(&pf, cfg, &ts, &mut scratch);
                    rep.eval_distinct(rows > 0);
                    for v in &scratch.violations {
                        let c = v.case.clone();
                        memory_panic(rep, "C07", "f32", &v.msg, || c);
                    }
                }
                let pu = c07::Plan::<u8> { rows, background: 2, planted: if rows > 0 { vec![(0, 0, 250)] } else { vec![] } };
                let tu = [0u8, 200];
                if crumb(|| wrap("C07", c07::plan_json(&pu, cfg, &tu))) {
                    let mut scratch = Report::new("C07");
                    scratch.space("x", "");
                    c07::check_plan(&pu, cfg, &tu, &mut scratch);
                    rep.eval_distinct(rows > 0);
                    for v in &scratch.violations {
                        let c = v.case.clone();
                        memory_panic(rep, "C07", "u8", &v.msg, || c);
                    }
                }
            }
        }
    }

    // ---------------------------------------------------------------- scan
    if ctx.wants("scan") {
        rep.space("scan", "Scanner next()-to-exhaustion, next();max() and max() over lengths 0..=70 and around 992/1024/8192, block sizes {1,3,256}, thresholds {low, mid}, 3 dispatcher arms, motif widths 2, 18 and 34, on the configured sequence and on an exact-capacity clone of it");
        let mut lens: Vec<usize> = (0..=70).collect();
        lens.extend([991, 992, 993, 1000, 1023, 1024, 1025, 8160, 8191, 8192, 8193]);
        for len in lens {
            for mdig in [vec![0u8, 1], vec![0u8; 18], vec![0u8; 34]] {
                let mine = ctx.mine(idx);
                idx += 1;
                if !mine {
                    continue;
                }
                let matrix = c02::matrix_from_digits(&mdig, 0);
                let seq = model::digit_pattern_wild(len, 5, 1, 3);
                for &t in &[-1.0e3f32, 1.0] {
                    for &block in &[1usize, 3, 256] {
                        if len > 2000 && block < 256 {
                            continue;
                        }
                        for arm in cfgs::FORCED {
                            // modes: 0 next()-to-exhaustion, 1 next();max(), 2 max() at once; 3..=5 the same on an
                            // exact-capacity CLONE of the configured sequence (no spare rows behind the look-ahead rows)
                            for mode in 0..6 {
                                let exact = mode >= 3;
                                let cfg = c02::Config { seq: seq.clone(), matrix: matrix.clone(), threshold: t, block, arm, origin: format!("c06 scan L={} M={}", len, mdig.len()), pre_wrap: if block == 3 { Some(1) } else { None }, exact, spare: 0, prev_len: None };
                                let module = if mode % 3 == 0 { "C02" } else { "C03" };
                                if !crumb(|| {
                                    let mut j = cfg.json();
                                    j["k"] = serde_json::json!(if mode % 3 == 1 { 1 } else { 0 });
                                    wrap(module, j)
                                }) {
                                    continue;
                                }
                                rep.eval_distinct(len >= mdig.len());
                                let r = c02::run_scanner(&cfg, &match mode % 3 { 0 => c02::After::Exhaust, 1 => c02::After::Max(1), _ => c02::After::Max(0) });
                                if let Err(msg) = r {
                                    memory_panic(rep, module, cfgs::arm_name(arm), &msg, || cfg.json());
                                }
                            }
                        }
                    }
                }
            }
            if ctx.out_of_time() {
                rep.cap(format!("scan: wall-clock cap at L={}", len));
                break;
            }
        }
    }

    // ---------------------------------------------------------------- sample
    if ctx.wants("sample") {
        rep.space("sample", "StripedSequence::sample / EncodedSequence::sample (uninitialised-matrix constructor) for lengths 0..=100, 1000, 1025; Gibbs sampler runs (C16 datasets, scripted RNG) of 6 steps under each dispatcher arm");
        let mut lens: Vec<usize> = (0..=100).collect();
        lens.extend([1000, 1025]);
        for len in lens {
            let mine = ctx.mine(idx);
            idx += 1;
            if !mine {
                continue;
            }
            if !crumb(|| wrap("C06", json!({"kind": "sample", "len": len}))) {
                continue;
            }
            rep.eval_distinct(len > 0);
            let r = catch(|| sample_case(len));
            if let Err(msg) = r {
                memory_panic(rep, "C06", "sample", &msg, || json!({"kind": "sample", "len": len}));
            }
        }
        for ds in c16::datasets(false) {
            for pr in c16::param_sets(true) {
                for arm in cfgs::FORCED {
                    let mine = ctx.mine(idx);
                    idx += 1;
                    if !mine {
                        continue;
                    }
                    let init: Vec<f64> = (0..ds.seqs.len() + 4).map(|i| (i as f64 * 0.37 + 0.11) % 1.0).collect();
                    let steps: Vec<[f64; 2]> = (0..6).map(|i| [(i as f64 * 0.29 + 0.05) % 1.0, (i as f64 * 0.41 + 0.3) % 1.0]).collect();
                    if !crumb(|| wrap("C06", json!({"kind": "sampler", "alphabet": ds.alpha, "width": ds.width}))) {
                        continue;
                    }
                    rep.eval_distinct(true);
                    if let Err(msg) = c16::run_ds(&ds, &pr, arm, &init, &steps) {
                        memory_panic(rep, "C16", cfgs::arm_name(arm), &msg, || json!({"kind": "sampler"}));
                    }
                }
            }
        }
    }

    // ---------------------------------------------------------------- dense matrix histories
    if ctx.wants("dense") {
        rep.space("dense", "the C19 explicit-state BFS over DenseMatrix histories (depth 3 quick / 4 thorough, 28 instantiations) re-run under the monitors");
        let mut scratch = Report::new("C19");
        scratch.space("histories", "");
        for i in 0..c19::N_INST {
            let mine = ctx.mine(idx);
            idx += 1;
            if !mine {
                continue;
            }
            c19::run_index(i, ctx, &mut scratch, if quick { 3 } else { 4 });
        }
        let st = scratch.spaces.get("histories").cloned().unwrap_or_default();
        rep.add_states(st.states, st.transitions, st.traces, st.max_depth);
        {
            let c = rep.spaces.get_mut("dense").unwrap();
            c.evaluations += st.transitions;
            c.nontrivial += st.states;
        }
        for v in &scratch.violations {
            let case = v.case.clone();
            memory_panic(rep, "C19", "history", &v.msg, || case);
        }
    }
    rep.not_covered("NEON backend");
    rep.note("over-reads that stay inside the same allocation (e.g. into row padding) are legal by the property and invisible by construction");
}

struct Lcg(u64);
impl rand::RngCore for Lcg {
    fn next_u32(&mut self) -> u32 {
        (self.next_u64() >> 32) as u32
    }
    fn next_u64(&mut self) -> u64 {
        self.0 = self.0.wrapping_mul(6364136223846793005).wrapping_add(1442695040888963407);
        self.0
    }
    fn fill_bytes(&mut self, dest: &mut [u8]) {
        for b in dest.iter_mut() {
            *b = (self.next_u64() >> 56) as u8;
        }
    }
    fn try_fill_bytes(&mut self, dest: &mut [u8]) -> Result<(), rand::Error> {
        self.fill_bytes(dest);
        Ok(())
    }
}

fn score_exact_case<A: Alphabet>(len: usize, m: usize)
where
    lightmotif::pli::Pipeline<A, lightmotif::pli::dispatch::Dispatch>: lightmotif::pli::Score<f32, A, U32>,
{
    use lightmotif::pli::platform::{Avx2, Generic, Sse2};
    use lightmotif::pli::{Pipeline, Score, Stripe};
    use lightmotif::scores::StripedScores;
    let k = model::k_of::<A>();
    let pssm = model::scoring::<A>(&c01::make_matrix("int", m, k, 0));
    let syms = model::to_symbols::<A>(&model::digit_pattern_wild(len, k, 1, 2));
    let mut base: StripedSequence<A, U32> = Pipeline::<A, Generic>::generic().stripe(&syms);
    base.configure(&pssm);
    // (1) a clone has exactly rows() capacity; (2) a sampled sequence is created without spare rows
    let mut sampled: StripedSequence<A, U32> = StripedSequence::sample(Lcg(len as u64 + 3), Background::<A>::uniform(), len);
    sampled.configure(&pssm);
    let mut fresh_clone = base.clone();
    fresh_clone.configure_wrap(m.max(1) - 1);
    for seq in [base.clone(), sampled, fresh_clone] {
        let rows = seq.matrix().rows() - seq.wrap();
        let mut scores = StripedScores::<f32, U32>::empty();
        let g = Pipeline::<A, Generic>::generic();
        g.score_into(&pssm, &seq, &mut scores);
        let s2 = Pipeline::<A, Sse2>::sse2().unwrap();
        s2.score_into(&pssm, &seq, &mut scores);
        let av = Pipeline::<A, Avx2>::avx2().unwrap();
        av.score_into(&pssm, &seq, &mut scores);
        if rows > 0 {
            av.score_rows_into(&pssm, &seq, rows - 1..rows, &mut scores);
            s2.score_rows_into(&pssm, &seq, rows - 1..rows, &mut scores);
        }
        for arm in cfgs::FORCED {
            cfgs::with_arm(arm, || {
                let d = Pipeline::<A, lightmotif::pli::dispatch::Dispatch>::dispatch();
                d.score_into(&pssm, &seq, &mut scores);
            });
        }
        std::hint::black_box(&scores);
    }
}

fn score_exact_u8(len: usize, m: usize) {
    use lightmotif::pli::platform::{Avx2, Generic};
    use lightmotif::pli::{Pipeline, Score, Stripe};
    use lightmotif::scores::StripedScores;
    let pssm = model::scoring::<Dna>(&c01::make_matrix("int", m, 5, 0));
    let dm = pssm.to_discrete();
    let syms = model::to_symbols::<Dna>(&model::digit_pattern_wild(len, 5, 1, 2));
    let mut base: StripedSequence<Dna, U32> = Pipeline::<Dna, Generic>::generic().stripe(&syms);
    base.configure(&pssm);
    let seq = base.clone();
    let rows = seq.matrix().rows() - seq.wrap();
    let mut scores = StripedScores::<u8, U32>::empty();
    Pipeline::<Dna, Avx2>::avx2().unwrap().score_into(&dm, &seq, &mut scores);
    Pipeline::<Dna, Generic>::generic().score_into(&dm, &seq, &mut scores);
    if rows > 1 {
        Pipeline::<Dna, Avx2>::avx2().unwrap().score_rows_into(&dm, &seq, 1..rows, &mut scores);
    }
    for arm in cfgs::FORCED {
        cfgs::with_arm(arm, || {
            let d = Pipeline::<Dna, lightmotif::pli::dispatch::Dispatch>::dispatch();
            d.score_into(&dm, &seq, &mut scores);
        });
    }
    std::hint::black_box(&scores);
}

fn stripe_reuse_case(cfg: SCfg, l1: usize, l2: usize) {
    let s1 = model::to_symbols::<Dna>(&model::digit_pattern(l1, 5, 0));
    let s2 = model::to_symbols::<Dna>(&model::digit_pattern(l2, 5, 1));
    // default-constructed buffer (no spare capacity), then reuse
    let mut buf: StripedSequence<Dna, U32> = StripedSequence::default();
    cfgs::stripe_into_u32::<Dna>(cfg, &s1, &mut buf);
    cfgs::stripe_into_u32::<Dna>(cfg, &s2, &mut buf);
    // a clone has exactly-fitting capacity
    let mut cl = buf.clone();
    cfgs::stripe_into_u32::<Dna>(cfg, &s1, &mut cl);
    // grown beyond the reserved rows, then reused for the other length
    cl.configure_wrap(40);
    cfgs::stripe_into_u32::<Dna>(cfg, &s2, &mut cl);
    cl.configure_wrap(3);
    std::hint::black_box((buf, cl));
}

fn sample_case(len: usize) {
    fn go<A: Alphabet>(len: usize) {
        let bg = Background::<A>::uniform();
        let s: StripedSequence<A, U32> = StripedSequence::sample(Lcg(len as u64 + 1), bg.clone(), len);
        assert_eq!(s.len(), len);
        // touch every cell through the safe API
        let mut acc = 0usize;
        for i in 0..len {
            acc += lightmotif::abc::Symbol::as_index(&s[i]);
        }
        let e: EncodedSequence<A> = EncodedSequence::sample(Lcg(len as u64 + 7), bg, len);
        assert_eq!(e.len(), len);
        let mut st = s.clone();
        st.configure_wrap(3);
        std::hint::black_box(acc);
        std::hint::black_box(st);
    }
    go::<Dna>(len);
    go::<Protein>(len);
}

/// Replay: the case names the module whose replay function runs it.
pub fn replay(ctx: &mut Ctx, rep: &mut Report, v: &Value) {
    let module = v["module"].as_str().unwrap_or("C06").to_string();
    let case = &v["case"];
    let mut scratch = Report::new(&module);
    match module.as_str() {
        "C01" => c01::replay(ctx, &mut scratch, case),
        "C02" => c02::replay_c02(ctx, &mut scratch, case),
        "C03" => c02::replay_c03(ctx, &mut scratch, case),
        "C04" => c04::replay(ctx, &mut scratch, case),
        "C05" => {
            let mut c = case.clone();
            if c.get("cfg").is_none() {
                c["cfg"] = json!("all");
            }
            c05::replay(ctx, &mut scratch, &c);
            // ... and the use of whatever EncodedSequence::encode accepted (same steps as the `encode` space)
            let text: Vec<u8> = c["text_bytes"].as_array().map(|a| a.iter().map(|x| x.as_u64().unwrap_or(0) as u8).collect()).unwrap_or_default();
            let protein = c["alphabet"].as_str() == Some("protein");
            // ... and the too-short destinations of the `encode` space
            if let Some(ecfg) = c["cfg"].as_str().and_then(cfgs::ECfg::from_name) {
                let len = text.len();
                if len == 33 || len == 64 || len == 96 {
                    for short in [1usize, 16, 32] {
                        let _ = if protein { cfgs::encode_into_short::<Protein>(ecfg, &text, len - short) } else { cfgs::encode_into_short::<Dna>(ecfg, &text, len - short) };
                    }
                }
            }
            if let Some(arm) = c["cfg"].as_str().and_then(cfgs::ECfg::from_name).and_then(|e| e.arm()) {
                let used = catch(|| cfgs::with_arm(arm, || if protein { use_encoded::<Protein>(&text) } else { use_encoded::<Dna>(&text) }));
                if let Err(msg) = used {
                    memory_panic(&mut scratch, "C05", c["cfg"].as_str().unwrap_or("-"), &msg, || c.clone());
                }
            }
        }
        "C07" => c07::replay(ctx, &mut scratch, case),
        "C08" => c08::replay(ctx, &mut scratch, case),
        "C16" => c16::replay(ctx, &mut scratch, case),
        "C19" => c19::replay(ctx, &mut scratch, case),
        _ => {
            rep.space("replay", "replay");
            if case["kind"].as_str() == Some("score_exact") {
                let (len, m) = (case["len"].as_u64().unwrap() as usize, case["m"].as_u64().unwrap() as usize);
                let dna = case["alphabet"].as_str() == Some("dna");
                let r = catch(|| {
                    if dna {
                        score_exact_case::<Dna>(len, m);
                        score_exact_u8(len, m);
                    } else {
                        score_exact_case::<Protein>(len, m)
                    }
                });
                if let Err(msg) = r {
                    memory_panic(rep, "C06", "score_exact", &msg, || case.clone());
                }
            }
            if case["kind"].as_str() == Some("stripe_reuse") {
                let cfg = SCfg::from_name(case["cfg"].as_str().unwrap()).unwrap();
                let (l1, l2) = (case["l1"].as_u64().unwrap() as usize, case["l2"].as_u64().unwrap() as usize);
                if let Err(msg) = catch(|| stripe_reuse_case(cfg, l1, l2)) {
                    memory_panic(rep, "C06", "stripe_reuse", &msg, || case.clone());
                }
            }
            if case["kind"].as_str() == Some("sample") {
                let len = case["len"].as_u64().unwrap() as usize;
                if let Err(msg) = catch(|| sample_case(len)) {
                    memory_panic(rep, "C06", "sample", &msg, || case.clone());
                }
            }
            rep.eval_distinct(true);
            return;
        }
    }
    rep.space("replay", "replay of one case through the module that produced it");
    rep.eval_distinct(true);
    for viol in &scratch.violations {
        let c = viol.case.clone();
        memory_panic(rep, &module, "replay", &viol.msg, || c);
    }
    let _ = Forced::Generic;
}
