//! C04 — striping is a lossless, backend-independent rearrangement (DESIGN §C04).
//!
//! (a) `single`: product enumeration alphabet × striping configuration × every length × digit patterns
//!     (+ `configure_wrap` sequences), checked against the linear-sequence model;
//! (b) `histories`: explicit-state BFS over operation histories on ONE real `StripedSequence<A, U32>`
//!     buffer (stripe_into by every backend / configure_wrap / configure / clone), to fixpoint.

use lightmotif::abc::{Alphabet, Dna, Protein, Symbol};
use lightmotif::num::U32;
use lightmotif::seq::{StripedSequence, SymbolCount};
use serde_json::{json, Value};
use vx_core::{bfs, catch, Bfs, Ctx, Report};

use crate::cfgs::{self, SCfg, StripeOut};
use crate::model;

/// The model of a striped sequence with look-ahead rows: full matrix rows × C.
fn model_matrix(seq: &[u8], c: usize, wrap: usize, wildcard: u8) -> Vec<Vec<u8>> {
    let r = model::stripe_rows(seq.len(), c);
    let mut rows: Vec<Vec<u8>> = (0..r)
        .map(|i| (0..c).map(|j| model::striped_cell(seq, r, i, j, wildcard)).collect())
        .collect();
    for k in 0..wrap {
        let row = if r == 0 {
            vec![wildcard; c]
        } else {
            let src = &rows[k];
            let mut v: Vec<u8> = src[1..].to_vec();
            v.push(wildcard);
            v
        };
        rows.push(row);
    }
    rows
}

/// Compare a snapshot of the real object with the model. Returns first discrepancy.
fn check_snapshot(s: &StripeOut, seq: &[u8], wrap: usize, wildcard: u8) -> Result<(), String> {
    let c = s.c;
    let r = model::stripe_rows(seq.len(), c);
    if s.len != seq.len() {
        return Err(format!("len() = {} expected {}", s.len, seq.len()));
    }
    if s.wrap != wrap {
        return Err(format!("wrap() = {} expected {}", s.wrap, wrap));
    }
    if s.rows != r + wrap {
        return Err(format!("matrix rows = {} expected {} sequence rows + {} look-ahead rows", s.rows, r, wrap));
    }
    let m = model_matrix(seq, c, wrap, wildcard);
    for i in 0..s.rows {
        for j in 0..c {
            let got = s.cells[i * c + j];
            if got != m[i][j] {
                let what = if i < r { "sequence" } else { "look-ahead" };
                return Err(format!(
                    "{} row {} col {} holds symbol {} expected {} (L={}, R={}, C={})",
                    what, i, j, got, m[i][j], seq.len(), r, c
                ));
            }
        }
    }
    Ok(())
}

fn counts_of(seq: &[u8], k: usize) -> Vec<usize> {
    let mut c = vec![0usize; k];
    for &s in seq {
        c[s as usize] += 1;
    }
    c
}

fn lengths_single(quick: bool) -> Vec<usize> {
    let max = if quick { 2200 } else { 8300 };
    (0..=max).collect()
}

fn wrap_menus(r32: usize) -> Vec<Vec<usize>> {
    vec![
        vec![],
        vec![1],
        vec![14],
        vec![33],
        vec![2, 5],
        vec![5, 2],
        vec![0, 40, 3],
        vec![r32],
        vec![r32 + 1],
        vec![1, 2 * r32 + 1],
    ]
}

pub struct SingleCase {
    pub alpha: &'static str,
    pub cfg: SCfg,
    pub len: usize,
    pub pat: u32,
    pub wild: bool,
    pub wraps: Vec<usize>,
}

impl SingleCase {
    pub fn json(&self) -> Value {
        json!({"kind": "single", "alphabet": self.alpha, "cfg": self.cfg.name(), "len": self.len, "pattern": self.pat, "wildcard_injected": self.wild, "wraps": self.wraps})
    }
}

fn seq_for(k: usize, len: usize, pat: u32, wild: bool) -> Vec<u8> {
    if wild {
        model::digit_pattern_wild(len, k, pat, 3)
    } else {
        model::digit_pattern(len, k, pat)
    }
}

pub fn run_single_case<A: Alphabet>(case: &SingleCase, rep: &mut Report) {
    let k = model::k_of::<A>();
    let wildcard = (k - 1) as u8;
    let seq = seq_for(k, case.len, case.pat, case.wild);
    let syms = model::to_symbols::<A>(&seq);
    let wrap = case.wraps.iter().cloned().max().unwrap_or(0);
    let r = catch(|| cfgs::stripe_fresh::<A>(case.cfg, &syms, &case.wraps));
    rep.eval_distinct(case.len > 0);
    match r {
        Err(p) => rep.violation(
            format!("C04 single {} panic {}", case.cfg.name(), vx_core::util::panic_class(&p)),
            format!("panic: {}", p),
            || case.json(),
        ),
        Ok((snap, idx, counts)) => {
            if let Err(e) = check_snapshot(&snap, &seq, wrap, wildcard) {
                rep.violation(format!("C04 single {} layout", case.cfg.name()), e, || case.json());
                return;
            }
            if idx != seq {
                let i = idx.iter().zip(&seq).position(|(a, b)| a != b).unwrap_or(0);
                rep.violation(
                    format!("C04 single {} index", case.cfg.name()),
                    format!("striped[{}] = {} but linear sequence has {}", i, idx[i], seq[i]),
                    || case.json(),
                );
                return;
            }
            let want = counts_of(&seq, k);
            if counts != want {
                rep.violation(
                    format!("C04 single {} count_symbol", case.cfg.name()),
                    format!("count_symbol gives {:?}, linear sequence has {:?}", counts, want),
                    || case.json(),
                );
            }
        }
    }
}

fn run_single<A: Alphabet>(alpha: &'static str, ctx: &mut Ctx, rep: &mut Report, base: &mut u64) {
    let k = model::k_of::<A>();
    let lens = lengths_single(ctx.quick());
    let lmax = *lens.last().unwrap();
    let pmax = model::n_digit_patterns(lmax, k);
    for &len in &lens {
        let np = model::n_digit_patterns(len, k).min(pmax);
        let r32 = model::stripe_rows(len, 32);
        let heavy_wraps = len <= 200 || (len % 32 <= 1) || (990..=1060).contains(&len) || (2040..=2052).contains(&len);
        for cfg in cfgs::ALL_SCFGS {
            // generic/U1 is quadratic in memory traffic for long sequences: every length up to 600 only
            if cfg == SCfg::GenU1 && len > 600 && len % 97 != 0 {
                continue;
            }
            for pat in 0..np {
                for wild in [false, true] {
                    if wild && pat > 1 {
                        continue;
                    }
                    let menus = if heavy_wraps && pat == 0 { wrap_menus(r32) } else { vec![vec![], vec![7]] };
                    for wraps in menus {
                        let idx = *base;
                        *base += 1;
                        if !ctx.mine(idx) {
                            continue;
                        }
                        let case = SingleCase { alpha, cfg, len, pat, wild, wraps };
                        rep.sample_space(2, || case.json());
                        run_single_case::<A>(&case, rep);
                    }
                }
            }
        }
        if ctx.out_of_time() {
            rep.cap(format!("single/{}: wall-clock cap reached at L={}", alpha, len));
            return;
        }
    }
    // lengths that an f32 cannot represent (above 2^24): row counts derived through floating point go wrong there
    if alpha == "dna" {
        for &len in &[(1usize << 24) + 1, (1usize << 24) + 33, (1usize << 25) + 65] {
            for cfg in [SCfg::GenU32, SCfg::AvxU32, SCfg::DispGen, SCfg::DispAvx] {
                let idx = *base;
                *base += 1;
                if !ctx.mine(idx) || (ctx.quick() && len > (1 << 25)) {
                    continue;
                }
                let case = SingleCase { alpha, cfg, len, pat: 3, wild: false, wraps: vec![4] };
                run_single_case::<A>(&case, rep);
            }
        }
    }
}

// ---------------------------------------------------------------------------
// (b) buffer histories
// ---------------------------------------------------------------------------

#[derive(Clone, Debug, PartialEq)]
enum Op {
    StripeInto(SCfg, usize, u32),
    Wrap(WrapArg),
    Configure(usize),
    Clone,
}

#[derive(Clone, Copy, Debug, PartialEq)]
enum WrapArg {
    Abs(usize),
    R,
    RPlus1,
    TwoRPlus1,
}

const HIST_LENS: [usize; 15] = [0, 1, 31, 32, 33, 64, 992, 993, 1023, 1024, 1025, 1056, 2047, 2048, 2049];
const HIST_LENS_QUICK: [usize; 11] = [0, 1, 31, 33, 64, 992, 1000, 1024, 1025, 2047, 2049];

fn hist_ops(quick: bool) -> Vec<Op> {
    let mut v = Vec::new();
    let lens: &[usize] = if quick { &HIST_LENS_QUICK } else { &HIST_LENS };
    for cfg in [SCfg::GenU32, SCfg::AvxU32, SCfg::DispSse, SCfg::DispAvx, SCfg::DispGen] {
        if quick && (cfg == SCfg::DispAvx || cfg == SCfg::DispGen) {
            continue;
        }
        for &l in lens {
            for p in [0u32, 1] {
                if quick && p == 1 && l != 33 && l != 1025 {
                    continue;
                }
                v.push(Op::StripeInto(cfg, l, p));
            }
        }
    }
    for m in [0usize, 1, 2, 5, 31, 32, 33, 40] {
        v.push(Op::Wrap(WrapArg::Abs(m)));
    }
    v.push(Op::Wrap(WrapArg::R));
    v.push(Op::Wrap(WrapArg::RPlus1));
    v.push(Op::Wrap(WrapArg::TwoRPlus1));
    for w in [0usize, 1, 8, 34] {
        v.push(Op::Configure(w));
    }
    v.push(Op::Clone);
    v
}

struct HSys<A: Alphabet> {
    real: StripedSequence<A, U32>,
    seq: Vec<u8>,
    pat: (usize, u32),
    wrap: usize,
}

impl<A: Alphabet> HSys<A> {
    fn new() -> Self {
        Self {
            real: StripedSequence::default(),
            seq: Vec::new(),
            pat: (0, 0),
            wrap: 0,
        }
    }

    fn apply(&mut self, op: &Op) {
        let k = model::k_of::<A>();
        match op {
            Op::StripeInto(cfg, l, p) => {
                let seq = seq_for(k, *l, *p, *p == 1);
                let syms = model::to_symbols::<A>(&seq);
                cfgs::stripe_into_u32::<A>(*cfg, &syms, &mut self.real);
                self.seq = seq;
                self.pat = (*l, *p);
                self.wrap = 0;
            }
            Op::Wrap(a) => {
                let r = model::stripe_rows(self.seq.len(), 32);
                let m = match a {
                    WrapArg::Abs(m) => *m,
                    WrapArg::R => r,
                    WrapArg::RPlus1 => r + 1,
                    WrapArg::TwoRPlus1 => 2 * r + 1,
                };
                self.real.configure_wrap(m);
                self.wrap = self.wrap.max(m);
            }
            Op::Configure(w) => {
                let rows: Vec<Vec<f32>> = (0..*w).map(|_| vec![0.0; k]).collect();
                let pssm = model::scoring::<A>(&rows);
                self.real.configure(&pssm);
                if *w > 0 {
                    self.wrap = self.wrap.max(*w - 1);
                }
            }
            Op::Clone => {
                let c = self.real.clone();
                self.real = c;
            }
        }
    }

    fn check(&self) -> Result<(), String> {
        let k = model::k_of::<A>();
        let snap = cfgs::snapshot(&self.real);
        check_snapshot(&snap, &self.seq, self.wrap, (k - 1) as u8)?;
        // Index / counts through the public API
        for (i, &want) in self.seq.iter().enumerate() {
            let got = self.real[i].as_index() as u8;
            if got != want {
                return Err(format!("striped[{}] = {} but linear sequence has {}", i, got, want));
            }
        }
        let want = counts_of(&self.seq, k);
        for (si, s) in A::symbols().iter().enumerate() {
            let got = self.real.count_symbol(*s);
            if got != want[si] {
                return Err(format!("count_symbol({}) = {} expected {}", si, got, want[si]));
            }
        }
        let all = self.real.count_symbols();
        if all.to_vec() != want {
            return Err(format!("count_symbols() = {:?} expected {:?}", all.to_vec(), want));
        }
        Ok(())
    }

    /// Canonical key. Every operation is data-oblivious, so futures depend on the content only
    /// through (length, content id); the look-ahead rows are a function of `wrap` by the invariant
    /// being checked; capacity only decides whether the next resize reallocates, so it is kept as
    /// a class: exact fit / within the 32 pre-reserved rows / larger.
    fn key(&self) -> (usize, u32, usize, usize) {
        let cap = self.real.matrix().capacity();
        let rows = self.real.matrix().rows();
        let seq_rows = rows - self.real.wrap();
        let class = if cap == rows { 0 } else if cap <= seq_rows + 32 { 1 } else { 2 };
        (self.pat.0, self.pat.1, self.wrap, class)
    }
}

pub fn run_histories<A: Alphabet>(alpha: &'static str, ctx: &mut Ctx, rep: &mut Report, depth: usize) {
    let oplist = hist_ops(ctx.quick());
    let quick = ctx.quick();
    let nops = oplist.len();
    let deadline = ctx.deadline;
    let mut viol: Vec<(String, String, Vec<usize>)> = Vec::new();
    let mut sample: Option<Vec<usize>> = None;
    let root = HSys::<A>::new();
    let st = bfs(
        root.key(),
        depth,
        |_| nops,
        |hist, op| {
            let mut full = hist.to_vec();
            full.push(op);
            if !vx_core::util::crumb_bfs(|| json!({"module": "C04", "case": {"kind": "history", "alphabet": alpha, "ops": full, "quick_table": quick}}).to_string()) {
                return Bfs { key: None };
            }
            let r = catch(|| {
                let mut s = HSys::<A>::new();
                for &o in hist {
                    s.apply(&oplist[o]);
                }
                s.apply(&oplist[op]);
                (s.key(), s.check())
            });
            match r {
                Ok((k, Ok(()))) => {
                    if sample.is_none() && full.len() >= 3 {
                        sample = Some(full.clone());
                    }
                    Bfs { key: Some(k) }
                }
                Ok((_, Err(e))) => {
                    viol.push((format!("C04 history {} op={:?} mismatch", alpha, oplist[op]), e, full));
                    Bfs { key: None }
                }
                Err(p) => {
                    viol.push((
                        format!("C04 history {} op={:?} panic {}", alpha, oplist[op], vx_core::util::panic_class(&p)),
                        format!("panic: {}", p),
                        full,
                    ));
                    Bfs { key: None }
                }
            }
        },
        || std::time::Instant::now() > deadline,
    );
    rep.add_states(st.states, st.transitions, st.transitions, st.max_depth);
    {
        let c = rep.spaces.get_mut("histories").unwrap();
        c.evaluations += st.transitions;
        c.nontrivial += st.states;
    }
    if st.depth_capped {
        if std::time::Instant::now() > deadline {
            ctx.capped = true;
            rep.cap(format!("histories/{}: wall-clock cap, {} frontier states left", alpha, st.frontier_left));
        } else {
            rep.note(format!("histories/{}: depth bound {} reached with {} unexpanded states (bounded, not a fixpoint)", alpha, depth, st.frontier_left));
        }
    } else {
        rep.note(format!("histories/{}: fixpoint reached ({} states, {} transitions, max depth {})", alpha, st.states, st.transitions, st.max_depth));
    }
    for (sig, msg, hist) in viol {
        rep.violation(sig, msg, || {
            json!({"kind": "history", "alphabet": alpha, "ops": hist, "history": hist.iter().map(|&o| format!("{:?}", oplist[o])).collect::<Vec<_>>(), "quick_table": ctx.quick()})
        });
    }
    if let Some(h) = sample {
        rep.sample_space(2, || json!({"kind": "history", "alphabet": alpha, "history": h.iter().map(|&o| format!("{:?}", oplist[o])).collect::<Vec<_>>()}));
    }
}

pub fn run(ctx: &mut Ctx, rep: &mut Report) {
    if ctx.wants("single") {
        rep.space(
            "single",
            "product: alphabet {DNA,protein} x striping configuration {generic U1,U2,U4,U16,U32; avx2 U32; dispatcher arms generic/sse2/avx2} x every length 0..=2200 (thorough 0..=8300), plus DNA sequences of 2^24+1 and 2^24+33 (thorough 2^25+65) symbols (lengths an f32 cannot hold) for the 32-lane configurations \
             x digit patterns (symbol i = floor(i/(K-1)^p) mod (K-1), p < ceil(log_{K-1}(L+1)); wildcard injected at i%7==3 for p<=1) x configure_wrap sequences; \
             oracle: linear-sequence model (layout, wildcard padding, look-ahead rows, Index, count_symbol(s)); non-trivial = L>0; cases are distinct by construction",
        );
        let mut base = 0u64;
        run_single::<Dna>("dna", ctx, rep, &mut base);
        run_single::<Protein>("protein", ctx, rep, &mut base);
    }
    if ctx.wants("histories") {
        let depth = if ctx.quick() { 6 } else { 12 };
        rep.space(
            "histories",
            "explicit-state BFS over operation histories on ONE real StripedSequence<A,U32>: stripe_into by {generic, avx2, dispatcher arms} for lengths around 32/1024/2048 boundaries and 2 contents, \
             configure_wrap(m) for m in {0,1,2,5,31,32,33,40,R,R+1,2R+1}, configure(motif width 0/1/8/34), clone; canonical key (length, content id, wrap, capacity class); \
             every transition re-executes its history on a fresh buffer and is checked against the linear-sequence model",
        );
        // two alphabets = two independent searches; shard by alphabet
        if ctx.mine(0) {
            run_histories::<Dna>("dna", ctx, rep, depth);
        }
        if ctx.mine(1) {
            run_histories::<Protein>("protein", ctx, rep, depth);
        }
    }
}

pub fn replay(ctx: &mut Ctx, rep: &mut Report, case: &Value) {
    rep.space("replay", "replay of one recorded case");
    let alpha = case["alphabet"].as_str().unwrap().to_string();
    match case["kind"].as_str().unwrap() {
        "single" => {
            let c = SingleCase {
                alpha: if alpha == "dna" { "dna" } else { "protein" },
                cfg: SCfg::from_name(case["cfg"].as_str().unwrap()).unwrap(),
                len: case["len"].as_u64().unwrap() as usize,
                pat: case["pattern"].as_u64().unwrap() as u32,
                wild: case["wildcard_injected"].as_bool().unwrap(),
                wraps: case["wraps"].as_array().unwrap().iter().map(|x| x.as_u64().unwrap() as usize).collect(),
            };
            if alpha == "dna" {
                run_single_case::<Dna>(&c, rep)
            } else {
                run_single_case::<Protein>(&c, rep)
            }
        }
        "history" => {
            let quick = case["quick_table"].as_bool().unwrap_or(true);
            let oplist = hist_ops(quick);
            let hist: Vec<usize> = case["ops"].as_array().unwrap().iter().map(|x| x.as_u64().unwrap() as usize).collect();
            fn go<A: Alphabet>(alpha: &str, oplist: &[Op], hist: &[usize], rep: &mut Report) {
                let r = catch(|| {
                    let mut s = HSys::<A>::new();
                    for (n, &o) in hist.iter().enumerate() {
                        s.apply(&oplist[o]);
                        if let Err(e) = s.check() {
                            return Err(format!("after op {} ({:?}): {}", n, oplist[o], e));
                        }
                    }
                    Ok(())
                });
                rep.eval_distinct(true);
                match r {
                    Ok(Ok(())) => {}
                    Ok(Err(e)) => rep.violation(format!("C04 history {} replay", alpha), e, || json!({"ops": hist})),
                    Err(p) => rep.violation(format!("C04 history {} replay panic", alpha), p, || json!({"ops": hist})),
                }
            }
            if alpha == "dna" {
                go::<Dna>(&alpha, &oplist, &hist, rep)
            } else {
                go::<Protein>(&alpha, &oplist, &hist, rep)
            }
        }
        _ => panic!("unknown case kind"),
    }
    let _ = ctx;
}
