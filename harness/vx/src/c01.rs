//! C01 — every backend computes the defined PSSM score at every position (DESIGN §C01).
//!
//! `shapes`: product  alphabet × L × M × content pattern × matrix, with all 11 backend/lane/arm
//!           configurations and a menu of row sub-ranges evaluated on every point;
//! `small`:  content-exhaustive small scope: ALL sequences of length <= 6 (DNA) / <= 5 (protein
//!           restricted to 4 residues + X) against matrices from a row menu.
//!
//! The C07 clause "cells past the last valid position hold -inf when the wildcard column is -inf"
//! is checked here too (it needs the same shape loop); it is reported under C07 by c07.rs which
//! calls `check_case` with `tail_clause = true`.

use lightmotif::abc::{Alphabet, Dna, Protein};
use serde_json::{json, Value};
use vx_core::{catch, Ctx, Report};

use crate::cfgs::{self, Cfg, ScoreOut};
use crate::model;

#[derive(Clone, Debug)]
pub struct Case {
    pub alpha: &'static str,
    pub seq: Vec<u8>,
    pub matrix: Vec<Vec<f32>>,
    /// description of how seq/matrix were generated (for humans)
    pub origin: String,
    /// extra look-ahead rows beyond M-1 (None: use `configure`)
    pub wrap_override: Option<usize>,
    /// spare sequence rows of a hand-built striped sequence (0: as striped by the library)
    pub spare_rows: usize,
    /// rows the weight matrix had in excess before being `resize`d down to its width (0: built at its width)
    pub trimmed_rows: usize,
    /// see cfgs::CLONED
    pub cloned: u8,
}

impl Case {
    pub fn json(&self, cfg: Option<Cfg>) -> Value {
        let letters = if self.alpha == "dna" { model::DNA_LETTERS } else { model::PROTEIN_LETTERS };
        let text = if self.seq.len() <= 400 { model::ranks_to_text(letters, &self.seq) } else { format!("{}…", model::ranks_to_text(letters, &self.seq[..400])) };
        json!({
            "alphabet": self.alpha,
            "origin": self.origin,
            "len": self.seq.len(),
            "width": self.matrix.len(),
            "seq_ranks": self.seq,
            "seq_text": text,
            "matrix": model::matrix_to_json(&self.matrix),
            "wrap_override": self.wrap_override,
            "spare_rows": self.spare_rows,
            "trimmed_rows": self.trimmed_rows,
            "cloned": self.cloned,
            "cfg": cfg.map(|c| c.name()),
        })
    }

    pub fn from_json(v: &Value) -> Case {
        Case {
            alpha: if v["alphabet"].as_str().unwrap() == "dna" { "dna" } else { "protein" },
            seq: model::ranks_from_json(&v["seq_ranks"]),
            matrix: model::matrix_from_json(&v["matrix"]),
            origin: v["origin"].as_str().unwrap_or("").to_string(),
            wrap_override: v["wrap_override"].as_u64().map(|x| x as usize),
            spare_rows: v["spare_rows"].as_u64().unwrap_or(0) as usize,
            trimmed_rows: v["trimmed_rows"].as_u64().unwrap_or(0) as usize,
            cloned: v["cloned"].as_u64().unwrap_or(0) as u8,
        }
    }
}

/// Row sub-ranges for R sequence rows: all of them when R <= 5, a boundary menu otherwise.
/// `(usize::MAX, 0)` is the full scan through `score_into`.
pub fn range_menu(r: usize, light: bool) -> Vec<(usize, usize)> {
    let mut v = vec![(usize::MAX, 0)];
    if r == 0 {
        v.push((0, 0));
        return v;
    }
    if r <= 5 && !light {
        for a in 0..=r {
            for b in a..=r {
                v.push((a, b));
            }
        }
    } else {
        v.push((0, r));
        v.push((0, 1));
        v.push((r - 1, r));
        if !light {
            if r > 2 {
                v.push((1, r - 1));
            }
            v.push((r / 2, r / 2 + 1));
            v.push((r / 2, r / 2));
        }
    }
    v
}

pub struct Outcome {
    /// number of kernel invocations
    pub invocations: u64,
    pub nontrivial: bool,
    /// (signature suffix, message, offending configuration)
    pub failures: Vec<(String, String, Option<Cfg>)>,
    /// `tail` failures (C07 second clause) kept apart
    pub tail_failures: Vec<(String, String, Option<Cfg>)>,
}

fn wildcard_is_neg_inf(matrix: &[Vec<f32>]) -> bool {
    matrix.iter().all(|r| *r.last().unwrap() == f32::NEG_INFINITY)
}

/// Run every configuration in `cfgs_` on one case and compare with the reference model and with each other.
pub fn check_case<A: Alphabet>(case: &Case, cfgs_: &[Cfg], light: bool) -> Outcome {
    let l = case.seq.len();
    let m = case.matrix.len();
    let valid = if l >= m { l - m + 1 } else { 0 };
    let mut out = Outcome {
        invocations: 0,
        nontrivial: valid > 0 && case.seq.iter().any(|&s| (s as usize) < model::k_of::<A>() - 1),
        failures: Vec::new(),
        tail_failures: Vec::new(),
    };
    let syms = model::to_symbols::<A>(&case.seq);
    let pssm = if case.trimmed_rows > 0 { model::scoring_trimmed::<A>(&case.matrix, case.trimmed_rows) } else { model::scoring::<A>(&case.matrix) };
    // reference
    let refs: Vec<(f64, f64)> = (0..valid).map(|i| model::ref_score(&case.matrix, &case.seq, i)).collect();
    let tail_applies = wildcard_is_neg_inf(&case.matrix);
    let mut first_values: Option<(Cfg, Vec<f32>)> = None;

    for &cfg in cfgs_ {
        let c = cfg.lanes();
        let r = model::stripe_rows(l, c) + case.spare_rows;
        let ranges = range_menu(r, light);
        out.invocations += ranges.len() as u64;
        let res: Result<ScoreOut, String> = {
            cfgs::SPARE_ROWS.with(|x| x.set(case.spare_rows));
            cfgs::CLONED.with(|x| x.set(case.cloned));
            let r = catch(|| cfgs::score_f32::<A>(cfg, &syms, &pssm, &ranges, case.wrap_override));
            cfgs::SPARE_ROWS.with(|x| x.set(0));
            cfgs::CLONED.with(|x| x.set(0));
            r
        };
        let so = match res {
            Ok(s) => s,
            Err(p) => {
                out.failures.push((format!("panic {}", vx_core::util::panic_class(&p)), format!("panic: {}", p), Some(cfg)));
                continue;
            }
        };
        if so.seq_rows != r {
            out.failures.push(("seq rows".into(), format!("striped sequence has {} sequence rows, expected {}", so.seq_rows, r), Some(cfg)));
            continue;
        }
        let mut bad = false;
        for ro in &so.ranges {
            let full = ro.unstriped.len() > 0 || ro.iter_len > 0 || (ro.a == 0 && ro.b == r && ro.api_max.is_some());
            let is_full_entry = std::ptr::eq(ro, &so.ranges[0]);
            let want_rows = if valid == 0 || ro.b <= ro.a { 0 } else { ro.b - ro.a };
            if is_full_entry && tail_applies && valid > 0 {
                // C07 clause 2: the largest cell of the float score matrix is the best valid position's score whenever one is finite
                let (best, ab) = refs.iter().filter(|r| r.0.is_finite() && r.1.is_finite()).fold((f64::NEG_INFINITY, 0f64), |(b, a), &(ex, ab)| (b.max(ex), a.max(ab)));
                if best.is_finite() {
                    let top = ro.cells.iter().cloned().fold(None, |acc: Option<f32>, x| Some(acc.map_or(x, |a| a.max(x))));
                    match top {
                        None => out.tail_failures.push((
                            "max of empty score matrix".into(),
                            format!("the score matrix has no cell although position(s) 0..{} are valid and the best one scores {} (L={}, M={})", valid, best, l, m),
                            Some(cfg),
                        )),
                        Some(v) if !model::score_ok(v, best, ab, m) => out.tail_failures.push((
                            "matrix maximum".into(),
                            format!("the largest cell of the score matrix is {} but the best valid position scores {} (L={}, M={})", v, best, l, m),
                            Some(cfg),
                        )),
                        _ => {}
                    }
                }
            }
            if ro.rows != want_rows {
                out.failures.push((
                    "row count".into(),
                    format!("rows {}..{}: result has {} rows, expected {} (L={}, M={})", ro.a, ro.b, ro.rows, want_rows, l, m),
                    Some(cfg),
                ));
                bad = true;
                break;
            }
            let _ = full;
            if is_full_entry {
                if ro.max_index != valid {
                    out.failures.push(("max_index".into(), format!("full scan reports {} scored positions, expected L-M+1 = {}", ro.max_index, valid), Some(cfg)));
                    bad = true;
                    break;
                }
                if ro.unstriped.len() != valid || ro.iter_len != valid {
                    out.failures.push((
                        "length".into(),
                        format!("unstripe() has {} values, iter() {} — expected {}", ro.unstriped.len(), ro.iter_len, valid),
                        Some(cfg),
                    ));
                    bad = true;
                    break;
                }
            }
            // every valid cell of this range
            for rr in 0..ro.rows {
                for col in 0..c {
                    let p = col * r + ro.a + rr;
                    let got = ro.cells[rr * c + col];
                    if p < valid {
                        let (ex, ab) = refs[p];
                        if !model::score_ok(got, ex, ab, m) {
                            out.failures.push((
                                "value".into(),
                                format!(
                                    "rows {}..{}: cell (row {}, col {}) = position {} scores {} but the exact sum is {} (L={}, M={}, R={})",
                                    ro.a, ro.b, rr, col, p, got, ex, l, m, r
                                ),
                                Some(cfg),
                            ));
                            bad = true;
                            break;
                        }
                    } else if tail_applies && is_full_entry && got != f32::NEG_INFINITY && p + m > l && p < r * c {
                        // C07 clause 2: cells past the last valid position are -inf
                        out.tail_failures.push((
                            "tail not -inf".into(),
                            format!("cell (row {}, col {}) = position {} is past the last valid position {} but holds {} (L={}, M={})", rr, col, p, valid as i64 - 1, got, l, m),
                            Some(cfg),
                        ));
                        bad = true;
                        break;
                    }
                }
                if bad {
                    break;
                }
            }
            if bad {
                break;
            }
            if is_full_entry {
                for p in 0..valid {
                    let cell = ro.cells[(p % r) * c + p / r];
                    if ro.unstriped[p].to_bits() != cell.to_bits() || ro.indexed[p].to_bits() != cell.to_bits() {
                        out.failures.push((
                            "unstripe/index".into(),
                            format!("position {}: unstripe()={} Index={} but cell holds {}", p, ro.unstriped[p], ro.indexed[p], cell),
                            Some(cfg),
                        ));
                        bad = true;
                        break;
                    }
                }
                if let Some(am) = ro.api_max {
                    // StripedScores::max through the dispatching API: the best valid score when finite (C07 clause 2)
                    if tail_applies && valid > 0 {
                        let best = ro.unstriped.iter().cloned().fold(f32::NEG_INFINITY, f32::max);
                        if best.is_finite() && am != Some(best) {
                            out.tail_failures.push(("api max".into(), format!("StripedScores::max() = {:?}, best valid score is {}", am, best), Some(cfg)));
                        }
                    }
                }
            }
            if bad {
                break;
            }
        }
        if bad {
            continue;
        }
        // score_position
        for p in 0..valid {
            let (ex, ab) = refs[p];
            if !model::score_ok(so.positions[p], ex, ab, m) {
                out.failures.push((
                    "score_position".into(),
                    format!("score_position({}) = {} but the exact sum is {}", p, so.positions[p], ex),
                    Some(cfg),
                ));
                break;
            }
        }
        if let Some(api) = &so.api_scores {
            let full0 = &so.ranges[0].unstriped;
            if api.len() != full0.len() || api.iter().zip(full0).any(|(a, b)| a.to_bits() != b.to_bits() && !(a == b)) {
                out.failures.push(("api score".into(), "ScoringMatrix::score() differs from the pipeline's score_into()".into(), Some(cfg)));
            }
        }
        // cross-configuration identity (==, so +0/-0 agree; -inf == -inf)
        let vals = so.ranges[0].unstriped.clone();
        match &first_values {
            None => first_values = Some((cfg, vals)),
            Some((c0, v0)) => {
                if v0.len() == vals.len() {
                    if let Some(p) = (0..vals.len()).find(|&p| !(v0[p] == vals[p])) {
                        out.failures.push((
                            "backend disagreement".into(),
                            format!("position {}: {} gives {} but {} gives {}", p, c0.name(), v0[p], cfg.name(), vals[p]),
                            Some(cfg),
                        ));
                    }
                }
            }
        }
    }
    out
}

// ---------------------------------------------------------------------------
// matrices
// ---------------------------------------------------------------------------

pub const MATRIX_KINDS: [&str; 9] = ["enc", "int", "logodds", "neginf_row", "big", "tiny", "finite_wild", "subnormal", "huge_alt"];

/// Build matrix `kind` of width `m` for alphabet size `k`. `win` selects which 4(8)-row window of an
/// "enc" matrix is active.
pub fn make_matrix(kind: &str, m: usize, k: usize, win: usize) -> Vec<Vec<f32>> {
    let ninf = f32::NEG_INFINITY;
    match kind {
        // window-encoding: cell (j,s) = (s+1) * B^(j - j0) on the active rows, 0 elsewhere; all sums < 2^24 (exact)
        "enc" => {
            let b = (k + 1) as f32;
            let span = if k <= 5 { 8 } else { 4 };
            let j0 = win * span;
            (0..m)
                .map(|j| {
                    (0..k)
                        .map(|s| if j >= j0 && j < j0 + span { (s as f32 + 1.0) * b.powi((j - j0) as i32) } else { 0.0 })
                        .collect()
                })
                .collect()
        }
        "int" => (0..m)
            .map(|j| (0..k).map(|s| if s == k - 1 { ninf } else { ((j * 7 + s * 3) % 11) as f32 - 5.0 }).collect())
            .collect(),
        "logodds" => (0..m)
            .map(|j| {
                let counts: Vec<f64> = (0..k - 1).map(|s| ((j * 5 + s * 3) % 7) as f64 + 0.1).collect();
                let tot: f64 = counts.iter().sum();
                let bg = 1.0 / (k as f64 - 1.0);
                let mut row: Vec<f32> = counts.iter().map(|c| ((c / tot) / bg).log2() as f32).collect();
                row.push(ninf);
                row
            })
            .collect(),
        "neginf_row" => (0..m)
            .map(|j| {
                (0..k)
                    .map(|s| if s == k - 1 || j == m / 2 || (s + j) % 6 == 0 { ninf } else { ((j + 2 * s) % 5) as f32 * 0.5 - 1.0 })
                    .collect()
            })
            .collect(),
        "big" => (0..m)
            .map(|j| (0..k).map(|s| if s == k - 1 { ninf } else { (((j * 3 + s * 5) % 13) as f32 - 6.0) * 1.0e6 + 0.25 }).collect())
            .collect(),
        "tiny" => (0..m)
            .map(|j| (0..k).map(|s| if s == k - 1 { ninf } else { (((j * 3 + s * 5) % 13) as f32 - 6.0) * 1.0e-6 }).collect())
            .collect(),
        // subnormal cells (integer multiples of 2^-140: every partial sum is exact and stays subnormal): a kernel running
        // with flush-to-zero / denormals-are-zero would return 0
        "subnormal" => (0..m)
            .map(|j| (0..k).map(|s| if s == k - 1 { ninf } else { (((j * 3 + s * 5) % 13) as f32 - 6.0) * f32::from_bits(0x0000_0200) }).collect())
            .collect(),
        // cells near f32::MAX with alternating signs along the rows: every left-to-right prefix sum stays finite
        // (|prefix| <= 3.1e38), but adding the even and the odd rows separately overflows to infinity
        "huge_alt" => (0..m)
            .map(|j| {
                (0..k)
                    .map(|s| if s == k - 1 { ninf } else { (if j % 2 == 0 { 1.0 } else { -1.0 }) * (3.0e38 - (s as f32) * 1.0e36) })
                    .collect()
            })
            .collect(),
        "finite_wild" => (0..m)
            .map(|j| (0..k).map(|s| ((j * 2 + s * 7) % 9) as f32 * 0.25 - 1.0).collect())
            .collect(),
        _ => panic!("unknown matrix kind"),
    }
}

fn n_windows(kind: &str, m: usize, k: usize) -> usize {
    if kind == "enc" {
        let span = if k <= 5 { 8 } else { 4 };
        (m + span - 1) / span
    } else {
        1
    }
}

fn shape_lengths(quick: bool) -> Vec<usize> {
    let max = if quick { 200 } else { 1100 };
    let mut v: Vec<usize> = (0..=max).collect();
    for b in [992usize, 1024, 1056, 2048, 8160, 8192, 8224] {
        for d in -2i64..=2 {
            let x = (b as i64 + d) as usize;
            if !v.contains(&x) {
                v.push(x);
            }
        }
    }
    v
}

fn shape_widths(quick: bool) -> Vec<usize> {
    if quick {
        vec![1, 2, 3, 5, 8, 34]
    } else {
        let mut v: Vec<usize> = (1..=12).collect();
        v.extend([16, 33, 34, 40]);
        v
    }
}

fn run_shapes<A: Alphabet>(alpha: &'static str, ctx: &mut Ctx, rep: &mut Report, base: &mut u64) {
    let k = model::k_of::<A>();
    let lens = shape_lengths(ctx.quick());
    let widths = shape_widths(ctx.quick());
    for &l in &lens {
        let big = l > 1100;
        let np = model::n_digit_patterns(l.max(1), k);
        for &m in &widths {
            for kind in MATRIX_KINDS {
                if big && !(kind == "enc" || kind == "int") {
                    continue;
                }
                for win in 0..n_windows(kind, m, k) {
                    // content patterns: digit patterns; wildcard-injected variants of p=0,1
                    let mut pats: Vec<(u32, Option<usize>)> = (0..np).map(|p| (p, None)).collect();
                    pats.push((0, Some(3)));
                    if !ctx.quick() || !big {
                        pats.push((1, Some(0)));
                    }
                    // value matrices do not need every wiring pattern
                    if kind != "enc" {
                        pats.truncate(2);
                        pats.push((0, Some(3)));
                    }
                    for (p, wild) in pats {
                        let idx = *base;
                        *base += 1;
                        if !ctx.mine(idx) {
                            continue;
                        }
                        let seq = match wild {
                            None => model::digit_pattern(l, k, p),
                            Some(r) => model::digit_pattern_wild(l, k, p, r),
                        };
                        let case = Case {
                            alpha,
                            seq,
                            matrix: make_matrix(kind, m, k, win),
                            origin: format!("shapes L={} M={} matrix={}#{} pattern={} wildcard_at={:?}", l, m, kind, win, p, wild),
                            wrap_override: None,
                            spare_rows: 0,
                            trimmed_rows: 0,
                            cloned: 0,
                        };
                        ctx.crumb(|| case.origin.clone());
                        let o = check_case::<A>(&case, &cfgs::ALL_CFGS, big);
                        for _ in 0..o.invocations {
                            rep.eval_distinct(o.nontrivial);
                        }
                        if l == 100 && m == 5 && win == 0 && p == 1 {
                            rep.sample_space(2, || case.json(None));
                        }
                        for (sig, msg, cfg) in o.failures {
                            rep.violation(format!("C01 {} {} {}", alpha, cfg.map(|c| c.name()).unwrap_or("-"), sig), msg, || case.json(cfg));
                        }
                    }
                }
            }
        }
        if ctx.out_of_time() {
            rep.cap(format!("shapes/{}: wall-clock cap reached at L={}", alpha, l));
            return;
        }
    }
    // extra look-ahead rows than needed, and wrap much larger than the row count
    for &l in &[0usize, 1, 5, 31, 32, 33, 64, 100, 1025] {
        for &m in &[1usize, 3, 8] {
            for &w in &[m - 1, m, m + 5, 40, (2 * model::stripe_rows(l, 32) + 3).max(m - 1)] {
                let idx = *base;
                *base += 1;
                if !ctx.mine(idx) {
                    continue;
                }
                let case = Case {
                    alpha,
                    seq: model::digit_pattern_wild(l, k, 0, 5),
                    matrix: make_matrix("enc", m, k, 0),
                    origin: format!("shapes/extra-wrap L={} M={} wrap={}", l, m, w),
                    wrap_override: Some(w),
                    spare_rows: 0,
                    trimmed_rows: 0,
                    cloned: 0,
                };
                let o = check_case::<A>(&case, &cfgs::ALL_CFGS, false);
                for _ in 0..o.invocations {
                    rep.eval_distinct(o.nontrivial);
                }
                for (sig, msg, cfg) in o.failures {
                    rep.violation(format!("C01 {} {} extra-wrap {}", alpha, cfg.map(|c| c.name()).unwrap_or("-"), sig), msg, || case.json(cfg));
                }
            }
        }
    }
    // weight matrices that were LONGER and have been trimmed with DenseMatrix::resize before ScoringMatrix::new
    // (a motif cut down to its informative core): the dropped rows hold large finite weights
    for &l in &[0usize, 1, 5, 31, 32, 33, 64, 100, 1025] {
        for &m in &[1usize, 3, 8, 17] {
            for &trim in &[1usize, 2, 6] {
                let idx = *base;
                *base += 1;
                if !ctx.mine(idx) {
                    continue;
                }
                let case = Case {
                    alpha,
                    seq: model::digit_pattern_wild(l, k, 0, 5),
                    matrix: make_matrix("enc", m, k, 0),
                    origin: format!("shapes/trimmed-matrix L={} M={} trimmed={}", l, m, trim),
                    wrap_override: None,
                    spare_rows: 0,
                    trimmed_rows: trim,
                    cloned: 0,
                };
                let o = check_case::<A>(&case, &cfgs::ALL_CFGS, false);
                for _ in 0..o.invocations {
                    rep.eval_distinct(o.nontrivial);
                }
                for (sig, msg, cfg) in o.failures {
                    rep.violation(format!("C01 {} {} trimmed-matrix {}", alpha, cfg.map(|c| c.name()).unwrap_or("-"), sig), msg, || case.json(cfg));
                }
            }
        }
    }
    // a CLONE of the configured sequence is scored (taken after configure; optionally configured once more)
    for &l in &[0usize, 1, 5, 31, 32, 33, 64, 100, 1025] {
        for &m in &[1usize, 2, 5, 17, 34] {
            for cloned in [1u8, 2] {
                let idx = *base;
                *base += 1;
                if !ctx.mine(idx) {
                    continue;
                }
                let case = Case {
                    alpha,
                    seq: model::digit_pattern_wild(l, k, 0, 5),
                    matrix: make_matrix("enc", m, k, 0),
                    origin: format!("shapes/cloned-sequence L={} M={} mode={}", l, m, cloned),
                    wrap_override: None,
                    spare_rows: 0,
                    trimmed_rows: 0,
                    cloned,
                };
                let o = check_case::<A>(&case, &cfgs::ALL_CFGS, false);
                for _ in 0..o.invocations {
                    rep.eval_distinct(o.nontrivial);
                }
                for (sig, msg, cfg) in o.failures {
                    rep.violation(format!("C01 {} {} cloned-sequence {}", alpha, cfg.map(|c| c.name()).unwrap_or("-"), sig), msg, || case.json(cfg));
                }
            }
        }
    }
    // hand-built striped sequences with MORE sequence rows than necessary (StripedSequence::new accepts any matrix
    // large enough for the length): position i sits at row i mod R', column i div R'
    for &l in &[0usize, 1, 5, 31, 32, 33, 64, 80, 100, 1025] {
        for &m in &[1usize, 3, 8] {
            for &spare in &[1usize, 2, 5] {
                let idx = *base;
                *base += 1;
                if !ctx.mine(idx) {
                    continue;
                }
                let case = Case {
                    alpha,
                    seq: model::digit_pattern_wild(l, k, 0, 5),
                    matrix: make_matrix("enc", m, k, 0),
                    origin: format!("shapes/spare-rows L={} M={} spare={}", l, m, spare),
                    wrap_override: None,
                    spare_rows: spare,
                    trimmed_rows: 0,
                    cloned: 0,
                };
                let o = check_case::<A>(&case, &cfgs::ALL_CFGS, false);
                for _ in 0..o.invocations {
                    rep.eval_distinct(o.nontrivial);
                }
                for (sig, msg, cfg) in o.failures {
                    rep.violation(format!("C01 {} {} spare-rows {}", alpha, cfg.map(|c| c.name()).unwrap_or("-"), sig), msg, || case.json(cfg));
                }
            }
        }
    }
}

/// Row menu for the content-exhaustive scope (DNA has 5 columns; protein rows are expanded).
fn small_rows(k: usize) -> Vec<Vec<f32>> {
    let ninf = f32::NEG_INFINITY;
    let base: Vec<[f32; 5]> = vec![
        [1.0, 2.0, 3.0, 4.0, ninf],
        [0.5, -0.5, 0.25, -2.0, ninf],
        [0.0, 0.0, 0.0, 0.0, 0.0],
        [ninf, 1.0, -1.0, 8.0, ninf],
        [1e6, -1e6, 3.0, 1e-3, -7.0],
        [6.0, 30.0, 150.0, 750.0, 3750.0],
    ];
    base.iter()
        .map(|b| {
            let mut row: Vec<f32> = (0..k - 1).map(|s| b[s % 4] + (s / 4) as f32 * 0.125).collect();
            row.push(b[4]);
            row
        })
        .collect()
}

fn run_small<A: Alphabet>(alpha: &'static str, ctx: &mut Ctx, rep: &mut Report, base: &mut u64) {
    let k = model::k_of::<A>();
    let rows = small_rows(k);
    // symbols used: DNA all 5; protein {A, C, W(18), Y(19), X(20)}
    let sym_map: Vec<u8> = if k == 5 { vec![0, 1, 2, 3, 4] } else { vec![0, 1, 18, 19, 20] };
    let lmax = if k == 5 { 6 } else { 5 };
    for m in 1..=3usize {
        let nmat = (rows.len() as u64).pow(m as u32);
        for mi in 0..nmat {
            let idx = *base;
            *base += 1;
            if !ctx.mine(idx) {
                continue;
            }
            let digits = model::nth_word(mi, m, rows.len());
            let matrix: Vec<Vec<f32>> = digits.iter().map(|&d| rows[d as usize].clone()).collect();
            for l in 0..=lmax {
                let nseq = 5u64.pow(l as u32);
                // the full set of sequences for L <= 4; for L = 5, 6 in the quick tier only for M <= 2
                if ctx.quick() && l >= 5 && m == 3 {
                    continue;
                }
                for si in 0..nseq {
                    let seq: Vec<u8> = model::nth_word(si, l, 5).iter().map(|&d| sym_map[d as usize]).collect();
                    let case = Case {
                        alpha,
                        seq,
                        matrix: matrix.clone(),
                        origin: format!("small L={} seq#{} M={} matrix#{}", l, si, m, mi),
                        wrap_override: None,
                        spare_rows: 0,
                        trimmed_rows: 0,
                        cloned: 0,
                    };
                    // lane-count variety matters little for <= 6 symbols: one of each family
                    let set = [Cfg::GenU32, Cfg::GenU2, Cfg::SseU16, Cfg::AvxU32, Cfg::DispGen, Cfg::DispSse, Cfg::DispAvx];
                    let o = check_case::<A>(&case, &set, true);
                    for _ in 0..o.invocations {
                        rep.eval_distinct(o.nontrivial);
                    }
                    if mi == 7 && l == 4 && si == 123 {
                        rep.sample_space(1, || case.json(None));
                    }
                    for (sig, msg, cfg) in o.failures {
                        rep.violation(format!("C01 {} {} small {}", alpha, cfg.map(|c| c.name()).unwrap_or("-"), sig), msg, || case.json(cfg));
                    }
                }
            }
            if ctx.out_of_time() {
                rep.cap(format!("small/{}: wall-clock cap reached at M={} matrix#{}", alpha, m, mi));
                return;
            }
        }
    }
}

// ---------------------------------------------------------------------------
// `reuse`: histories on ONE StripedSequence and ONE StripedScores buffer
// ---------------------------------------------------------------------------

use crate::cfgs::{HOp, HSnap};

const REUSE_LENS: [usize; 6] = [70, 100, 120, 0, 5, 200];
const REUSE_WIDTHS: [usize; 3] = [1, 3, 8];

fn reuse_seq(k: usize) -> Vec<u8> {
    let l = REUSE_LENS[k];
    (0..l).map(|i| if i % 23 == 22 { 4 } else { ((i * i + 3 * i * (k + 1) + k) % 4) as u8 }).collect()
}

pub fn reuse_ops() -> Vec<HOp> {
    let mut v = Vec::new();
    for k in 0..REUSE_LENS.len() {
        v.push(HOp::Stripe(k));
    }
    for j in 0..REUSE_WIDTHS.len() {
        v.push(HOp::Configure(j));
    }
    for j in 0..REUSE_WIDTHS.len() {
        v.push(HOp::Score(j));
    }
    v.push(HOp::ScoreRows(1));
    v
}

fn hop_json(o: HOp) -> Value {
    match o {
        HOp::Stripe(k) => json!(["stripe_into", k, format!("sequence #{} (L={})", k, REUSE_LENS[k])]),
        HOp::Configure(j) => json!(["configure", j, format!("motif of width {}", REUSE_WIDTHS[j])]),
        HOp::Score(j) => json!(["configure+score_into", j, format!("motif of width {}", REUSE_WIDTHS[j])]),
        HOp::ScoreRows(j) => json!(["configure+score_rows_into(1..R)", j, format!("motif of width {}", REUSE_WIDTHS[j])]),
    }
}

fn hop_from_json(v: &Value) -> HOp {
    let i = v[1].as_u64().unwrap() as usize;
    match v[0].as_str().unwrap() {
        "stripe_into" => HOp::Stripe(i),
        "configure" => HOp::Configure(i),
        "configure+score_into" => HOp::Score(i),
        _ => HOp::ScoreRows(i),
    }
}

pub fn reuse_json(cfg: Cfg, hist: &[HOp]) -> Value {
    json!({
        "kind": "reuse",
        "cfg": cfg.name(),
        "initial": format!("StripedSequence = stripe(sequence #0, L={}), StripedScores::empty()", REUSE_LENS[0]),
        "ops": hist.iter().map(|&o| hop_json(o)).collect::<Vec<_>>(),
        "sequences": (0..REUSE_LENS.len()).map(|k| model::ranks_to_text(model::DNA_LETTERS, &reuse_seq(k))).collect::<Vec<_>>(),
        "matrices": "window-encoding matrices make_matrix(\"enc\", M, 5, 0) for M in [1, 3, 8]",
    })
}

/// Judge the snapshot left by the last operation of a history.
fn judge_reuse(snap: &HSnap, seqs: &[Vec<u8>], mats: &[Vec<Vec<f32>>], c: usize) -> Option<(String, String)> {
    let seq = &seqs[snap.seq];
    let matrix = &mats[snap.motif];
    let (l, m) = (seq.len(), matrix.len());
    let valid = if l >= m { l - m + 1 } else { 0 };
    let r = model::stripe_rows(l, c);
    if snap.seq_rows != r {
        return Some(("seq rows".into(), format!("the reused striped sequence has {} sequence rows, expected {} (L={})", snap.seq_rows, r, l)));
    }
    let want_rows = if valid == 0 || snap.first_row >= r { 0 } else { r - snap.first_row };
    if snap.rows != want_rows {
        return Some(("row count".into(), format!("result has {} rows, expected {} (L={}, M={}, rows {}..{})", snap.rows, want_rows, l, m, snap.first_row, r)));
    }
    if snap.full {
        if snap.max_index != valid {
            return Some(("max_index".into(), format!("the reused score buffer reports {} scored positions, expected L-M+1 = {} (L={}, M={})", snap.max_index, valid, l, m)));
        }
        if snap.unstriped.len() != valid || snap.iter_len != valid {
            return Some(("length".into(), format!("unstripe() has {} values, iter() {} - expected {} (L={}, M={})", snap.unstriped.len(), snap.iter_len, valid, l, m)));
        }
    }
    for rr in 0..snap.rows {
        for col in 0..c {
            let p = col * r + snap.first_row + rr;
            if p < valid {
                let got = snap.cells[rr * c + col];
                let (ex, ab) = model::ref_score(matrix, seq, p);
                if !model::score_ok(got, ex, ab, m) {
                    return Some(("value".into(), format!("cell (row {}, col {}) = position {} scores {} but the exact sum is {} (L={}, M={}, R={})", rr, col, p, got, ex, l, m, r)));
                }
                if snap.full && snap.unstriped[p].to_bits() != got.to_bits() {
                    return Some(("unstripe".into(), format!("position {}: unstripe()={} but the cell holds {}", p, snap.unstriped[p], got)));
                }
            }
        }
    }
    None
}

pub fn check_reuse(cfg: Cfg, hist: &[HOp], seqs: &[Vec<u8>], mats: &[Vec<Vec<f32>>]) -> Option<(String, String)> {
    let syms: Vec<Vec<<Dna as Alphabet>::Symbol>> = seqs.iter().map(|s| model::to_symbols::<Dna>(s)).collect();
    let pssms: Vec<_> = mats.iter().map(|m| model::scoring::<Dna>(m)).collect();
    match catch(|| cfgs::history_f32::<Dna>(cfg, &syms, &pssms, hist)) {
        Err(p) => Some((format!("panic {}", vx_core::util::panic_class(&p)), format!("panic: {}", p))),
        Ok(None) => None,
        Ok(Some(snap)) => judge_reuse(&snap, seqs, mats, cfg.lanes()),
    }
}

/// The fixed data of the `reuse` histories (sequences as ranks, matrices).
pub fn reuse_data() -> (Vec<Vec<u8>>, Vec<Vec<Vec<f32>>>) {
    ((0..REUSE_LENS.len()).map(reuse_seq).collect(), REUSE_WIDTHS.iter().map(|&m| make_matrix("enc", m, 5, 0)).collect())
}

fn run_reuse(ctx: &mut Ctx, rep: &mut Report, base: &mut u64) {
    let depth = if ctx.quick() { 4 } else { 6 };
    let ops = reuse_ops();
    rep.space(
        "reuse",
        &format!(
            "histories on ONE StripedSequence and ONE StripedScores buffer (the normal way of scanning several sequences with several motifs): initial state stripe(sequence of length 70) + empty score buffer; \
             operation alphabet ({} ops) = stripe_into a sequence of length {{70,100,120,0,5,200}} (100 and 120 give the same row count on 32 lanes; 0 and 5 are shorter than the widest motif; 5 then 200 shrinks the score buffer and grows it past its first size), configure for a motif of width {{1,3,8}}, configure+score_into for each width, configure+score_rows_into(1..R); \
             ALL operation sequences of length 1..={} ending in a scoring operation, each re-executed on fresh objects, under all 14 configurations (DNA, window-encoding matrices: injective in the window content, exact sums); \
             oracle on the last operation: row count, max_index = L-M+1, unstripe/iter lengths, every valid cell = the exact sum for the CURRENT sequence and motif",
            ops.len(),
            depth
        ),
    );
    let seqs: Vec<Vec<u8>> = (0..REUSE_LENS.len()).map(reuse_seq).collect();
    let mats: Vec<Vec<Vec<f32>>> = REUSE_WIDTHS.iter().map(|&m| make_matrix("enc", m, 5, 0)).collect();
    let mut states = 0u64;
    let mut transitions = 0u64;
    let mut stack: Vec<Vec<HOp>> = ops.iter().map(|&o| vec![o]).collect();
    while let Some(h) = stack.pop() {
        if h.len() < depth {
            for &o in &ops {
                let mut n = h.clone();
                n.push(o);
                stack.push(n);
            }
        }
        if !matches!(h.last().unwrap(), HOp::Score(_) | HOp::ScoreRows(_)) {
            continue;
        }
        let idx = *base;
        *base += 1;
        if !ctx.mine(idx) {
            continue;
        }
        states += 1;
        transitions += h.len() as u64;
        for &cfg in cfgs::ALL_CFGS.iter() {
            rep.eval_distinct(h.len() > 1);
            if let Some((sig, msg)) = check_reuse(cfg, &h, &seqs, &mats) {
                rep.violation(format!("C01 dna {} reuse {}", cfg.name(), sig), msg, || reuse_json(cfg, &h));
            }
        }
        if h.len() == 3 && states % 40 == 1 {
            rep.sample_space(2, || reuse_json(Cfg::DispAvx, &h));
        }
        if states % 256 == 0 && ctx.out_of_time() {
            rep.cap("reuse: wall-clock cap".to_string());
            break;
        }
    }
    rep.add_states(states, transitions, transitions, depth as u64);
}

pub fn run(ctx: &mut Ctx, rep: &mut Report) {
    let mut base = 0u64;
    if ctx.wants("shapes") {
        rep.space(
            "shapes",
            "product: alphabet {DNA,protein} x L (every 0..=200 quick / 0..=1100 thorough, plus +-2 around 992,1024,1056,2048,8160,8192,8224) x M ({1,2,3,5,8,34} quick; 1..=12,16,33,34,40 thorough) \
             x matrix kind {window-encoding (injective base-(K+1) code, every 8(4)-row window), integer, log-odds, -inf rows, 1e6, 1e-6, finite wildcard, subnormal cells (multiples of 2^-140), cells of +-3e38 alternating in sign along the rows (finite left-to-right, overflowing when re-associated)} x content (digit patterns p<ceil(log_{K-1}(L+1)), wildcard-injected variants); \
             plus extra look-ahead rows and hand-built striped sequences with 1/2/5 spare sequence rows (StripedSequence::new); on every point all 14 configurations {generic U1,U2,U4,U16,U32; sse2 U16,U32; avx2 U32; dispatcher arms generic/sse2/avx2} x row sub-range menu (all a<=b when R<=5, boundary menu otherwise) are run; \
             oracle: exact f64 sum per position within the recursive-summation bound, row counts, max_index, unstripe/Index/iter, score_position, ScoringMatrix::score, == across configurations. \
             evaluations = kernel invocations; non-trivial = L>=M and some non-wildcard symbol",
        );
        run_shapes::<Dna>("dna", ctx, rep, &mut base);
        run_shapes::<Protein>("protein", ctx, rep, &mut base);
        rep.not_covered("NEON backend (pli/platform/neon.rs): no aarch64 toolchain or emulator on this host");
    }
    if ctx.wants("small") {
        rep.space(
            "small",
            "content-exhaustive small scope: ALL 5^L sequences for L<=6 (DNA, incl. wildcard) and L<=5 (protein over {A,C,W,Y,X}) x all 6^M matrices built from a 6-row menu, M<=3 \
             (quick: L>=5 only for M<=2), 7 configurations covering every backend family and dispatcher arm",
        );
        run_small::<Dna>("dna", ctx, rep, &mut base);
        run_small::<Protein>("protein", ctx, rep, &mut base);
    }
    if ctx.wants("reuse") && !ctx.out_of_time() {
        run_reuse(ctx, rep, &mut base);
    }
}

pub fn replay(_ctx: &mut Ctx, rep: &mut Report, v: &Value) {
    rep.space("replay", "replay of one recorded case");
    if v["kind"].as_str() == Some("reuse") {
        let cfg = Cfg::from_name(v["cfg"].as_str().unwrap()).expect("unknown configuration");
        let hist: Vec<HOp> = v["ops"].as_array().unwrap().iter().map(hop_from_json).collect();
        let seqs: Vec<Vec<u8>> = (0..REUSE_LENS.len()).map(reuse_seq).collect();
        let mats: Vec<Vec<Vec<f32>>> = REUSE_WIDTHS.iter().map(|&m| make_matrix("enc", m, 5, 0)).collect();
        rep.eval_distinct(true);
        if let Some((sig, msg)) = check_reuse(cfg, &hist, &seqs, &mats) {
            rep.violation(format!("C01 dna {} reuse {}", cfg.name(), sig), msg, || reuse_json(cfg, &hist));
        }
        return;
    }
    let case = Case::from_json(v);
    let cfgs_: Vec<Cfg> = match v["cfg"].as_str().and_then(Cfg::from_name) {
        // always run generic/U32 first so that a backend disagreement shows up again
        Some(c) if c != Cfg::GenU32 => vec![Cfg::GenU32, c],
        Some(c) => vec![c],
        None => cfgs::ALL_CFGS.to_vec(),
    };
    let o = if case.alpha == "dna" { check_case::<Dna>(&case, &cfgs_, false) } else { check_case::<Protein>(&case, &cfgs_, false) };
    for _ in 0..o.invocations {
        rep.eval_distinct(o.nontrivial);
    }
    for (sig, msg, cfg) in o.failures {
        rep.violation(format!("C01 {} {} {}", case.alpha, cfg.map(|c| c.name()).unwrap_or("-"), sig), msg, || case.json(cfg));
    }
}
