"""C17 space `load`: lightmotif.load(path | file-like object, format) on files written by our own writers
(oracle: what was written) and on the bundled files (differential: path vs. file object vs. short reads)."""
import glob
import io
import os
import pathlib
import shutil
import tempfile
import textwrap

import lightmotif
from vxpy import call, sanitize
import refmodel as rm
from c17_common import is_panic, is_exc, rows_of, show

SOURCES = ["path", "pathlib", "bytespath", "bytesio", "short1", "short7", "short4096"]


class ShortReader:
    """Binary file object whose read(n) returns at most k bytes."""

    def __init__(self, data, k):
        self.data, self.pos, self.k = data, 0, k

    def read(self, n=-1):
        if n is None or n < 0:
            n = len(self.data) - self.pos
        n = min(n, self.k)
        b = self.data[self.pos:self.pos + n]
        self.pos += len(b)
        return b


def open_source(kind, data, tmpdir, tag):
    if kind in ("path", "pathlib", "bytespath"):
        p = os.path.join(tmpdir, "f-%s" % tag)
        with open(p, "wb") as f:
            f.write(data)
        return {"path": p, "pathlib": pathlib.Path(p), "bytespath": os.fsencode(p)}[kind]
    if kind == "bytesio":
        return io.BytesIO(data)
    return ShortReader(data, int(kind[5:]))


def observe(m):
    return {"type": type(m).__name__, "name": m.name, "protein": m.protein,
            "counts": None if m.counts is None else rows_of(m.counts),
            "pwm": rows_of(m.pwm), "pssm": rows_of(m.pssm),
            "id": getattr(m, "id", None), "accession": getattr(m, "accession", None), "description": getattr(m, "description", None)}


def load_all(src, fmt, protein):
    return [observe(m) for m in lightmotif.load(src, fmt, protein=protein)]


# ----------------------------------------------------------------------------- generated files

def _cells(w, ncols, mode, seed):
    if mode == "wiring":
        return [[1 + j + ncols * i + seed for j in range(ncols)] for i in range(w)]
    if mode == "sparse":
        return [[(5 if (i + seed) % ncols == j else 0) for j in range(ncols)] for i in range(w)]
    return [[(99999 if j == 0 else 3 * i + j) for j in range(ncols)] for i in range(w)]


def record_sets(fmt, protein):
    """[(label, [Record])]"""
    if protein:
        orders = [rm.PROTEIN[:20], "".join(reversed(rm.PROTEIN[:20]))]
    else:
        orders = ["ACGT"] if fmt == "jaspar" else ["ACGT", "TGCA", "GATC"]
    nstyles = {"jaspar": 3, "jaspar16": 3, "transfac": 4, "uniprobe": 3}[fmt]
    out = []
    for order in orders:
        for style in range(nstyles):
            for mode in ("wiring", "sparse", "big"):
                def rec(i, w, seed):
                    r = rm.Record(order, _cells(w, len(order), mode, seed), id="MX%04d.%d" % (i, style), style=style)
                    if fmt in ("jaspar", "jaspar16"):
                        r.description = None if i % 2 else "name-%d" % i
                    if fmt == "transfac":
                        r.accession = "M%05d" % i if i % 2 == 0 else None
                        r.name = "NA-%d" % i if i % 3 != 1 else None
                        r.description = "some description %d" % i if i % 2 == 0 else None
                    return r
                out.append(("%s/style%d/%s/1x1" % (order[:4], style, mode), [rec(0, 1, 0)]))
                out.append(("%s/style%d/%s/1x7" % (order[:4], style, mode), [rec(1, 7, 2)]))
                out.append(("%s/style%d/%s/3" % (order[:4], style, mode), [rec(0, 2, 1), rec(1, 7, 3), rec(2, 25, 5)]))
    return out


def expected_motif(fmt, protein, rec):
    k = len(rm.letters(protein))
    counts = rec.counts(protein)
    bg = rm.uniform_background(protein)
    if fmt == "uniprobe":
        abc = rm.letters(protein)
        col = [abc.index(s) for s in rec.symbols]
        freqs = []
        for r in rec.cells:
            row = [0.0] * k
            for j in range(len(r)):
                row[col[j]] = rm.uniprobe_freq(r, j)
            freqs.append(row)
        exp = {"type": "UniprobeMotif", "name": rec.id, "counts": None, "id": None, "accession": None, "description": None}
    else:
        freqs = rm.freq_rows(counts, [0.0] * k)
        if fmt == "transfac":
            exp = {"type": "TransfacMotif", "name": rec.name, "counts": counts, "id": rec.id, "accession": rec.accession, "description": rec.description}
        else:
            exp = {"type": "JasparMotif", "name": rec.id, "counts": counts, "id": None, "accession": None, "description": rec.description}
    exp["protein"] = protein
    exp["pwm"] = rm.weight_rows(freqs, bg)
    exp["pssm"] = rm.logodds_rows(freqs, bg, 2.0)
    return exp


def compare_motif(got, exp, k):
    """First difference as text, or None."""
    for f in ("type", "name", "protein", "counts", "id", "accession", "description"):
        if got[f] != exp[f]:
            return "%s = %r, expected %r" % (f, got[f] if f != "counts" else (got[f] or [])[:2], exp[f] if f != "counts" else (exp[f] or [])[:2])
    for f, tol in (("pwm", lambda e: rm.weight_tol(k, e, extra=1)), ("pssm", lambda e: rm.logodds_tol(k, e, 2.0, extra=1))):
        if len(got[f]) != len(exp[f]):
            return "%s has %d rows, expected %d" % (f, len(got[f]), len(exp[f]))
        for i, (g, e) in enumerate(zip(got[f], exp[f])):
            if e is None:
                continue
            for j, (x, y) in enumerate(zip(g, e)):
                if not rm.close(x, y, tol(y)):
                    return "%s[%d][%d] = %r, expected %r" % (f, i, j, x, y)
    return None


def sources_for(ctx):
    return SOURCES if ctx.quick() else SOURCES + ["short2", "short3", "short13", "short100"]


def generated_cases(ctx):
    for fmt in ("jaspar", "jaspar16", "transfac", "uniprobe"):
        for protein in (False, True):
            if protein and fmt == "jaspar":
                continue
            for label, recs in record_sets(fmt, protein):
                for src in sources_for(ctx):
                    yield {"kind": "load", "mode": "generated", "format": fmt, "protein": protein, "label": label,
                           "records": [r.to_json() for r in recs], "source": src}


def check_generated(rep, case, tmpdir):
    fmt, protein = case["format"], case["protein"]
    recs = [rm.Record.from_json(d) for d in case["records"]]
    data = rm.write_file(fmt, recs)
    k = len(rm.letters(protein))
    src = open_source(case["source"], data, tmpdir, "gen")
    res = call(load_all, src, fmt, protein)
    if is_exc(res):
        cls = "PanicException" if is_panic(res) else res[1] + " on a well-formed file"
        rep.violation("C17 load format=%s %s" % (fmt, cls), "load(%s, %r, protein=%r) of %d written records %s; file starts %r" % (
            case["source"], fmt, protein, len(recs), show(res), data[:80]), case)
        return
    got = res[1]
    if len(got) != len(recs):
        rep.violation("C17 load format=%s wrong record count" % fmt, "%d motifs loaded through %s, %d written" % (len(got), case["source"], len(recs)), case)
        return
    for i, (g, r) in enumerate(zip(got, recs)):
        d = compare_motif(g, expected_motif(fmt, protein, r), k)
        if d:
            rep.violation("C17 load format=%s wrong motif" % fmt, "record %d through %s: %s" % (i, case["source"], d), case)
            return


# ----------------------------------------------------------------------------- bundled files

def bundled_files(ctx, everything=False):
    """[(label, format, bytes)]"""
    out = []
    base = "/repo/lightmotif-io/tests"
    ext = {".pfm": "jaspar16", ".transfac": "transfac", ".uniprobe": "uniprobe"}
    for p in sorted(glob.glob(base + "/*")):
        e = os.path.splitext(p)[1]
        if e in ext:
            out.append((os.path.basename(p), ext[e], open(p, "rb").read(), None, None))
    try:
        from lightmotif.tests import test_load
        for cls in (test_load.TestJASPAR, test_load.TestJASPAR16, test_load.TestTRANSFAC):
            out.append(("test_load." + cls.__name__, cls.format, textwrap.dedent(cls.text).encode(), cls.length, cls.first))
    except Exception as e:      # noqa: BLE001 - recorded, not fatal
        out.append(("test_load import failed: %r" % (e,), None, b"", None, None))
    if everything or not ctx.quick():
        out.append(("benches/JASPAR2024.pwm", "jaspar16", open("/repo/lightmotif-io/benches/JASPAR2024.pwm", "rb").read(), 2346, "MA0004.1"))
        out.append(("benches/prodoric.transfac", "transfac", open("/repo/lightmotif-io/benches/prodoric.transfac", "rb").read(), 353, None))
    return out


def check_bundled(rep, label, fmt, data, length, first, tmpdir):
    case = {"kind": "load", "mode": "bundled", "label": label, "format": fmt}
    obs = {}
    for src in SOURCES:
        res = call(load_all, open_source(src, data, tmpdir, "bundled"), fmt, False)
        if is_panic(res):
            rep.violation("C17 load format=%s PanicException" % fmt, "bundled %s through %s %s" % (label, src, show(res)), dict(case, source=src))
            return
        obs[src] = sanitize(res[1]) if res[0] == "ok" else ("exc", res[1])
    ref = obs["path"]
    for src in SOURCES[1:]:
        if obs[src] != ref:
            n1 = len(ref) if isinstance(ref, list) else ref
            n2 = len(obs[src]) if isinstance(obs[src], list) else obs[src]
            rep.violation("C17 load format=%s path and file object disagree" % fmt,
                          "bundled %s: path gives %r motifs, %s gives %r (or different contents)" % (label, n1, src, n2), dict(case, source=src))
            return
    if isinstance(ref, tuple):
        rep.violation("C17 load format=%s bundled file rejected" % fmt, "bundled %s: %r" % (label, ref), case)
        return
    if length is not None and len(ref) != length:
        rep.violation("C17 load format=%s wrong record count" % fmt, "bundled %s: %d motifs, expected %d" % (label, len(ref), length), case)
    if first is not None and ref and ref[0]["name"] != first:
        rep.violation("C17 load format=%s wrong motif" % fmt, "bundled %s: first name %r, expected %r" % (label, ref[0]["name"], first), case)


# ----------------------------------------------------------------------------- driver

def run(ctx, rep):
    rep.space("load", "lightmotif.load(source, format, protein=): files written by the checker's own JASPAR / JASPAR16 / TRANSFAC / UniPROBE writers "
              "(record sets of 1 and 3 motifs, widths 1/2/7/25, 3-4 decoration styles, symbol columns in 1-3 orders, all-distinct / sparse / 99999 cells, "
              "optional metadata present/absent, DNA and protein) x 7 sources (str path, pathlib.Path, bytes path, BytesIO, objects returning <= 1 / 7 / 4096 "
              "(thorough: also 2 / 3 / 13 / 100) bytes per read): number of motifs, class, name / id / accession / description, counts, weights and log2 scores against what was written; "
              "bundled files of lightmotif-io/tests and the texts of lightmotif-py test_load (thorough: + JASPAR2024.pwm, prodoric.transfac): the 7 sources must "
              "agree exactly; one evaluation = one (file, source) load; non-trivial = all")
    tmpdir = tempfile.mkdtemp(prefix="vx-c17-")
    try:
        i = -1
        for i, case in enumerate(generated_cases(ctx)):
            if not ctx.mine(i):
                continue
            if ctx.out_of_time():
                rep.cap("load: out of time at case %d" % i)
                break
            check_generated(rep, case, tmpdir)
            rep.eval()
            if i % 389 == 11:
                rep.sample(dict(case, records=case["records"][:1]), per_space=1)
        for j, (label, fmt, data, length, first) in enumerate(bundled_files(ctx)):
            if not ctx.mine(i + 1 + j):
                continue
            if fmt is None:
                rep.machinery(label)
                continue
            check_bundled(rep, label, fmt, data, length, first, tmpdir)
            rep.eval(True, len(SOURCES))
    finally:
        shutil.rmtree(tmpdir, ignore_errors=True)


def replay(ctx, rep, case):
    rep.space("load", "replay")
    tmpdir = tempfile.mkdtemp(prefix="vx-c17-")
    try:
        if case.get("mode") == "generated":
            check_generated(rep, case, tmpdir)
        else:
            for label, fmt, data, length, first in bundled_files(ctx, True):
                if label == case["label"]:
                    check_bundled(rep, label, fmt, data, length, first, tmpdir)
        rep.eval()
    finally:
        shutil.rmtree(tmpdir, ignore_errors=True)
