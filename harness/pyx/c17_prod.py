"""C17 product enumerations of the stateless entry points (create, CountMatrix, normalize/log_odds,
ScoringMatrix, pvalue/score, reverse_complement/max_score)."""
import itertools
import math

import lightmotif
import vxref
from vxpy import call
import refmodel as rm
from c17_common import (ARMS, NEG_INF, README, is_panic, is_exc, rows_of, show, unsan, force, sequence_menu)


def _viol(rep, sig, msg, case):
    rep.violation(sig, msg, case)


def _cmp_rows(got, exp, tol_fn):
    """First differing cell of two row lists: (i, j, got, exp) or None; rows that are None in exp are skipped."""
    if len(got) != len(exp):
        return ("rows", len(got), len(exp), None)
    for i, (g, e) in enumerate(zip(got, exp)):
        if e is None:
            continue
        if len(g) != len(e):
            return (i, "columns", len(g), len(e))
        for j, (x, y) in enumerate(zip(g, e)):
            if not rm.close(x, y, tol_fn(y)):
                return (i, j, x, y)
    return None


def _container(seqs, kind):
    if kind == "tuple":
        return tuple(seqs)
    if kind == "gen":
        return (s for s in seqs)
    if kind == "str":
        return "".join(seqs)
    return list(seqs)


# ============================================================================= create

def create_cases(ctx):
    # A. content-exhaustive small scopes (DNA incl. the wildcard)
    for w in (1, 2, 3):
        for word in itertools.product(rm.DNA, repeat=w):
            yield {"kind": "create", "sequences": ["".join(word)], "protein": False, "name": None, "container": "list"}
    for w in (1, 2) if ctx.quick() else (1, 2, 3):
        words = ["".join(x) for x in itertools.product(rm.DNA, repeat=w)]
        for a in words:
            for b in words:
                yield {"kind": "create", "sequences": [a, b], "protein": False, "name": None, "container": "list"}
    if not ctx.quick():
        for a, b, c in itertools.product(rm.DNA, repeat=3):
            yield {"kind": "create", "sequences": [a, b, c], "protein": False, "name": "n3", "container": "tuple"}
    # B. pattern contents: n x width x wildcard x alphabet x name
    for protein in (False, True):
        k = len(rm.letters(protein))
        for n in (1, 2, 3, 5, 16):
            for w in (1, 2, 7, 15, 40):
                for wild in (False, True):
                    for name in (None, "x"):
                        kk = k if wild else k - 1
                        seqs = [rm.ranks_to_text(rm.lcg_ranks(w, kk, 13 * n + w + j), protein) for j in range(n)]
                        yield {"kind": "create", "sequences": seqs, "protein": protein, "name": name, "container": "list"}
    # C. iterable kinds and degenerate shapes
    for cont in ("tuple", "gen", "str"):
        yield {"kind": "create", "sequences": ["A", "C", "G", "T", "A"], "protein": False, "name": "", "container": cont}
        yield {"kind": "create", "sequences": ["M", "K", "V", "X"], "protein": True, "name": None, "container": cont}
    yield {"kind": "create", "sequences": [], "protein": False, "name": None, "container": "list"}
    yield {"kind": "create", "sequences": ["", ""], "protein": False, "name": None, "container": "list"}
    yield {"kind": "create", "sequences": [], "protein": True, "name": "e", "container": "tuple"}


def check_create(rep, case):
    seqs, protein = case["sequences"], case["protein"]
    k = len(rm.letters(protein))
    res = call(lightmotif.create, _container(seqs, case["container"]), protein=protein, name=case["name"])
    if is_exc(res):
        _viol(rep, "C17 create %s on valid input" % res[1], "create(%r, protein=%r) %s" % (seqs[:3], protein, show(res)), case)
        return
    m = res[1]
    counts = rm.counts_from_sequences(seqs, protein)
    obs = call(lambda: (rows_of(m.counts), rows_of(m.pwm), rows_of(m.pssm), m.name, m.protein, m.counts.protein, m.pwm.protein, m.pssm.protein))
    if is_exc(obs):
        _viol(rep, "C17 create %s reading the motif" % obs[1], "reading counts/pwm/pssm %s" % show(obs), case)
        return
    gc, gw, gs, name, p0, p1, p2, p3 = obs[1]
    if gc != counts:
        _viol(rep, "C17 create wrong counts", "counts %r, expected %r" % (gc[:3], counts[:3]), case)
    freqs = rm.freq_rows(counts, [0.0] * k)
    bg = rm.uniform_background(protein)
    d = _cmp_rows(gw, rm.weight_rows(freqs, bg), lambda e: rm.weight_tol(k, e))
    if d:
        _viol(rep, "C17 create wrong weight", "pwm[%s][%s] = %r, expected %r" % d, case)
    d = _cmp_rows(gs, rm.logodds_rows(freqs, bg, 2.0), lambda e: rm.logodds_tol(k, e, 2.0))
    if d:
        _viol(rep, "C17 create wrong score", "pssm[%s][%s] = %r, expected %r" % d, case)
    if name != case["name"]:
        _viol(rep, "C17 create wrong name", "name %r, expected %r" % (name, case["name"]), case)
    if (p0, p1, p2, p3) != (protein,) * 4:
        _viol(rep, "C17 create wrong alphabet flag", "protein flags %r, expected %r" % ((p0, p1, p2, p3), protein), case)


def run_create(ctx, rep):
    rep.space("create", "create(sequences, protein=, name=): ALL DNA sequence sets {1 sequence of width 1..3; 2 sequences of width 1..2 "
              "(thorough ..3); thorough: 3 of width 1} over A,C,G,T,N + pattern sets n in {1,2,3,5,16} x width in {1,2,7,15,40} x "
              "with/without wildcard x DNA/protein x name in {None,'x'} + list/tuple/generator/str iterables + empty shapes; counts, "
              "weights (f/b, uniform b), log2 scores, name and alphabet flags against the C09 reference; non-trivial = width >= 1")
    for i, case in enumerate(create_cases(ctx)):
        if not ctx.mine(i):
            continue
        if ctx.out_of_time():
            rep.cap("create: out of time at case %d" % i)
            break
        check_create(rep, case)
        rep.eval(bool(case["sequences"]) and len(case["sequences"][0]) > 0)
        if i % 997 == 5:
            rep.sample(case, per_space=1)


def replay_create(ctx, rep, case):
    rep.space("create", "replay")
    check_create(rep, case)
    rep.eval()


# ============================================================================= CountMatrix

def _wiring(symbols, w, mode):
    vals = {}
    for j, s in enumerate(symbols):
        if mode == "zeros":
            vals[s] = [0] * w
        elif mode == "big":
            vals[s] = [2 ** 32 - 1 - i - j for i in range(w)]
        else:
            vals[s] = [1 + j + 31 * i for i in range(w)]
    return vals


def countmatrix_cases(ctx):
    dna_keys = [("ACGT", "ok"), ("ACGTN", "ok"), ("A", "ok"), ("TG", "ok"), ("N", "ok"), ("TGCA", "ok"),
                ("", "raise"), ("ACGTX", "unknown"), ("ACGU", "unknown"), ("a", "unknown"), ("ACGT*", "unknown"),
                # non-ASCII characters whose low byte is the ASCII code of a symbol (U+0141 -> 'A', U+0143 -> 'C', U+0154 -> 'T')
                ("CGT\u0141", "unknown"), ("AGT\u0143", "unknown"), ("ACG\u0154", "unknown"), ("ACGT\u00e9", "unknown")]
    prot_keys = [(rm.PROTEIN, "ok"), (rm.PROTEIN[:20], "ok"), ("WY", "ok"), ("X", "ok"), ("ACGT", "ok"),
                 ("ACB", "unknown"), ("Z", "unknown"), ("CD\u0141", "unknown"), ("ACD\u0157", "unknown")]
    for protein, keys in ((False, dna_keys), (True, prot_keys)):
        for ks, expect in keys:
            for w in (0, 1, 2, 7):
                for mode in ("wiring", "zeros", "big"):
                    for cont in ("list", "tuple"):
                        yield {"kind": "countmatrix", "values": _wiring(ks, w, mode), "protein": protein, "container": cont, "expect": expect}
    # unequal column lengths: every pair (short symbol, lengths)
    for short in "ACGT":
        for w, w2 in ((2, 1), (2, 3), (1, 0), (0, 1), (7, 6)):
            v = _wiring("ACGT", w, "wiring")
            v[short] = v[short][:w2] if w2 < w else v[short] + [9] * (w2 - w)
            yield {"kind": "countmatrix", "values": v, "protein": False, "container": "list", "expect": "unequal"}
    v = _wiring(rm.PROTEIN, 3, "wiring")
    v["W"] = v["W"][:2]
    yield {"kind": "countmatrix", "values": v, "protein": True, "container": "list", "expect": "unequal"}


def check_countmatrix(rep, case):
    protein = case["protein"]
    abc = rm.letters(protein)
    vals = {s: (tuple(v) if case["container"] == "tuple" else list(v)) for s, v in case["values"].items()}
    res = call(lightmotif.CountMatrix, vals, protein=protein)
    expect = case["expect"]
    if is_panic(res):
        _viol(rep, "C17 CountMatrix PanicException", "CountMatrix(%r) %s" % (sorted(vals), show(res)), case)
        return
    if expect in ("raise", "unknown", "unequal"):
        if res[0] == "ok":
            what = {"raise": "empty dictionary accepted", "unknown": "unknown symbol accepted", "unequal": "unequal lengths accepted"}[expect]
            got = call(rows_of, res[1])
            _viol(rep, "C17 CountMatrix %s" % what, "CountMatrix(keys %r, protein=%r) returned a matrix (%s) instead of raising" % (
                "".join(vals), protein, show(got)[:200]), case)
        return
    if is_exc(res):
        _viol(rep, "C17 CountMatrix %s on valid input" % res[1], "CountMatrix(keys %r) %s" % ("".join(vals), show(res)), case)
        return
    cm = res[1]
    w = len(next(iter(vals.values())))
    exp = [[vals[s][i] if s in vals else 0 for s in abc] for i in range(w)]
    obs = call(lambda: (rows_of(cm), len(cm), cm.protein))
    if is_exc(obs):
        _viol(rep, "C17 CountMatrix %s reading rows" % obs[1], show(obs), case)
        return
    if obs[1][0] != exp or obs[1][1] != w or obs[1][2] != protein:
        _viol(rep, "C17 CountMatrix wrong cells", "rows %r len %r protein %r, expected %r" % (obs[1][0][:2], obs[1][1], obs[1][2], exp[:2]), case)
    same = call(lambda: cm == lightmotif.CountMatrix(vals, protein=protein))
    if same != ("ok", True):
        _viol(rep, "C17 CountMatrix equality", "m == CountMatrix(same values) gave %s" % show(same), case)


def run_countmatrix(ctx, rep):
    rep.space("countmatrix", "CountMatrix({symbol: column}, protein=): key sets (full, with wildcard, partial, permuted, empty, with a letter outside "
              "the alphabet) x widths {0,1,2,7} x cell patterns (all-distinct wiring codes, zeros, near 2^32) x list/tuple columns, DNA and protein; "
              "every (symbol, lengths) unequal-length variant; cells / len / alphabet flag / equality against the dictionary; unknown symbols, "
              "unequal lengths and the empty dictionary must raise; non-trivial = width >= 1")
    for i, case in enumerate(countmatrix_cases(ctx)):
        if not ctx.mine(i):
            continue
        check_countmatrix(rep, case)
        rep.eval(any(len(v) for v in case["values"].values()))
        if i % 101 == 3:
            rep.sample(case, per_space=1)


def replay_countmatrix(ctx, rep, case):
    rep.space("countmatrix", "replay")
    check_countmatrix(rep, case)
    rep.eval()


# ============================================================================= normalize / log_odds

DNA_ROWS = [[4, 0, 0, 0, 0], [1, 1, 1, 1, 0], [7, 0, 4, 3, 0], [3, 5, 2, 4, 1], [0, 0, 0, 0, 6], [1000000, 1, 0, 3, 0], [0, 0, 0, 0, 0]]


def _dict_of_rows(rows, protein):
    abc = rm.letters(protein)
    return {s: [r[j] for r in rows] for j, s in enumerate(abc)}


def nl_matrices(thorough=False):
    out = []
    for r in DNA_ROWS:
        out.append((False, [r]))
    if thorough:
        for r1 in DNA_ROWS:
            for r2 in DNA_ROWS:
                out.append((False, [r1, r2]))
    out += [(False, [DNA_ROWS[2], DNA_ROWS[3]]), (False, [DNA_ROWS[0], DNA_ROWS[4]]), (False, [DNA_ROWS[5], DNA_ROWS[1]]), (False, list(DNA_ROWS))]
    out.append((True, [rm.lcg_ranks(21, 9, 5), rm.lcg_ranks(21, 4, 6)]))
    out.append((True, [[0] * 9 + [3] + [0] * 11]))
    return out


def nl_pseudocounts(protein):
    if protein:
        return [None, 0.0, 0.1, 1.0, {"A": 0.5}, {"W": 1.0, "X": 1.0}]
    return [None, 0.0, 0.1, 1.0, {"A": 0.5}, {"A": 0.1, "C": 0.2, "G": 0.3, "T": 0.4}, {"A": 1.0, "N": 2.0}, {}]


def nl_backgrounds(protein):
    if protein:
        return [None, {s: 0.0625 for s in rm.PROTEIN[:16]}, {"A": 0.5, "C": 0.25, "D": 0.125, "E": 0.125}]
    return [None,
            {"A": 0.25, "C": 0.25, "G": 0.25, "T": 0.25},
            {"A": 0.125, "C": 0.375, "G": 0.375, "T": 0.125},
            {"A": 0.5, "C": 0.25, "G": 0.125, "T": 0.125},
            {"A": 0.0, "C": 0.5, "G": 0.25, "T": 0.25},
            {"A": 0.1, "C": 0.4, "G": 0.4, "T": 0.1},
            {"A": 0.3, "C": 0.2, "G": 0.2, "T": 0.3},
            {"A": 0.25, "C": 0.25, "G": 0.125, "T": 0.125, "N": 0.25}]


BASES = [2.0, 10.0, math.e]


def normalize_logodds_cases(ctx):
    for protein, rows in nl_matrices(not ctx.quick()):
        for p in nl_pseudocounts(protein):
            for bg in nl_backgrounds(protein):
                for base in BASES:
                    yield {"kind": "normalize_logodds", "counts": _dict_of_rows(rows, protein), "protein": protein,
                           "pseudocount": p, "background": bg, "base": base}


def check_normalize_logodds(rep, case):
    """Returns True when the point was decided (non-trivial)."""
    protein = case["protein"]
    abc = rm.letters(protein)
    k = len(abc)
    vals = case["counts"]
    w = len(vals[abc[0]])
    counts = [[vals[s][i] for s in abc] for i in range(w)]
    p, bg, base = case["pseudocount"], case["background"], case["base"]
    cm = lightmotif.CountMatrix({s: list(v) for s, v in vals.items()}, protein=protein)
    res = call(cm.normalize, p) if p is not None else call(cm.normalize)
    if is_exc(res):
        _viol(rep, "C17 normalize %s on valid input" % res[1], "normalize(%r) %s" % (p, show(res)), case)
        return True
    wm = res[1]
    freqs = rm.freq_rows(counts, rm.pseudo_vector(p, protein))
    ubg = rm.uniform_background(protein)
    gw = rows_of(wm)
    d = _cmp_rows(gw, rm.weight_rows(freqs, ubg), lambda e: rm.weight_tol(k, e))
    if d:
        _viol(rep, "C17 normalize wrong weight", "normalize(%r)[%s][%s] = %r, expected (count+pseudocount)/total/background = %r" % ((p,) + d), case)
    bgv = rm.background_vector(bg, protein)
    base32 = rm.f32(base)
    args = (bg, base) if bg is not None else (None, base)
    res = call(wm.log_odds, *args)
    if is_panic(res):
        _viol(rep, "C17 log_odds PanicException", "log_odds(%r, %r) %s" % (bg, base, show(res)), case)
        return True
    if is_exc(res):
        if bg is not None and rm.background_f32_sum(bgv) != 1.0:
            rep.note("log_odds rejects backgrounds whose f32 sum is not exactly 1 (e.g. %r): acceptance is not demanded" % (bg,))
            return False
        _viol(rep, "C17 log_odds %s on valid input" % res[1], "log_odds(%r, %r) %s" % (bg, base, show(res)), case)
        return True
    gs = rows_of(res[1])
    exp = rm.logodds_rows(freqs, bgv, base32)
    # the wildcard frequency was discarded by normalize (uniform background gives it weight 0): a non-zero
    # wildcard background cannot be honoured by this API, that column is not compared
    skip_wild = bgv[-1] != 0.0

    def strip(rows):
        return [None if r is None else (r[:-1] if skip_wild else r) for r in rows]
    tol = lambda e: rm.logodds_tol(k, e, base32, extra=2)
    d = _cmp_rows(strip(gs), strip(exp), tol)
    if d:
        uni = rm.logodds_rows(freqs, ubg, base32)
        if bg is not None and _cmp_rows(strip(gs), strip(uni), tol) is None:
            _viol(rep, "C17 log_odds background ignored",
                  "log_odds(background=%r, base=%r)[%s][%s] = %r which is the UNIFORM-background score; expected log(f/b) = %r" % ((bg, base) + d), case)
        else:
            _viol(rep, "C17 log_odds wrong score", "log_odds(background=%r, base=%r)[%s][%s] = %r, expected %r" % ((bg, base) + d), case)
    # the matrix returned by log_odds(background) carries THAT background: its p-values are computed under it
    # (oracle: the core library on the returned cells with the requested background)
    if bg is not None and not d and all(r is not None for r in gs) and _finite_nonwild(gs):
        sm = res[1]
        mn = sum(min(r[:-1]) for r in gs)
        mx = sum(max(r[:-1]) for r in gs)
        for q in (0.5, 0.9):
            sc = rm.f32(mn + (mx - mn) * q)
            got = call(sm.pvalue, sc)
            ref = call(vxref.core_meme_pvalue, gs, bgv, protein, sc)
            if is_exc(ref):
                rep.machinery("core_meme_pvalue failed: %s" % show(ref))
                continue
            if got != ("ok", ref[1]):
                uni = call(vxref.core_meme_pvalue, gs, ubg, protein, sc)
                if uni[0] == "ok" and got == ("ok", uni[1]) and uni[1] != ref[1]:
                    _viol(rep, "C17 log_odds result carries the wrong background",
                          "log_odds(background=%r).pvalue(%r) = %r is the uniform-background value; under the requested background the core gives %r" % (bg, sc, uni[1], ref[1]), case)
                else:
                    _viol(rep, "C17 log_odds result pvalue differs from core", "log_odds(background=%r).pvalue(%r) %s, core library gives %r" % (bg, sc, show(got), ref[1]), case)
    return True


def run_normalize_logodds(ctx, rep):
    rep.space("normalize_logodds", "CountMatrix(...).normalize(pseudocount).log_odds(background, base): 11 DNA (thorough: + all 49 two-row matrices of the row menu) + 2 protein count matrices (skewed, equal, "
              "zero cells, wildcard counts, wildcard-only row, 1e6-scale, all-zero row) x pseudocount in {None, 0, 0.1, 1, dict menus} x background in "
              "{None, uniform dict, dyadic / decimal non-uniform, zero entry, non-zero wildcard} x base in {2, 10, e}: weights = (count+pseudo)/total/uniform b "
              "and scores = log_base(f/b), -inf where b == 0, in Python floats with a derived few-ulp f32 tolerance; rows with total 0 are undefined and skipped; "
              "non-trivial = background accepted")
    for i, case in enumerate(normalize_logodds_cases(ctx)):
        if not ctx.mine(i):
            continue
        rep.eval(check_normalize_logodds(rep, case))
        if i % 211 == 7:
            rep.sample(case, per_space=1)


def replay_normalize_logodds(ctx, rep, case):
    rep.space("normalize_logodds", "replay")
    case = dict(case)
    rep.eval(check_normalize_logodds(rep, case))



# ============================================================================= ScoringMatrix(values, background)

def _float_values(symbols, w, mode, wild):
    vals = {}
    for j, s in enumerate(symbols):
        if mode == "ints":
            vals[s] = [int((3 * j + 5 * i) % 7 - 3) for i in range(w)]
        elif mode == "neginf":
            vals[s] = [NEG_INF if (i + j) % 3 == 0 and j > 0 else j + 0.25 * i - 2.0 for i in range(w)]
        else:
            vals[s] = [j * 1.5 + 0.25 * i - 2.0 + (0.1 if (i + j) % 2 else 0.0) for i in range(w)]
    if wild:
        vals[wild] = [NEG_INF] * w
    return vals


def scoringmatrix_cases(ctx):
    dna_bgs = [None, {"A": 0.125, "C": 0.375, "G": 0.375, "T": 0.125}, {"A": 0.0, "C": 0.5, "G": 0.25, "T": 0.25}]
    prot_bgs = [None, {"A": 0.5, "C": 0.25, "D": 0.125, "E": 0.125}]
    dna_keys = [("ACGT", None, "ok"), ("ACGT", "N", "ok"), ("TGCA", None, "ok"), ("AG", None, "ok"),
                ("ACGTX", None, "unknown"), ("ACGU", None, "unknown"), ("", None, "raise"),
                ("CGT\u0141", None, "unknown"), ("ACG\u0154", None, "unknown")]
    prot_keys = [(rm.PROTEIN[:20], None, "ok"), (rm.PROTEIN[:20], "X", "ok"), ("WY", None, "ok"), ("ACB", None, "unknown"), ("CD\u0141", None, "unknown")]
    for protein, keys, bgs in ((False, dna_keys, dna_bgs), (True, prot_keys, prot_bgs)):
        for ks, wild, expect in keys:
            for w in (1, 2, 7):
                for mode in ("floats", "neginf", "ints"):
                    for bg in bgs:
                        yield {"kind": "scoringmatrix", "values": _float_values(ks, w, mode, wild), "background": bg,
                               "protein": protein, "expect": expect}
    for short in "ACGT":
        v = _float_values("ACGT", 3, "floats", None)
        v[short] = v[short][:2]
        yield {"kind": "scoringmatrix", "values": v, "background": None, "protein": False, "expect": "unequal"}


def _finite_nonwild(rows):
    return all(x == x and x not in (NEG_INF, rm.INF) for r in rows for x in r[:-1])


def check_scoringmatrix(rep, case):
    protein = case["protein"]
    abc = rm.letters(protein)
    vals = {s: list(v) for s, v in case["values"].items()}
    bg = case["background"]
    res = call(lightmotif.ScoringMatrix, vals, bg, protein=protein) if bg is not None else call(lightmotif.ScoringMatrix, vals, protein=protein)
    expect = case["expect"]
    if is_panic(res):
        _viol(rep, "C17 ScoringMatrix PanicException", "ScoringMatrix(keys %r) %s" % ("".join(vals), show(res)), case)
        return
    if expect != "ok":
        if res[0] == "ok":
            what = {"raise": "empty dictionary accepted", "unknown": "unknown symbol accepted", "unequal": "unequal lengths accepted"}[expect]
            _viol(rep, "C17 ScoringMatrix %s" % what, "ScoringMatrix(keys %r, protein=%r) returned a matrix instead of raising" % ("".join(vals), protein), case)
        return
    if is_exc(res):
        _viol(rep, "C17 ScoringMatrix %s on valid input" % res[1], "ScoringMatrix(keys %r, background=%r) %s" % ("".join(vals), bg, show(res)), case)
        return
    sm = res[1]
    w = len(next(iter(vals.values())))
    exp = [[rm.f32(float(vals[s][i])) if s in vals else 0.0 for s in abc] for i in range(w)]
    obs = call(lambda: (rows_of(sm), len(sm), sm.protein))
    if is_exc(obs):
        _viol(rep, "C17 ScoringMatrix %s reading rows" % obs[1], show(obs), case)
        return
    rows = obs[1][0]
    if rows != exp or obs[1][1] != w or obs[1][2] != protein:
        _viol(rep, "C17 ScoringMatrix wrong cells", "rows %r len %r protein %r, expected %r" % (rows[:2], obs[1][1], obs[1][2], exp[:2]), case)
        return
    # the buffer view (what numpy.asarray reads) holds the same cells, in either orientation
    if w > 0:
        mv = call(lambda: memoryview(sm).tolist())
        if is_panic(mv):
            _viol(rep, "C17 ScoringMatrix memoryview PanicException", show(mv), case)
        elif mv[0] == "ok":
            def _same(a, b):
                return len(a) == len(b) and all(len(x) == len(y) and all((p == q) or (p != p and q != q) for p, q in zip(x, y)) for x, y in zip(a, b))
            transposed = [list(col) for col in zip(*exp)]
            if not (_same(mv[1], exp) or _same(mv[1], transposed)):
                _viol(rep, "C17 ScoringMatrix memoryview differs from the rows", "memoryview(m).tolist() = %r but the rows are %r" % (mv[1][:3], exp[:3]), case)
    # max_score
    ms = call(sm.max_score)
    e, ab = rm.max_score(exp)
    if is_exc(ms) or not rm.score_ok(ms[1], e, ab, w, rm.matrix_is_integer(exp)):
        _viol(rep, "C17 max_score wrong", "max_score() %s, expected sum of row maxima over non-wildcard columns = %r" % (show(ms), e), case)
    # scores of a sequence, every arm
    text = rm.ranks_to_text(rm.lcg_ranks(45, len(abc), 3), protein)
    ranks = rm.encode(text, protein)
    model = rm.ref_scores(exp, ranks)
    integer = rm.matrix_is_integer(exp)
    for arm in ARMS:
        force(arm)
        try:
            sc = call(lambda: list(sm.calculate(lightmotif.stripe(text, protein=protein))))
        finally:
            force(None)
        if is_exc(sc):
            _viol(rep, "C17 calculate arm=%s %s" % (arm, sc[1]), "calculate on %r %s" % (text, show(sc)), dict(case, arm=arm))
            continue
        got = sc[1]
        if len(got) != len(model):
            _viol(rep, "C17 calculate arm=%s wrong length" % arm, "%d scores, expected %d" % (len(got), len(model)), dict(case, arm=arm))
            continue
        for i, ((ex, a), g) in enumerate(zip(model, got)):
            if not rm.score_ok(g, ex, a, w, integer):
                _viol(rep, "C17 calculate arm=%s wrong score" % arm, "position %d of %r: got %r, reference %r" % (i, text, g, ex), dict(case, arm=arm))
                break
    # the background given to the constructor is the one p-values are computed under (oracle: core library)
    if _finite_nonwild(exp):
        bgv = rm.background_vector(bg, protein)
        for q in (0.5, 0.9):
            mn, _ = rm.min_score(exp)
            s = rm.f32(mn + (e - mn) * q)
            got = call(sm.pvalue, s)
            ref = call(vxref.core_meme_pvalue, exp, bgv, protein, s)
            if is_exc(ref):
                rep.machinery("core_meme_pvalue failed: %s" % show(ref))
                continue
            if got != ("ok", ref[1]):
                uni = call(vxref.core_meme_pvalue, exp, rm.uniform_background(protein), protein, s)
                if bg is not None and uni[0] == "ok" and got == ("ok", uni[1]) and uni[1] != ref[1]:
                    _viol(rep, "C17 ScoringMatrix background ignored", "pvalue(%r) = %r is the uniform-background value; under %r the core gives %r" % (s, uni[1], bg, ref[1]), case)
                else:
                    _viol(rep, "C17 pvalue differs from core", "pvalue(%r) %s, core library gives %r" % (s, show(got), ref[1]), case)
    same = call(lambda: sm == (lightmotif.ScoringMatrix(vals, bg, protein=protein) if bg is not None else lightmotif.ScoringMatrix(vals, protein=protein)))
    if same != ("ok", True):
        _viol(rep, "C17 ScoringMatrix equality", "m == ScoringMatrix(same arguments) gave %s" % show(same), case)


def run_scoringmatrix(ctx, rep):
    rep.space("scoringmatrix", "ScoringMatrix({symbol: column}, background, protein=): key sets (full, explicit wildcard, permuted, partial, unknown letter, empty) x "
              "widths {1,2,7} x cell patterns (distinct floats, -inf cells, Python ints) x background menus, DNA and protein, unequal lengths; cells (missing columns 0), "
              "len, alphabet flag, max_score, calculate() of a 45-symbol sequence under each forced arm against the reference, meme p-values against the core library "
              "under the GIVEN background, equality; non-trivial = constructor expected to succeed")
    for i, case in enumerate(scoringmatrix_cases(ctx)):
        if not ctx.mine(i):
            continue
        check_scoringmatrix(rep, case)
        rep.eval(case["expect"] == "ok")
        if i % 53 == 2:
            rep.sample(case, per_space=1)


def _unsan_values(case):
    case = dict(case)
    case["values"] = {s: [unsan(x) for x in v] for s, v in case["values"].items()}
    return case


def replay_scoringmatrix(ctx, rep, case):
    rep.space("scoringmatrix", "replay")
    check_scoringmatrix(rep, _unsan_values(case))
    rep.eval()


# ============================================================================= pvalue / score

def pvalue_matrices():
    """[(label, protein, source)] source = {"values":..., "background":...} or {"create": seqs, "pseudocount": p}."""
    out = []
    for w, seed in ((3, 1), (7, 2), (15, 3)):
        seqs = [rm.ranks_to_text(rm.lcg_ranks(w, 4, 50 * seed + j), False) for j in range(5)]
        out.append(("pipeline-dna-w%d" % w, False, {"create": seqs, "pseudocount": 0.1}))
    out.append(("pipeline-readme", False, {"create": ["GTTGACCTTATCAAC", "GTTGATCCAGTCAAC"], "pseudocount": 0.1}))
    out.append(("pipeline-readme-background", False, {"create": ["GTTGACCTTATCAAC", "GTTGATCCAGTCAAC"], "pseudocount": 0.1,
                                                      "background": {"A": 0.125, "C": 0.375, "G": 0.375, "T": 0.125}}))
    seqs = [rm.ranks_to_text(rm.lcg_ranks(3, 20, 90 + j), True) for j in range(6)]
    out.append(("pipeline-protein-w3", True, {"create": seqs, "pseudocount": 0.25}))
    for w in (1, 2, 3, 7):
        for bg in (None, {"A": 0.125, "C": 0.375, "G": 0.375, "T": 0.125}, {"A": 0.0, "C": 0.5, "G": 0.25, "T": 0.25}):
            out.append(("values-dna-w%d" % w, False, {"values": _float_values("ACGT", w, "ints" if w % 2 else "floats", "N"), "background": bg}))
    out.append(("values-protein-w2", True, {"values": _float_values(rm.PROTEIN[:20], 2, "floats", "X"), "background": {"A": 0.5, "C": 0.25, "D": 0.125, "E": 0.125}}))
    return out


def pvalue_cases(ctx):
    for label, protein, src in pvalue_matrices():
        for method in ("meme", "tfmpvalue"):
            for order in ("fwd", "rev", "fresh"):
                c = {"kind": "pvalue", "label": label, "protein": protein, "method": method, "order": order}
                c.update(src)
                yield c


def _build_pvalue_matrix(case):
    protein = case["protein"]
    if "values" in case:
        vals = {s: list(v) for s, v in case["values"].items()}
        bg = case.get("background")
        sm = lightmotif.ScoringMatrix(vals, bg, protein=protein) if bg is not None else lightmotif.ScoringMatrix(vals, protein=protein)
        return sm, rm.background_vector(bg, protein)
    m = lightmotif.create(list(case["create"]), protein=protein)
    if case.get("background") is not None:
        return m.counts.normalize(case["pseudocount"]).log_odds(case["background"]), rm.background_vector(case["background"], protein)
    return m.counts.normalize(case["pseudocount"]).log_odds(), rm.uniform_background(protein)


def check_pvalue(rep, case):
    """One evaluation = one matrix x method x call order; returns the number of queries compared."""
    protein, method, order = case["protein"], case["method"], case["order"]
    sm, bgv = _build_pvalue_matrix(case)
    rows = rows_of(sm)
    mx, _ = rm.max_score(rows)
    mn, _ = rm.min_score(rows)
    queries = [("pvalue", rm.f32(s)) for s in (mn - 1.0, mn, mn + (mx - mn) * 0.25, mn + (mx - mn) * 0.5, mn + (mx - mn) * 0.75,
                                                mn + (mx - mn) * 0.9, mx, mx + 1.0, 0.0)]
    queries += [("score", p) for p in (1e-6, 1e-4, 1e-3, 0.01, 0.05, 0.25, 0.5, 0.9, 0.999)]
    # double-precision scores that are NOT f32 values, a hair below / above attainable totals (narrow matrices only):
    # the TFM-PVALUE method takes its score in double precision
    w = len(rows)
    if w <= 4 and all(x == x and abs(x) != float("inf") for r in rows for x in r[:-1]):
        import itertools
        k = len(rows[0]) - 1
        totals = sorted({sum(float(rows[i][c]) for i, c in enumerate(word)) for word in itertools.product(range(min(k, 4)), repeat=w)})
        pick = totals if len(totals) <= 8 else [totals[i * (len(totals) - 1) // 7] for i in range(8)]
        for a in pick:
            queries += [("pvalue", a - 1e-9), ("pvalue", a + 1e-9)]
    if order == "rev":
        queries = queries[::-1]
    core = {("pvalue", "meme"): vxref.core_meme_pvalue, ("score", "meme"): vxref.core_meme_score,
            ("pvalue", "tfmpvalue"): vxref.core_tfm_pvalue, ("score", "tfmpvalue"): vxref.core_tfm_score}
    n = 0
    for what, x in queries:
        if order == "fresh":
            sm, _ = _build_pvalue_matrix(case)
        got = call(getattr(sm, what), x, method)
        ref = call(core[(what, method)], rows, bgv, protein, x)
        n += 1
        if is_panic(got):
            shared = " (the core library panics on the same input: %s)" % ref[2] if is_exc(ref) else ""
            _viol(rep, "C17 %s method=%s PanicException%s" % (what, method, " shared with core" if is_exc(ref) else ""),
                  "%s(%r, %r) %s%s" % (what, x, method, show(got), shared), dict(case, query=[what, x]))
            continue
        if is_exc(ref):
            rep.machinery("core %s/%s failed on %s: %s" % (what, method, case["label"], show(ref)))
            continue
        if got != ("ok", ref[1]) and "create" in case and case.get("background") is not None:
            uni = call(core[(what, method)], rows, rm.uniform_background(protein), protein, x)
            if uni[0] == "ok" and got == ("ok", uni[1]):
                _viol(rep, "C17 log_odds background ignored", "%s: matrix built by log_odds(background=%r): %s(%r, %r) = %r is the uniform-background value, "
                      "the core library under the given background gives %r" % (case["label"], case["background"], what, x, method, uni[1], ref[1]), dict(case, query=[what, x]))
                continue
        if got != ("ok", ref[1]):
            _viol(rep, "C17 %s method=%s differs from core" % (what, method), "%s: %s(%r, %r) %s, the core library gives %r (call order %s)" % (
                case["label"], what, x, method, show(got), ref[1], order), dict(case, query=[what, x]))
    return n


def run_pvalue(ctx, rep):
    rep.space("pvalue", "ScoringMatrix.pvalue(score, method) / .score(pvalue, method) for method in {meme, tfmpvalue}: 19 matrices (create->normalize->log_odds "
              "DNA widths 3/7/15 + README motif with uniform and with a given background + protein width 3; ScoringMatrix(values, background) DNA widths 1/2/3/7 x 3 backgrounds, protein width 2) x 9 scores "
              "(below min .. above max, 0) + 9 p-values in (0,1) + (width <= 4) double-precision scores 1e-9 below / above 8 attainable totals, asked on ONE object in forward and in reverse order (cached distribution) and on fresh objects; "
              "oracle = the core library on the same f32 rows and background (bit-identical results demanded); one evaluation = one query")
    for i, case in enumerate(pvalue_cases(ctx)):
        if not ctx.mine(i):
            continue
        if ctx.out_of_time():
            rep.cap("pvalue: out of time at case %d" % i)
            break
        n = check_pvalue(rep, case)
        rep.eval(True, n)
        if i % 37 == 1:
            rep.sample(case, per_space=1)


def replay_pvalue(ctx, rep, case):
    rep.space("pvalue", "replay")
    case = dict(case)
    case.pop("query", None)
    if "values" in case:
        case = _unsan_values(case)
    rep.eval(True, check_pvalue(rep, case))


# ============================================================================= reverse_complement / max_score

def revcomp_text(text):
    comp = {"A": "T", "T": "A", "C": "G", "G": "C", "N": "N"}
    return "".join(comp[c] for c in reversed(text))


def revcomp_cases(ctx):
    menu = dict((sid, t) for sid, t, p in sequence_menu() if not p)
    texts = [menu["readme64"], menu["withN76"], menu["len40"], menu["short5"], ""]
    mats = []
    for w in (1, 2, 3, 7, 15, 40):
        for mode in ("floats", "neginf", "ints"):
            for wild in ("N", None):
                mats.append({"values": _float_values("ACGT", w, mode, wild)})
    mats.append({"create": ["GTTGACCTTATCAAC", "GTTGATCCAGTCAAC"], "pseudocount": 0.1})
    mats.append({"create": ["ACGTN", "AACGT", "TTTNA"], "pseudocount": None})
    for mt in mats:
        for text in texts:
            for arm in ARMS:
                c = {"kind": "revcomp", "sequence": text, "arm": arm}
                c.update(mt)
                yield c


def _build_rc_matrix(case):
    if "values" in case:
        return lightmotif.ScoringMatrix({s: list(v) for s, v in case["values"].items()})
    m = lightmotif.create(list(case["create"]))
    if case.get("pseudocount") is None:
        return m.pssm
    return m.counts.normalize(case["pseudocount"]).log_odds()


def check_revcomp(rep, case):
    arm, text = case["arm"], case["sequence"]
    sm = _build_rc_matrix(case)
    rows = rows_of(sm)
    w = len(rows)
    res = call(sm.reverse_complement)
    if is_exc(res):
        _viol(rep, "C17 reverse_complement %s" % res[1], show(res), case)
        return False
    rc = res[1]
    rrows = rows_of(rc)
    exp = rm.reverse_complement_rows(rows)
    if rrows != exp:
        d = _cmp_rows(rrows, exp, lambda e: 0.0)
        _viol(rep, "C17 reverse_complement wrong cell", "rc[%s][%s] = %r, expected m[M-1-i][complement] = %r" % d, case)
    back = call(lambda: rc.reverse_complement())
    if is_exc(back) or rows_of(back[1]) != rows or not (back[1] == sm):
        _viol(rep, "C17 reverse_complement not an involution", "rc(rc(m)) != m (%s)" % show(back)[:100], case)
    if rc.protein or len(rc) != w:
        _viol(rep, "C17 reverse_complement wrong shape", "protein=%r len=%r" % (rc.protein, len(rc)), case)
    integer = rm.matrix_is_integer(rows)
    for label, obj, rr in (("m", sm, rows), ("rc(m)", rc, exp)):
        ms = call(obj.max_score)
        e, ab = rm.max_score(rr)
        if is_exc(ms) or not rm.score_ok(ms[1], e, ab, w, integer):
            _viol(rep, "C17 max_score wrong", "%s.max_score() %s, expected %r" % (label, show(ms), e), case)
    # mirrored scores
    ranks = rm.encode(text)
    model = rm.ref_scores(rows, ranks)
    force(arm)
    try:
        fw = call(lambda: list(sm.calculate(lightmotif.stripe(text))))
        bw = call(lambda: list(rc.calculate(lightmotif.stripe(revcomp_text(text)))))
    finally:
        force(None)
    if is_exc(fw) or is_exc(bw):
        _viol(rep, "C17 calculate arm=%s %s" % (arm, (fw if is_exc(fw) else bw)[1]), "forward %s / reverse %s" % (show(fw)[:150], show(bw)[:150]), case)
        return True
    fw, bw = fw[1], bw[1]
    n = len(model)
    if len(fw) != n or len(bw) != n:
        _viol(rep, "C17 calculate arm=%s wrong length" % arm, "forward %d, reverse %d, expected %d" % (len(fw), len(bw), n), case)
        return True
    for i, (ex, ab) in enumerate(model):
        g1, g2 = fw[i], bw[n - 1 - i]
        if not rm.score_ok(g1, ex, ab, w, integer):
            _viol(rep, "C17 calculate arm=%s wrong score" % arm, "position %d: %r, reference %r" % (i, g1, ex), case)
            break
        if not rm.score_ok(g2, ex, ab, w, integer):
            _viol(rep, "C17 reverse_complement arm=%s mirrored score differs" % arm,
                  "rc(m) on rc(sequence) at L-M-%d = %r, m on sequence at %d = %r (reference %r)" % (i, g2, i, g1, ex), case)
            break
    return n > 0


def run_revcomp(ctx, rep):
    rep.space("revcomp", "ScoringMatrix.reverse_complement() / max_score(): 36 value matrices (widths 1,2,3,7,15,40 x distinct floats / -inf cells / integers x explicit "
              "or defaulted wildcard column) + 2 pipeline motifs x 5 DNA sequences x 3 forced arms: rc cells = m[M-1-i][complement] exactly, rc(rc(m)) == m, "
              "max_score of both, and rc(m) scores position L-M-i of the reverse-complemented sequence as m scores position i (both against the reference); "
              "non-trivial = L >= M")
    for i, case in enumerate(revcomp_cases(ctx)):
        if not ctx.mine(i):
            continue
        rep.eval(check_revcomp(rep, case))
        if i % 131 == 4:
            rep.sample(case, per_space=1)


def replay_revcomp(ctx, rep, case):
    rep.space("revcomp", "replay")
    if "values" in case:
        case = _unsan_values(case)
    rep.eval(check_revcomp(rep, case))
