"""Smoke test of the embedding (not a property)."""
import lightmotif
import vxref


def run(ctx, rep):
    rep.space("smoke", "import test")
    vxref.force("sse2")
    m = lightmotif.create(["ATTA", "ATTC"])
    s = lightmotif.stripe("ATGCATTACCC")
    scores = m.pssm.calculate(s)
    rep.eval()
    rep.sample({"scores": list(scores), "pv": vxref.core_meme_pvalue([list(r) for r in m.pssm], [0.25, 0.25, 0.25, 0.25, 0.0], False, 1.0)})
    vxref.force(None)


def replay(ctx, rep, case):
    run(ctx, rep)
