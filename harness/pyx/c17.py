"""C17 - Python results equal the results of the core definitions on the same data.

Spaces (select with --only): histories, motif_histories, create, countmatrix, normalize_logodds, scoringmatrix, pvalue, revcomp,
load, errors.  The explorer and the reference models are on the Python side (refmodel.py); the embedded
interpreter imports the real `lightmotif` package, `vxref` forces the dispatcher arm and gives the core
library's answers for the p-value clauses.
"""
import vxref

import c17_hist
import c17_prod
import c17_load
import c17_err
import c17_mhist

SPACES = [
    ("histories", c17_hist.run),
    ("create", c17_prod.run_create),
    ("countmatrix", c17_prod.run_countmatrix),
    ("normalize_logodds", c17_prod.run_normalize_logodds),
    ("scoringmatrix", c17_prod.run_scoringmatrix),
    ("pvalue", c17_prod.run_pvalue),
    ("revcomp", c17_prod.run_revcomp),
    ("motif_histories", c17_mhist.run),
    ("load", c17_load.run),
    ("errors", c17_err.run),
]

REPLAY = {
    "history": c17_hist.replay,
    "create": c17_prod.replay_create,
    "countmatrix": c17_prod.replay_countmatrix,
    "normalize_logodds": c17_prod.replay_normalize_logodds,
    "scoringmatrix": c17_prod.replay_scoringmatrix,
    "pvalue": c17_prod.replay_pvalue,
    "revcomp": c17_prod.replay_revcomp,
    "motif_history": c17_mhist.replay,
    "load": c17_load.replay,
    "error": c17_err.replay,
}


def run(ctx, rep):
    vxref.quiet_panics(True)
    rep.max_samples = max(rep.max_samples, 12)
    try:
        for name, fn in SPACES:
            if not ctx.wants(name):
                continue
            if ctx.out_of_time():
                rep.cap("out of time before space %s" % name)
                break
            fn(ctx, rep)
    finally:
        vxref.force(None)
    rep.note("histories key soundness: the striped buffer's state is (content, number of look-ahead rows); look-ahead rows only grow (to the largest width - 1 "
             "used so far) and the order of growth steps is kept in the key; a scores object is a function of (sequence, motif) by the comparison made on the "
             "transition that created it; copy / held view / held scanner are explicit key components; the key is model-derived because Python exposes no "
             "accessor for the number of look-ahead rows")
    rep.note("thresholds are finite; NaN / +inf matrix cells, block size 0 and zero-width motifs only appear in the `errors` space (no-panic / no-hang demand)")
    rep.note("buffer-protocol details, negative indices and __getitem__ bounds belong to C18; memoryview is only taken and held here")


def replay(ctx, rep, case):
    vxref.quiet_panics(True)
    kind = case.get("kind")
    if kind not in REPLAY:
        rep.machinery("C17 replay: unknown case kind %r" % (kind,))
        return
    try:
        REPLAY[kind](ctx, rep, case)
    finally:
        vxref.force(None)
