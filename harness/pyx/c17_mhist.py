"""C17 space `motif_histories`: query histories on ONE ScoringMatrix object.

A Python ScoringMatrix is stateful (it caches its score distribution lazily, and objects derived from
it - reverse complements - are built from it).  Every history over a small operation alphabet is
re-executed on a fresh object; the value returned by the LAST operation is compared with the value
the same operation returns on a FRESH, independently constructed, equivalent object (for a reverse
complement: a matrix built from the reverse-complemented cells through the public constructor).
The single-operation results of fresh objects are decided against the definitions / the core library
by the `pvalue`, `revcomp` and `histories` spaces, so equality transfers those verdicts to every
history.
"""
import math

import lightmotif
import vxref
from vxpy import call

DNA = "ACTGN"          # column order of the library (ranks)
COMP = {"A": "T", "T": "A", "C": "G", "G": "C", "N": "N"}
NEG = float("-inf")

# (name, rows as dict symbol -> list of scores, background dict or None)
MOTIFS = [
    ("int3 asymmetric background",
     {"A": [2.0, -1.0, 0.0], "C": [-2.0, 3.0, 1.0], "G": [0.0, -3.0, -1.0], "T": [1.0, 0.0, 2.0], "N": [NEG, NEG, NEG]},
     {"A": 0.125, "C": 0.375, "G": 0.25, "T": 0.25}),
    ("halves4 asymmetric background",
     {"A": [0.5, -1.5, 1.0, 0.0], "C": [2.5, 0.5, -0.5, 1.5], "G": [-1.0, 1.0, 0.5, -2.0], "T": [0.0, -0.5, 2.0, 1.0],
      "N": [NEG, NEG, NEG, NEG]},
     {"A": 0.5, "C": 0.125, "G": 0.125, "T": 0.25}),
    ("int2 uniform background",
     {"A": [1.0, 0.0], "C": [0.0, 2.0], "G": [-1.0, 1.0], "T": [3.0, -2.0], "N": [NEG, NEG]},
     None),
]

SEQ = "ACGTTGCAATGCCGTANGGTACCATGACGTTAGC"


def build(rows, bg):
    return lightmotif.ScoringMatrix(dict(rows), background=None if bg is None else dict(bg))


def rc_rows(rows):
    return {s: list(reversed(rows[COMP[s]])) for s in rows}


def queries(rows):
    m = len(rows["A"])
    hi = sum(max(rows[s][j] for s in "ACGT") for j in range(m))
    lo = sum(min(rows[s][j] for s in "ACGT") for j in range(m))
    return {"s_mid": (hi + lo) / 2.0 + 0.25, "s_hi": hi - 0.5, "p": 0.03, "p2": 0.4}


def ops():
    return [
        ("pvalue_meme_mid", lambda o, q: o.pvalue(q["s_mid"])),
        ("pvalue_meme_hi", lambda o, q: o.pvalue(q["s_hi"], "meme")),
        ("score_meme", lambda o, q: o.score(q["p"], "meme")),
        ("score_meme2", lambda o, q: o.score(q["p2"])),
        ("pvalue_tfm", lambda o, q: o.pvalue(q["s_mid"], "tfmpvalue")),
        ("score_tfm", lambda o, q: o.score(q["p2"], "tfmpvalue")),
        ("distribution", lambda o, q: list(memoryview(o.score_distribution))[:50]),
        ("max_score", lambda o, q: o.max_score()),
        ("calculate", lambda o, q: list(o.calculate(lightmotif.stripe(SEQ)))),
        ("rows", lambda o, q: [list(r) for r in o]),
        ("reverse_complement", None),
    ]


def same(a, b):
    if isinstance(a, (list, tuple)) and isinstance(b, (list, tuple)):
        return len(a) == len(b) and all(same(x, y) for x, y in zip(a, b))
    if isinstance(a, float) and isinstance(b, float):
        if a == b or (a != a and b != b):
            return True
        # the TFM-PVALUE look-ups sum probabilities in hash-map order: last-digit noise only
        return abs(a - b) <= 1e-9 * (1.0 + max(abs(a), abs(b)))
    return a == b


def execute(mi, hist):
    """Run `hist` on one object; returns (result of last op, result of the same op on a fresh equivalent)."""
    name, rows, bg = MOTIFS[mi]
    oplist = ops()
    obj = build(rows, bg)
    model = rows
    q = queries(rows)
    last = None
    for k, oi in enumerate(hist):
        oname, fn = oplist[oi]
        if fn is None:
            obj = obj.reverse_complement()
            model = rc_rows(model)
            last = [list(r) for r in obj]
        else:
            last = fn(obj, q)
    # fresh equivalent object, last operation only
    oname, fn = oplist[hist[-1]]
    if fn is None:
        # model already includes the last reverse complement
        fresh = [list(r) for r in build(model, bg)]
    else:
        fresh = fn(build(model, bg), q)
    return last, fresh


def check(mi, hist):
    r = call(execute, mi, hist)
    if r[0] == "exc":
        if "Panic" in r[1]:
            return ("C17 motif_histories PanicException", "history raised %s: %s" % (r[1], r[2]))
        return ("C17 motif_histories exception %s" % r[1], "history raised %s: %s" % (r[1], r[2]))
    last, fresh = r[1]
    if not same(last, fresh):
        oname = ops()[hist[-1]][0]
        return ("C17 motif_histories %s depends on earlier operations on the object" % oname,
                "after %d earlier operations %s returned %r ; a fresh equivalent object returns %r" % (len(hist) - 1, oname, trim(last), trim(fresh)))
    return None


def trim(x):
    s = repr(x)
    return s if len(s) < 300 else s[:300] + "..."


def case_of(mi, hist):
    name, rows, bg = MOTIFS[mi]
    return {"kind": "motif_history", "motif": name, "motif_index": mi, "ops": list(hist),
            "history": [ops()[o][0] for o in hist], "rows": rows, "background": bg}


def run(ctx, rep):
    depth = 4 if ctx.quick() else 5
    oplist = ops()
    rep.space("motif_histories",
              "query histories on ONE ScoringMatrix object (lazy score-distribution cache, derived reverse complements): %d motifs (two with strand-asymmetric backgrounds) x ALL operation sequences of length 1..=%d "
              "over {pvalue/score with method meme and tfmpvalue at several queries, score_distribution view, max_score, calculate, row access, reverse_complement (continue on the result)}; "
              "oracle: the last operation returns what it returns on a fresh, independently constructed equivalent object (reverse complements are rebuilt from the complemented cells through the constructor)"
              % (len(MOTIFS), depth))
    idx = 0
    states = transitions = 0
    for mi in range(len(MOTIFS)):
        stack = [[o] for o in range(len(oplist))]
        while stack:
            h = stack.pop()
            mine = ctx.mine(idx)
            idx += 1
            if mine:
                states += 1
                transitions += len(h)
                rep.eval(len(h) > 1)
                v = check(mi, h)
                if v:
                    rep.violation(v[0], v[1], case_of(mi, h))
                elif len(h) == 3 and states % 50 == 1:
                    rep.sample(case_of(mi, h))
            if len(h) < depth:
                for o in range(len(oplist)):
                    stack.append(h + [o])
        if ctx.out_of_time():
            rep.cap("motif_histories: out of time at motif %d" % mi)
            break
    rep.add_states(states, transitions, depth=depth)


def replay(ctx, rep, case):
    rep.space("replay", "replay of one motif history")
    rep.eval(True)
    v = check(case["motif_index"], case["ops"])
    if v:
        rep.violation(v[0], v[1], case_of(case["motif_index"], case["ops"]))
    _ = math.e
    vxref.force(None)
