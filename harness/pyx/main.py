"""Entry point of the Python-side explorer (run inside vx-py)."""
import sys


def main():
    import vxpy
    return vxpy.cli_main()
