"""Shared helpers of the C17 checker (menus of sequences / motifs, observation helpers)."""
import lightmotif
import vxref
from vxpy import call
import refmodel as rm

ARMS = ["generic", "sse2", "avx2"]
NEG_INF = float("-inf")

README = "ATGTCCCAACAACGATACCCCGAGCCCATCGCCGTCATCGGCTCGGCATGCAGATTCCCAGGCG"
WIDTHS = [3, 7, 15, 40]


def is_panic(res):
    return res[0] == "exc" and "Panic" in res[1]


def is_exc(res):
    return res[0] == "exc"


def rows_of(obj):
    """Rows of a Count/Weight/ScoringMatrix through len() and obj[i] (non-negative indices only)."""
    return [list(obj[i]) for i in range(len(obj))]


def show(res):
    if res[0] == "ok":
        return "returned %r" % (res[1],)
    return "raised %s(%s)" % (res[1], res[2])


# ----------------------------------------------------------------------------- sequence menu

def _dna_text(ranks):
    return "".join("ACGT"[r] for r in ranks)


def sequence_menu():
    """[(id, text, protein)] - the C17 sequence menu."""
    s200 = _dna_text(rm.de_bruijn(4, 4)[:200])
    with_n = list(README)
    for p in (5, 31, 32, 63):
        with_n[p] = "N"
    with_n = "".join(with_n) + "NNNN" + "ACGTTGCA"
    long_dna = list(_dna_text(rm.lcg_ranks(1100, 4, 99)))
    long_dna[700] = "N"
    long_dna = "".join(long_dna)
    prot = rm.lcg_ranks(50, 20, 17)
    prot[7] = 20
    prot[33] = 20
    return [
        ("readme64", README, False),
        ("debruijn200", s200, False),
        ("withN76", with_n, False),
        ("short5", "ACGTA", False),
        ("empty", "", False),
        ("protein50", rm.ranks_to_text(prot, True), True),
        ("len40", s200[100:140], False),
        ("lcg1100", long_dna, False),
    ]


# ----------------------------------------------------------------------------- motif specs

FAMILIES = ["logodds", "integer", "create0"]


def motif_spec(family, k, protein, seq_texts):
    """Explicit, JSON-able description of motif k (width WIDTHS[k]) of a family.

    logodds : create(seqs).counts.normalize(0.1).log_odds()         finite cells, wildcard -inf
    integer : ScoringMatrix({sym: small integers, wildcard: -inf})   f32 sums are exact
    create0 : create(seqs).pssm (pseudocount 0, so -inf cells in the non-wildcard columns too); the motif
              sequences are windows of the menu sequences so that some windows score finitely."""
    w = WIDTHS[k]
    abc = rm.letters(protein)
    kk = len(abc) - 1
    if family == "logodds":
        seqs = [rm.ranks_to_text(rm.lcg_ranks(w, kk, 100 * k + j + (7 if protein else 0)), protein) for j in range(4)]
        if w == 15 and not protein:
            seqs = ["GTTGACCTTATCAAC", "GTTGATCCAGTCAAC"] + seqs[:2]
        return {"family": family, "protein": protein, "create": seqs, "pseudocount": 0.1}
    if family == "integer":
        vals = {}
        for j, s in enumerate(abc[:-1]):
            vals[s] = [float(x - 3) for x in rm.lcg_ranks(w, 8, 31 * k + j + 1)]
        vals[abc[-1]] = [NEG_INF] * w
        return {"family": family, "protein": protein, "values": vals}
    # create0: windows of the menu sequences of this alphabet (cyclic extension for the short ones)
    seqs = []
    for t in seq_texts:
        t = t.replace(abc[-1], abc[0])
        if not t:
            continue
        ext = t * ((w + 50) // len(t) + 2)
        for off in (0, 9, 50):
            seqs.append(ext[off:off + w])
    return {"family": family, "protein": protein, "create": seqs[:12]}


def build_motif(spec):
    """Fresh ScoringMatrix from an explicit spec."""
    if "values" in spec:
        return lightmotif.ScoringMatrix({s: list(v) for s, v in spec["values"].items()}, protein=spec["protein"])
    m = lightmotif.create(list(spec["create"]), protein=spec["protein"])
    if "pseudocount" in spec:
        return m.counts.normalize(spec["pseudocount"]).log_odds()
    return m.pssm


def spec_from_json(spec):
    """Undo vxpy.sanitize on a motif spec ("-inf" strings back to floats)."""
    if "values" in spec:
        spec = dict(spec)
        spec["values"] = {s: [unsan(x) for x in v] for s, v in spec["values"].items()}
    return spec


def unsan(x):
    if x == "-inf":
        return NEG_INF
    if x == "inf":
        return float("inf")
    if x == "nan":
        return float("nan")
    return x


def force(arm):
    vxref.force(arm)


def thresholds_for(rows, model, integer):
    """Threshold menu for one (sequence, motif): below every attainable score, the midpoint between two
    neighbouring distinct model scores around the 80th percentile, exactly the best model score."""
    mn, _ = rm.min_score(rows)
    t_all = rm.f32(mn - 1.0) if mn != NEG_INF else -1000.0
    finite = sorted(set(rm.f32(e) for e, _ in model if e != NEG_INF))
    if not finite:
        return [t_all, 0.0, 1.0]
    i = (len(finite) * 4) // 5
    if i + 1 < len(finite):
        t_mid = rm.f32((finite[i] + finite[i + 1]) / 2.0)
    elif len(finite) >= 2:
        t_mid = rm.f32((finite[-2] + finite[-1]) / 2.0)
    else:
        t_mid = rm.f32(finite[0] - 0.5)
    return [t_all, t_mid, finite[-1]]
