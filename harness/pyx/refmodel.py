"""Pure-Python reference models for C17 (and whoever else wants them).

Nothing in this file calls into lightmotif: sequences are kept as linear lists of symbol ranks,
matrices as lists of rows of Python floats, files are produced by writers of our own.

Conventions of the library that the models share (they are part of the documented API):
  DNA symbol order      A, C, T, G, N      (N = wildcard / default symbol, last column)
  protein symbol order  A C D E F G H I K L M N P Q R S T V W Y X   (X = wildcard)
"""
import math
import struct

DNA = "ACTGN"
PROTEIN = "ACDEFGHIKLMNPQRSTVWYX"
NEG_INF = float("-inf")
INF = float("inf")
EPS32 = 2.0 ** -24            # unit round-off of binary32


def letters(protein):
    return PROTEIN if protein else DNA


def f32(x):
    """Round a Python float to binary32 (returned as a Python float)."""
    if x != x or x in (INF, NEG_INF):
        return x
    try:
        return struct.unpack("f", struct.pack("f", x))[0]
    except OverflowError:
        return INF if x > 0 else NEG_INF


def encode(text, protein=False):
    """Linear list of symbol ranks; ValueError on a letter outside the alphabet."""
    abc = letters(protein)
    out = []
    for ch in text:
        i = abc.find(ch)
        if i < 0 or len(ch) != 1:
            raise ValueError("invalid symbol %r" % ch)
        out.append(i)
    return out


def is_valid_text(text, protein=False):
    abc = letters(protein)
    return all(ch in abc for ch in text)


# --------------------------------------------------------------------------------------- scoring

def ref_scores(rows, ranks):
    """C01: list of (exact score, sum of |terms|) for positions 0..L-M; empty when L < M.

    The exact score is -inf as soon as one term is (whatever the other terms are)."""
    m = len(rows)
    n = len(ranks) - m + 1
    out = []
    if m == 0:
        return out
    for i in range(max(0, n)):
        terms = [rows[j][ranks[i + j]] for j in range(m)]
        if any(t == NEG_INF for t in terms):
            out.append((NEG_INF, math.fsum(abs(t) for t in terms if t != NEG_INF)))
        else:
            out.append((math.fsum(terms), math.fsum(abs(t) for t in terms)))
    return out


def matrix_is_integer(rows):
    """All finite cells are integers of magnitude < 2^16 (then every f32 partial sum of up to 256 terms is exact)."""
    for r in rows:
        for x in r:
            if x == NEG_INF:
                continue
            if x != x or x == INF or x != int(x) or abs(x) >= 65536:
                return False
    return True


def sum_bound(m, abs_sum, exact):
    """Allowed |got - exact| for an m-term f32 sum evaluated in any order (plus the final rounding)."""
    if m <= 1:
        return abs(exact) * EPS32 if exact not in (INF, NEG_INF) else 0.0
    return (m - 1) * EPS32 * abs_sum * (1.0 + 2.0 ** -20) + abs(exact) * EPS32


def score_ok(got, exact, abs_sum, m, integer):
    if exact == NEG_INF:
        return got == NEG_INF
    if got != got or got in (INF, NEG_INF):
        return False
    if integer:
        return got == exact
    return abs(got - exact) <= sum_bound(m, abs_sum, exact)


def must_hit(exact, abs_sum, m, integer, t):
    """True: position must be reported at threshold t; False: must not; None: within rounding of t."""
    if exact == NEG_INF:
        return False
    b = 0.0 if integer else sum_bound(m, abs_sum, exact)
    if exact - b >= t:
        return True
    if exact + b < t:
        return False
    return None


# --------------------------------------------------------------------------------------- C09 pipeline

def counts_from_sequences(seqs, protein=False):
    """C09: count matrix (list of rows of K ints); ValueError on unequal lengths / invalid letters."""
    k = len(letters(protein))
    enc = [encode(s, protein) for s in seqs]
    if not enc:
        return []
    w = len(enc[0])
    if any(len(e) != w for e in enc):
        raise ValueError("unequal lengths")
    rows = [[0] * k for _ in range(w)]
    for e in enc:
        for i, r in enumerate(e):
            rows[i][r] += 1
    return rows


def pseudo_vector(pseudocount, protein=False):
    """None -> zeros; float p -> p on every non-wildcard symbol, 0 on the wildcard; dict -> by symbol, others 0.
    Values are taken as the f32 the API receives."""
    abc = letters(protein)
    k = len(abc)
    if pseudocount is None:
        return [0.0] * k
    if isinstance(pseudocount, dict):
        v = [0.0] * k
        for s, x in pseudocount.items():
            v[abc.index(s)] = f32(float(x))
        return v
    p = f32(float(pseudocount))
    return [p] * (k - 1) + [0.0]


def uniform_background(protein=False):
    k = len(letters(protein))
    return [f32(1.0 / (k - 1))] * (k - 1) + [0.0]


def background_vector(background, protein=False):
    abc = letters(protein)
    if background is None:
        return uniform_background(protein)
    v = [0.0] * len(abc)
    for s, x in background.items():
        v[abc.index(s)] = f32(float(x))
    return v


def background_f32_sum(v):
    """The f32 running sum the library's validation computes (in symbol order)."""
    s = 0.0
    for x in v:
        s = f32(s + x)
    return s


def freq_rows(counts, pseudo):
    """(count + pseudocount) / row total; None for a row whose total is 0 (undefined)."""
    out = []
    for r in counts:
        a = [c + p for c, p in zip(r, pseudo)]
        t = math.fsum(a)
        out.append(None if t == 0 else [x / t for x in a])
    return out


def weight_rows(freqs, bg):
    """frequency / background, 0 where the background is 0."""
    out = []
    for r in freqs:
        out.append(None if r is None else [0.0 if b == 0 else x / b for x, b in zip(r, bg)])
    return out


def log_base(x, base):
    if x == 0:
        return NEG_INF
    if base == 2.0:
        return math.log2(x)
    if base == 10.0:
        return math.log10(x)
    return math.log(x) / math.log(base)


def logodds_rows(freqs, bg, base=2.0):
    """log_base(frequency / background); -inf where the background is 0 (and where the frequency is 0)."""
    out = []
    for r in freqs:
        if r is None:
            out.append(None)
            continue
        out.append([NEG_INF if b == 0 else log_base(x / b, base) for x, b in zip(r, bg)])
    return out


def weight_tol(k, exp, extra=0):
    """Tolerance for a weight cell computed in f32: K+3 roundings (pseudocount add, K-term row sum, two divisions)."""
    return (k + 3 + extra) * EPS32 * abs(exp) * 1.0625 + 1e-44


def logodds_tol(k, exp, base, extra=0):
    """Absolute tolerance for a log-odds cell: the relative error of the weight moves the logarithm by
    rel/ln(base); the logarithm itself (libm, or ln x / ln base with f32 roundings) adds a few ulps of the result."""
    if exp == NEG_INF:
        return 0.0
    return (k + 4 + extra) * EPS32 * 1.0625 / abs(math.log(base)) + 6 * EPS32 * abs(exp) + 1e-44


def close(got, exp, tol):
    if exp != exp:
        return got != got
    if exp in (INF, NEG_INF):
        return got == exp
    if got != got or got in (INF, NEG_INF):
        return False
    return abs(got - exp) <= tol


# --------------------------------------------------------------------------------------- C10

DNA_COMPLEMENT = [2, 3, 0, 1, 4]      # A<->T, C<->G, N<->N on ranks A,C,T,G,N


def reverse_complement_rows(rows):
    m = len(rows)
    return [[rows[m - 1 - i][DNA_COMPLEMENT[j]] for j in range(5)] for i in range(m)]


def reverse_complement_ranks(ranks):
    return [DNA_COMPLEMENT[r] for r in reversed(ranks)]


def max_score(rows):
    """Sum over rows of the largest non-wildcard cell; also returns sum of |terms| for the tolerance."""
    terms = [max(r[:-1]) for r in rows]
    if any(t == NEG_INF for t in terms):
        return NEG_INF, 0.0
    return math.fsum(terms), math.fsum(abs(t) for t in terms)


def min_score(rows):
    terms = [min(r[:-1]) for r in rows]
    if any(t == NEG_INF for t in terms):
        return NEG_INF, 0.0
    return math.fsum(terms), math.fsum(abs(t) for t in terms)


# --------------------------------------------------------------------------------------- deterministic contents

def de_bruijn(k, n):
    """de Bruijn sequence B(k, n) as a list of ranks (length k^n)."""
    a = [0] * (k * n)
    out = []

    def db(t, p):
        if t > n:
            if n % p == 0:
                out.extend(a[1:p + 1])
        else:
            a[t] = a[t - p]
            db(t + 1, p)
            for j in range(a[t - p] + 1, k):
                a[t] = j
                db(t + 1, t)
    db(1, 1)
    return out


def ranks_to_text(ranks, protein=False):
    abc = letters(protein)
    return "".join(abc[r] for r in ranks)


def lcg_ranks(n, k, seed):
    """n ranks in [0, k) from a fixed linear congruential generator (deterministic content, not sampling:
    the contents are part of the stated menu)."""
    x = seed & 0x7FFFFFFF
    out = []
    for _ in range(n):
        x = (1103515245 * x + 12345) & 0x7FFFFFFF
        out.append((x >> 16) % k)
    return out


# --------------------------------------------------------------------------------------- motif files (C14)

class Record:
    """One motif as written to a file: cells[position][index into symbols]."""

    def __init__(self, symbols, cells, id=None, accession=None, name=None, description=None, style=0):
        self.symbols = symbols
        self.cells = cells
        self.id = id
        self.accession = accession
        self.name = name
        self.description = description
        self.style = style

    def to_json(self):
        return {"symbols": self.symbols, "cells": self.cells, "id": self.id, "accession": self.accession,
                "name": self.name, "description": self.description, "style": self.style}

    @staticmethod
    def from_json(d):
        return Record(d["symbols"], d["cells"], d.get("id"), d.get("accession"), d.get("name"), d.get("description"),
                      d.get("style", 0))

    def counts(self, protein=False):
        """Rows of K ints in library symbol order (columns not named in the file are zero)."""
        abc = letters(protein)
        col = [abc.index(s) for s in self.symbols]
        rows = []
        for r in self.cells:
            row = [0] * len(abc)
            for j, v in enumerate(r):
                row[col[j]] = v
            rows.append(row)
        return rows


def _jaspar_header(rec):
    if rec.description is None:
        return ">%s" % (rec.id or "")
    return ">%s%s%s" % (rec.id or "", "\t" if rec.style % 3 == 1 else " ", rec.description)


def write_jaspar(rec, eol="\n"):
    assert rec.symbols == "ACGT"
    lines = [_jaspar_header(rec)]
    for j in range(4):
        vals = [str(r[j]) for r in rec.cells]
        if rec.style % 3 == 0:
            lines.append(" ".join(vals))
        elif rec.style % 3 == 1:
            lines.append(" ".join("%6s" % v for v in vals))
        else:
            lines.append("\t".join(vals))
    return "".join(l + eol for l in lines)


def write_jaspar16(rec, eol="\n"):
    lines = [_jaspar_header(rec)]
    for j, s in enumerate(rec.symbols):
        vals = [str(r[j]) for r in rec.cells]
        if rec.style % 3 == 0:
            lines.append("%s [ %s ]" % (s, " ".join(vals)))
        elif rec.style % 3 == 1:
            lines.append("%s  [%s ]" % (s, "".join(" %6s" % v for v in vals)))
        else:
            lines.append("%s\t[%s]" % (s, " ".join(vals)))
    return "".join(l + eol for l in lines)


_CONSENSUS = "GTAywrCNKSnb"


def write_transfac(rec, eol="\n"):
    """style 0 prodoric-like, 1 JASPAR export (tabs, 'x.0' floats, PO), 2 TRANSFAC-9-like decoration, 3 bare."""
    style = rec.style % 4
    sep = " " if style == 1 else "  "
    xx = style in (1, 2)
    lines = []

    def meta(tag, v):
        if v is not None:
            lines.append("%s%s%s" % (tag, sep, v))
            if xx:
                lines.append("XX")
    meta("AC", rec.accession)
    meta("ID", rec.id)
    if style == 2:
        lines += ["DT  19.10.1992 (created); ewi.", "CO  Copyright (C), Biobase GmbH.", "XX"]
    meta("NA", rec.name)
    meta("DE", rec.description)
    if style == 0:
        lines.append("BF  Pseudomonas aeruginosa")
    if style == 1:
        lines.append("PO" + "".join("\t%s" % s for s in rec.symbols))
        for i, row in enumerate(rec.cells):
            lines.append("%02d%s" % (i + 1, "".join("\t%d.0" % v for v in row)))
    else:
        lines.append("P0" + "".join("%7s" % s for s in rec.symbols))
        for i, row in enumerate(rec.cells):
            cons = "" if style == 3 else "      %s" % _CONSENSUS[i % len(_CONSENSUS)]
            lines.append("%02d%s%s" % (i + 1, "".join(" %6d" % v for v in row), cons))
    if style == 0:
        lines.append("XX")
    elif style == 1:
        lines += ["XX", "CC tax_group:plants", "XX"]
    elif style == 2:
        lines += ["XX", "BA  5 elements from 5 genes", "XX", "BS  AGAACCAGCTGTGGAATG; R05143; 7; 18;; p.", "XX"]
    lines.append("//")
    return "".join(l + eol for l in lines)


def uniprobe_freq(row, j):
    return f32(row[j] / float(sum(row)))


def write_uniprobe(rec, eol="\n"):
    lines = [rec.id or ""]
    for j, s in enumerate(rec.symbols):
        lines.append("%s:%s" % (s, "".join("\t%s" % repr(uniprobe_freq(r, j)) for r in rec.cells)))
    lines += [""] * [1, 0, 2][rec.style % 3]
    return "".join(l + eol for l in lines)


WRITERS = {"jaspar": write_jaspar, "jaspar16": write_jaspar16, "transfac": write_transfac, "uniprobe": write_uniprobe}


def write_file(fmt, records, crlf=False):
    eol = "\r\n" if crlf else "\n"
    return "".join(WRITERS[fmt](r, eol) for r in records).encode("ascii")
