"""vxpy: Python-side twin of vx-core (report plumbing, sharding, explorer primitives).

The JSON written by `Report.to_json` has exactly the shape of vx-core's Report, so /verif/bin/check
merges shards of both kinds the same way.
"""
import collections
import hashlib
import json
import struct
import sys
import time
import traceback


# ----------------------------------------------------------------------------- context

class Ctx:
    def __init__(self, tier, shard, nshards, seed, wall, only=None, profile="py"):
        self.tier = tier
        self.shard = shard
        self.nshards = nshards
        self.seed = seed
        self.deadline = time.time() + wall
        self.capped = False
        self.only = only
        self.profile = profile

    def quick(self):
        return self.tier == "quick"

    def mine(self, index):
        return index % self.nshards == self.shard

    def out_of_time(self):
        if not self.capped and time.time() > self.deadline:
            self.capped = True
        return self.capped

    def wants(self, name):
        return self.only is None or name in self.only.split(",")


# ----------------------------------------------------------------------------- report

class Report:
    def __init__(self, prop):
        self.property = prop
        self.spaces = collections.OrderedDict()
        self.samples = []
        self.violations = []
        self.violation_counts = {}
        self.notes = []
        self.not_covered = []
        self.caps = []
        self.machinery_msgs = []
        self.current = ""
        self.max_samples = 8
        self.max_violations_per_sig = 3

    def space(self, name, desc):
        self.current = name
        if name not in self.spaces:
            self.spaces[name] = {"desc": desc, "evaluations": 0, "nontrivial": 0, "states": 0, "transitions": 0,
                                 "traces": 0, "outcomes": 0, "max_depth": 0}

    def eval(self, nontrivial=True, n=1):
        s = self.spaces[self.current]
        s["evaluations"] += n
        if nontrivial:
            s["nontrivial"] += n

    def add_states(self, states, transitions, traces=None, depth=0):
        s = self.spaces[self.current]
        s["states"] += states
        s["transitions"] += transitions
        s["traces"] += transitions if traces is None else traces
        s["max_depth"] = max(s["max_depth"], depth)

    def sample(self, case, per_space=2):
        have = sum(1 for x in self.samples if x.get("space") == self.current)
        if have < per_space and len(self.samples) < self.max_samples:
            c = dict(case)
            c["space"] = self.current
            self.samples.append(c)

    def violation(self, sig, msg, case):
        n = self.violation_counts.get(sig, 0) + 1
        self.violation_counts[sig] = n
        if n <= self.max_violations_per_sig:
            c = dict(case() if callable(case) else case)
            c["property"] = self.property
            c["space"] = self.current
            self.violations.append({"sig": sig, "msg": msg, "case": c})

    def note(self, s):
        if s not in self.notes:
            self.notes.append(s)

    def not_covered_(self, s):
        if s not in self.not_covered:
            self.not_covered.append(s)

    def cap(self, s):
        if s not in self.caps:
            self.caps.append(s)

    def machinery(self, s):
        if s not in self.machinery_msgs and len(self.machinery_msgs) < 50:
            self.machinery_msgs.append(s)

    def to_json(self, capped):
        return {
            "property": self.property,
            "spaces": self.spaces,
            "samples": self.samples,
            "violations": self.violations,
            "violation_counts": self.violation_counts,
            "notes": self.notes,
            "not_covered": self.not_covered,
            "caps": self.caps,
            "machinery": self.machinery_msgs,
            "capped": capped,
        }


# ----------------------------------------------------------------------------- helpers

def f32(x):
    """Round a Python float to IEEE binary32 (returns a Python float)."""
    if x != x or x in (float("inf"), float("-inf")):
        return x
    try:
        return struct.unpack("f", struct.pack("f", x))[0]
    except OverflowError:
        return float("inf") if x > 0 else float("-inf")


def classify_exception(exc):
    """Name of the exception class; pyo3 panics surface as pyo3_runtime.PanicException (a BaseException)."""
    return type(exc).__name__


def call(fn, *args, **kwargs):
    """Run fn; returns ("ok", value) or ("exc", class name, message). PanicException is caught too."""
    try:
        return ("ok", fn(*args, **kwargs))
    except BaseException as e:  # noqa: B036 - PanicException derives from BaseException on purpose
        if isinstance(e, (KeyboardInterrupt, SystemExit)):
            raise
        return ("exc", type(e).__name__, str(e)[:300])


def stable_hash(obj):
    return hashlib.sha1(json.dumps(obj, sort_keys=True, default=str).encode()).hexdigest()[:16]


def bfs(root_key, max_depth, n_ops, step, stop=lambda: False):
    """Explicit-state BFS by re-execution; same contract as vx_core::bfs.

    step(history, op) -> canonical key of the reached state or None (terminal / violation).
    Returns dict(states, transitions, max_depth, depth_capped, frontier_left)."""
    seen = {root_key}
    frontier = collections.deque([[]])
    st = {"states": 1, "transitions": 0, "max_depth": 0, "depth_capped": False, "frontier_left": 0}
    while frontier:
        hist = frontier.popleft()
        if stop():
            st["frontier_left"] = len(frontier) + 1
            st["depth_capped"] = True
            break
        if len(hist) >= max_depth:
            st["depth_capped"] = True
            st["frontier_left"] += 1
            continue
        for op in range(n_ops(hist)):
            k = step(hist, op)
            st["transitions"] += 1
            st["max_depth"] = max(st["max_depth"], len(hist) + 1)
            if k is not None and k not in seen:
                seen.add(k)
                st["states"] += 1
                frontier.append(hist + [op])
    return st


def sanitize(o):
    """Make a structure strictly JSON-serialisable: non-finite floats become strings, bytes lists of ints."""
    if isinstance(o, float):
        if o != o:
            return "nan"
        if o == float("inf"):
            return "inf"
        if o == float("-inf"):
            return "-inf"
        return o
    if isinstance(o, dict):
        return {str(k): sanitize(v) for k, v in o.items()}
    if isinstance(o, (list, tuple)):
        return [sanitize(v) for v in o]
    if isinstance(o, (bytes, bytearray)):
        return list(o)
    if isinstance(o, (str, int, bool)) or o is None:
        return o
    return repr(o)


# ----------------------------------------------------------------------------- breadcrumbs

_CRUMB = {"path": None, "n": 0, "resume_after": 0, "skip": set()}


def crumb(case, bfs_mode=False):
    """Announce the case about to run (see vx_core::util::crumb). Returns False if it must be skipped."""
    if _CRUMB["path"] is None:
        return True
    _CRUMB["n"] += 1
    n = _CRUMB["n"]
    if (not bfs_mode and n <= _CRUMB["resume_after"]) or n in _CRUMB["skip"]:
        return False
    with open(_CRUMB["path"], "w") as f:
        json.dump({"n": n, "bfs": bfs_mode, "case": sanitize(case)}, f)
    return True


# ----------------------------------------------------------------------------- command line

def cli_main():
    args = sys.argv[1:]
    if not args:
        print("usage: vx-py <PROP> --tier T --shard i/n --out FILE [--seed N] [--wall S] [--only X] [--replay FILE]", file=sys.stderr)
        return 2
    prop = args[0]
    opt = {"--tier": "quick", "--shard": "0/1", "--out": None, "--seed": "0", "--wall": "3600", "--only": None,
           "--replay": None, "--profile": "py", "--breadcrumb": None, "--resume-after": "0", "--skip": ""}
    i = 1
    while i < len(args):
        if args[i] in opt and i + 1 < len(args):
            opt[args[i]] = args[i + 1]
            i += 2
        else:
            print("bad argument", args[i], file=sys.stderr)
            return 2
    a, b = opt["--shard"].split("/")
    ctx = Ctx(opt["--tier"], int(a), int(b), int(opt["--seed"] or 0), float(opt["--wall"]), opt["--only"], opt["--profile"])
    rep = Report(prop)
    _CRUMB["path"] = opt["--breadcrumb"]
    _CRUMB["resume_after"] = int(opt["--resume-after"] or 0)
    _CRUMB["skip"] = set(int(x) for x in (opt["--skip"] or "").split(",") if x)
    try:
        mod = __import__(prop.lower())
    except ImportError:
        print("unknown property", prop, file=sys.stderr)
        traceback.print_exc()
        return 2
    if opt["--replay"]:
        doc = json.load(open(opt["--replay"]))
        mod.replay(ctx, rep, doc.get("case", doc))
    else:
        mod.run(ctx, rep)
    text = json.dumps(sanitize(rep.to_json(ctx.capped)), allow_nan=False)
    if opt["--out"]:
        with open(opt["--out"], "w") as f:
            f.write(text)
    else:
        print(text)
    return 0
