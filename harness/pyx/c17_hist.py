"""C17 space `histories`: explicit-state BFS over Python-visible histories on ONE StripedSequence object."""
import lightmotif
from vxpy import call, bfs
import refmodel as rm
from c17_common import (ARMS, FAMILIES, WIDTHS, NEG_INF, is_panic, is_exc, rows_of, show, sequence_menu, motif_spec,
                        build_motif, spec_from_json, unsan, force, thresholds_for)

BLOCKS = [1, 3, 256]


class Instance:
    """One BFS instance: (sequence, motif family, dispatcher arm). Everything explicit so that it can be
    rebuilt from a replay case."""

    def __init__(self, seq_id, text, protein, family, arm, specs, other_spec):
        self.seq_id = seq_id
        self.text = text
        self.protein = protein
        self.family = family
        self.arm = arm
        self.specs = specs              # 4 motif specs of the sequence's alphabet
        self.other_spec = other_spec    # one motif of the other alphabet (mismatch op)
        self.ranks = rm.encode(text, protein)
        self.rows = []
        self.model = []
        self.integer = []
        self.thr = []
        for sp in specs:
            rows = rows_of(build_motif(sp))
            self.rows.append(rows)
            self.model.append(rm.ref_scores(rows, self.ranks))
            self.integer.append(rm.matrix_is_integer(rows))
            self.thr.append(thresholds_for(rows, self.model[-1], self.integer[-1]))

    def case(self, ops):
        return {"kind": "history", "seq_id": self.seq_id, "sequence": self.text, "protein": self.protein,
                "family": self.family, "arm": self.arm, "motifs": self.specs, "other_motif": self.other_spec,
                "ops": [list(o) for o in ops]}


# ----------------------------------------------------------------------------- op alphabet

def summarize(inst, ops):
    """Model-side state summary of a history (pure function of the op list)."""
    chain, last, on_copy, view, held = (), None, False, False, None
    for op in ops:
        kind = op[0]
        if kind in ("calc", "scan", "hold"):
            w = len(inst.rows[op[1]])
            if not chain or w > chain[-1]:
                chain = chain + (w,)
            if kind == "calc":
                last = op[1]
            elif kind == "hold":
                held = op[1]
        elif kind == "drain":
            held = None
        elif kind == "copy":
            on_copy, view = True, False
        elif kind == "view":
            view = True
    return chain, last, on_copy, view, held


def ops_for(inst, summary, with_hold):
    chain, last, on_copy, view, held = summary
    ops = []
    for k in range(4):
        ops.append(("calc", k))
    for k in range(4):
        for t in inst.thr[k]:
            for b in BLOCKS:
                ops.append(("scan", k, t, b))
    if last is not None:
        ops.append(("max",))
        ops.append(("argmax",))
        for t in inst.thr[last]:
            ops.append(("thr", t))
    ops.append(("copy",))
    ops.append(("view",))
    ops.append(("mismatch",))
    if with_hold and not inst.protein:
        if held is None:
            for k in range(4):
                ops.append(("hold", k, inst.thr[k][0], 1))
        else:
            ops.append(("drain",))
    return ops


# ----------------------------------------------------------------------------- execution

class Live:
    """The live Python objects of one re-execution."""

    def __init__(self, inst):
        self.inst = inst
        self.seq = lightmotif.stripe(inst.text, protein=inst.protein)
        self.motifs = {}
        self.last = None        # (k, StripedScores, values list)
        self.views = []
        self.held = None        # (k, t, scanner, hits so far)
        self.old = []           # earlier sequence objects kept alive (copy)

    def motif(self, k):
        if k not in self.motifs:
            self.motifs[k] = build_motif(self.inst.specs[k])
        return self.motifs[k]


def check_hits(inst, k, t, hits):
    """[(class, message)] for a drained scanner."""
    model = inst.model[k]
    m = len(inst.rows[k])
    integer = inst.integer[k]
    out = []
    seen = {}
    for pos, sc in hits:
        if pos in seen:
            out.append(("duplicate hit", "position %d reported twice" % pos))
            continue
        seen[pos] = sc
        if not (0 <= pos < len(model)):
            out.append(("hit outside the sequence", "hit at position %d (score %r) but valid positions are [0, %d)" % (pos, sc, len(model))))
            continue
        exact, ab = model[pos]
        if not rm.score_ok(sc, exact, ab, m, integer):
            out.append(("wrong hit score", "hit at %d has score %r, reference %r (allowed error %g)" % (pos, sc, exact, 0.0 if integer else rm.sum_bound(m, ab, exact))))
        if rm.must_hit(exact, ab, m, integer, t) is False:
            out.append(("false hit", "position %d (reference score %r) reported at threshold %r" % (pos, exact, t)))
    for i, (exact, ab) in enumerate(model):
        if i not in seen and rm.must_hit(exact, ab, m, integer, t) is True:
            out.append(("missed hit", "position %d (reference score %r >= threshold %r) not reported; %d hits returned" % (i, exact, t, len(hits))))
            break
    return out


def drain(scanner):
    hits = []
    for h in scanner:
        hits.append((h.position, h.score))
        if len(hits) > 100000:
            break
    extra = [next(scanner, None), next(scanner, None)]
    return hits, extra


def reuse_call(live, fn, *args, **kw):
    """Call a function that re-configures live.seq. A BufferError while a memoryview of the sequence is alive is the
    buffer protocol's way of refusing to move exported memory (as bytearray does): the views are released and the call
    is made once more, and THAT outcome is judged. A BufferError without a live view is judged like any other exception."""
    res = call(fn, *args, **kw)
    if is_exc(res) and res[1] == "BufferError" and live.views:
        for v in live.views:
            v.release()
        live.views = []
        res = call(fn, *args, **kw)
    return res


def apply(live, op, check):
    """Execute one op on the live objects. Returns (ok, [(class, message)], nontrivial)."""
    inst = live.inst
    kind = op[0]
    bad = []
    nontrivial = True
    if kind == "calc":
        k = op[1]
        res = reuse_call(live, live.motif(k).calculate, live.seq)
        if is_exc(res):
            return False, [("calculate %s" % res[1], "calculate(width %d) %s" % (len(inst.rows[k]), show(res)))], True
        sc = res[1]
        r2 = call(lambda: list(sc))
        rl = call(len, sc)
        if is_exc(r2) or is_exc(rl):
            return False, [("scores read %s" % (r2[1] if is_exc(r2) else rl[1]), "reading the scores %s / len %s" % (show(r2), show(rl)))], True
        vals = r2[1]
        live.last = (k, sc, vals)
        if check:
            model = inst.model[k]
            m = len(inst.rows[k])
            nontrivial = len(model) > 0
            if rl[1] != len(model) or len(vals) != len(model):
                bad.append(("wrong length", "len(scores) = %d, list has %d values, expected L-M+1 = %d (L=%d, M=%d)" % (rl[1], len(vals), len(model), len(inst.ranks), m)))
            else:
                for i, ((exact, ab), got) in enumerate(zip(model, vals)):
                    if not rm.score_ok(got, exact, ab, m, inst.integer[k]):
                        bad.append(("wrong score", "position %d: got %r, reference %r (allowed error %g)" % (i, got, exact, 0.0 if inst.integer[k] else rm.sum_bound(m, ab, exact))))
                        break
        return not bad, bad, nontrivial
    if kind in ("scan", "hold"):
        k, t, b = op[1], op[2], op[3]
        res = reuse_call(live, lightmotif.scan, live.motif(k), live.seq, threshold=t, block_size=b)
        if inst.protein:
            # documented: the scanner is DNA only -> an ordinary exception is the expected outcome
            if is_panic(res):
                return False, [("scan PanicException", "scan on a protein sequence %s" % show(res))], True
            if is_exc(res):
                return True, [], False
        if is_exc(res):
            return False, [("scan %s" % res[1], "scan(width %d, threshold %r, block_size %d) %s" % (len(inst.rows[k]), t, b, show(res)))], True
        scanner = res[1]
        if kind == "hold":
            r1 = call(next, scanner, None)
            if is_exc(r1):
                return False, [("scan %s" % r1[1], "first next() %s" % show(r1))], True
            first = [] if r1[1] is None else [(r1[1].position, r1[1].score)]
            live.held = (k, t, scanner, first, r1[1] is None)
            return True, [], True
        rd = call(drain, scanner)
        if is_exc(rd):
            return False, [("scan %s" % rd[1], "iterating scan(width %d, threshold %r, block_size %d) %s" % (len(inst.rows[k]), t, b, show(rd)))], True
        hits, extra = rd[1]
        if check:
            bad = check_hits(inst, k, t, hits)
            if extra != [None, None]:
                bad.append(("hit after exhaustion", "next() after StopIteration returned %r" % (extra,)))
            nontrivial = any(rm.must_hit(e, a, len(inst.rows[k]), inst.integer[k], t) for e, a in inst.model[k])
        return not bad, bad, nontrivial
    if kind == "drain":
        k, t, scanner, first, done = live.held
        live.held = None
        rd = call(drain, scanner)
        if is_exc(rd):
            return False, [("held scan %s" % rd[1], "draining a scanner held across other operations %s" % show(rd))], True
        hits, extra = rd[1]
        if check:
            bad = [("held " + c, msg) for c, msg in check_hits(inst, k, t, first + hits)]
            if done and hits:
                bad.append(("held hit after exhaustion", "scanner had signalled exhaustion, later returned %r" % (hits[:3],)))
        return not bad, bad, True
    if kind in ("max", "argmax", "thr"):
        k, sc, vals = live.last
        n_cells = 32 * ((len(inst.ranks) + 31) // 32)
        if kind == "max":
            res = call(sc.max)
            if is_exc(res):
                return False, [("max %s" % res[1], "max() %s" % show(res))], True
            if check:
                got = res[1]
                nontrivial = len(vals) > 0
                if len(inst.ranks) == 0:
                    if got is not None:
                        bad.append(("max of empty", "max() = %r on the scores of an empty sequence, expected None" % (got,)))
                elif not vals:
                    if got is not None and got != NEG_INF:
                        bad.append(("max without valid position", "max() = %r but no position is valid (L < M); cells can only hold -inf" % (got,)))
                elif got != max(vals):
                    bad.append(("wrong max", "max() = %r, largest stored score is %r" % (got, max(vals))))
            return not bad, bad, nontrivial
        if kind == "argmax":
            res = call(sc.argmax)
            if is_exc(res):
                return False, [("argmax %s" % res[1], "argmax() %s" % show(res))], True
            if check:
                got = res[1]
                nontrivial = len(vals) > 0
                if len(inst.ranks) == 0:
                    if got is not None:
                        bad.append(("argmax of empty", "argmax() = %r on the scores of an empty sequence, expected None" % (got,)))
                elif not vals:
                    if got is not None and not (0 <= got < n_cells):
                        bad.append(("argmax outside the matrix", "argmax() = %r with %d cells" % (got, n_cells)))
                else:
                    best = max(vals)
                    okay = got is not None and ((0 <= got < len(vals) and vals[got] == best) or
                                                (best == NEG_INF and len(vals) <= got < n_cells))
                    if not okay:
                        bad.append(("wrong argmax", "argmax() = %r holding %r, largest stored score is %r (e.g. at %d)" % (
                            got, vals[got] if got is not None and 0 <= got < len(vals) else None, best, vals.index(best))))
            return not bad, bad, nontrivial
        t = op[1]
        res = call(sc.threshold, t)
        if is_exc(res):
            return False, [("threshold %s" % res[1], "threshold(%r) %s" % (t, show(res)))], True
        if check:
            got = res[1]
            exp = [i for i, v in enumerate(vals) if v >= t]
            nontrivial = len(exp) > 0
            if len(set(got)) != len(got):
                bad.append(("threshold duplicate", "threshold(%r) lists a position twice: %r" % (t, sorted(got)[:20])))
            elif sorted(got) != exp:
                miss = sorted(set(exp) - set(got))[:5]
                extra = sorted(set(got) - set(exp))[:5]
                bad.append(("wrong threshold set", "threshold(%r): missing %r, unexpected %r (%d expected, %d returned)" % (t, miss, extra, len(exp), len(got))))
        return not bad, bad, nontrivial
    if kind == "copy":
        res = call(live.seq.copy)
        if is_exc(res):
            return False, [("copy %s" % res[1], "copy() %s" % show(res))], True
        if check and res[1].protein != inst.protein:
            bad.append(("copy alphabet", "copy().protein = %r" % res[1].protein))
        live.old.append(live.seq)
        live.seq = res[1]
        return not bad, bad, True
    if kind == "view":
        res = call(memoryview, live.seq)
        if is_panic(res):
            return False, [("memoryview PanicException", "memoryview(striped) %s" % show(res))], True
        if res[0] == "ok":
            live.views.append(res[1])
        return True, [], True
    if kind == "mismatch":
        if "other" not in live.motifs:
            live.motifs["other"] = build_motif(inst.other_spec)
        res = call(live.motifs["other"].calculate, live.seq)
        if is_panic(res):
            return False, [("alphabet mismatch PanicException", "calculate with a motif of the other alphabet %s" % show(res))], True
        if res[0] == "ok":
            return False, [("alphabet mismatch accepted", "calculate with a motif of the other alphabet returned a result")], True
        return True, [], True
    raise ValueError("unknown op %r" % (op,))


def execute(inst, ops):
    """Re-execute a history on fresh objects; only the last op is checked. Returns (ok, bad, nontrivial)."""
    force(inst.arm)
    try:
        live = Live(inst)
        for op in ops[:-1]:
            ok, bad, _ = apply(live, op, False)
            if not ok:
                return False, [("prefix " + c, m) for c, m in bad], True
        return apply(live, ops[-1], True)
    finally:
        force(None)


def sig_of(inst, op, cls):
    what = {"calc": "calculate", "scan": "scan", "hold": "scan", "drain": "scan", "thr": "threshold"}.get(op[0], op[0])
    if op[0] in ("view", "copy", "mismatch"):
        return "C17 %s" % cls          # arm-independent operations
    return "C17 %s arm=%s %s" % (what, inst.arm, cls)


# ----------------------------------------------------------------------------- driver

def instances():
    menu = sequence_menu()
    dna_texts = [t for _, t, p in menu if not p]
    prot_texts = [t for _, t, p in menu if p]
    out = []
    for seq_id, text, protein in menu:
        for family in FAMILIES:
            for arm in ARMS:
                out.append((seq_id, text, protein, family, arm, dna_texts, prot_texts))
    return out


def make_instance(seq_id, text, protein, family, arm, dna_texts, prot_texts):
    texts = prot_texts if protein else dna_texts
    specs = [motif_spec(family, k, protein, texts) for k in range(4)]
    other = motif_spec("integer", 0, not protein, [])
    return Instance(seq_id, text, protein, family, arm, specs, other)


def run(ctx, rep):
    depth = 3 if ctx.quick() else 12
    with_hold = not ctx.quick()
    rep.space("histories",
              "explicit-state BFS by re-execution on fresh Python objects: one StripedSequence per instance "
              "(8 sequences: 64-nt README, 200-nt de Bruijn, 76-nt with N, 5-nt, empty, 50-aa protein, 40-nt, 1100-nt = 35 striped rows) x 3 motif families "
              "(create->normalize(0.1)->log_odds; integer-valued ScoringMatrix; create().pssm with -inf cells) x 3 forced dispatcher arms; "
              "motif widths 3/7/15/40; ops: calculate(Pk), scan(Pk, 3 thresholds, block 1/3/256) drained + 2 extra next(), max, argmax, "
              "threshold(3 values) on the last scores, copy (continue on the copy), memoryview taken and held, calculate with a motif of "
              "the other alphabet%s; all op sequences to depth %d (thorough: to the fixpoint of the canonical key, which is finite) with de-duplication on (sequence, chain of look-ahead growths, last scores' motif, "
              "on-copy, view-held, held scanner); every transition compared with the pure-Python reference; non-trivial = at least one valid position / expected hit"
              % (", scanner held after its first hit across other ops then drained (thorough)" if with_hold else "", depth))
    for idx, spec in enumerate(instances()):
        if not ctx.mine(idx):
            continue
        if ctx.out_of_time():
            rep.cap("histories: out of time before instance %d" % idx)
            break
        inst = make_instance(*spec)
        decode_cache = {(): []}

        def decode(hist):
            key = tuple(hist)
            if key not in decode_cache:
                prefix = decode(hist[:-1])
                ops = ops_for(inst, summarize(inst, prefix), with_hold)
                decode_cache[key] = prefix + [ops[hist[-1]]]
            return decode_cache[key]

        def n_ops(hist):
            return len(ops_for(inst, summarize(inst, decode(hist)), with_hold))

        def step(hist, i):
            ops = decode(list(hist) + [i])
            ok, bad, nontrivial = execute(inst, ops)
            rep.eval(nontrivial)
            if len(hist) == 1 and i == 0:
                rep.sample({"instance": [inst.seq_id, inst.family, inst.arm], "ops": [list(o) for o in ops]}, per_space=1)
            for cls, msg in bad:
                rep.violation(sig_of(inst, ops[-1], cls), "%s/%s: %s after %r" % (inst.seq_id, inst.family, msg, ops[:-1]), inst.case(ops))
            if not ok:
                return None
            return (inst.seq_id,) + summarize(inst, ops)

        st = bfs((inst.seq_id,) + summarize(inst, []), depth, n_ops, step, ctx.out_of_time)
        rep.add_states(st["states"], st["transitions"], depth=st["max_depth"])
        if st["frontier_left"]:
            if ctx.capped:
                rep.cap("histories: wall-clock cap, %d frontier states left (instance %s/%s/%s)" % (st["frontier_left"], inst.seq_id, inst.family, inst.arm))
            else:
                rep.note("histories: depth bound %d reached with unexpanded states (bounded, not a fixpoint)" % depth)
        else:
            rep.note("histories: fixpoint of the canonical key reached (max depth %d)" % st["max_depth"])


def replay(ctx, rep, case):
    rep.space("histories", "replay of one history")
    specs = [spec_from_json(s) for s in case["motifs"]]
    inst = Instance(case["seq_id"], case["sequence"], case["protein"], case["family"], case["arm"], specs,
                    spec_from_json(case["other_motif"]))
    ops = [tuple(unsan(x) for x in o) for o in case["ops"]]
    ok, bad, nontrivial = execute(inst, ops)
    rep.eval(nontrivial)
    for cls, msg in bad:
        rep.violation(sig_of(inst, ops[-1], cls), "%s/%s: %s after %r" % (inst.seq_id, inst.family, msg, ops[:-1]), inst.case(ops))
