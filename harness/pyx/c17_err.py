"""C17 space `errors`: the argument-error menu. Alphabet mismatches and invalid arguments must surface as
ordinary Python exceptions: a pyo3 PanicException, a hang or a process abort is a violation.

Each entry is a self-contained Python expression evaluated in a small fixed namespace (see `namespace`).
demand = "raise"   : the call must raise an ordinary exception (returning a value is a violation)
demand = "nopanic" : any ordinary outcome (value or ordinary exception) is accepted
isolate = True     : the entry may hang or abort; it is evaluated in a child process (this binary re-invoked on a
                     replay file) with a timeout, so that the verdict is attributed to the entry.
"""
import io
import json
import os
import subprocess
import tempfile

import lightmotif
from vxpy import call, sanitize
from c17_common import ARMS, README, is_panic, is_exc, show, force

TIMEOUT = 10


class BigRead:
    """read(n) returns more than n bytes (breaks the file protocol)."""
    def read(self, n=-1):
        return b"" if n == 0 else b">x\n" + b"1 " * 20000


class OSErrorRead:
    def read(self, n=-1):
        if n == 0:
            return b""
        raise OSError(5, "boom")


class RuntimeErrorRead:
    def read(self, n=-1):
        if n == 0:
            return b""
        raise RuntimeError("boom")


class StrRead:
    def read(self, n=-1):
        return ""


class LateStrRead:
    """bytes for the probing read(0), str afterwards."""
    def read(self, n=-1):
        return b"" if n == 0 else ">x\n1 2\n"


class NoRead:
    pass


def namespace():
    def dna_pssm():
        return lightmotif.ScoringMatrix({"A": [1.0, 2.0], "C": [0.0, -1.0], "G": [0.5, 0.5], "T": [-2.0, 0.0]})

    def prot_pssm():
        return lightmotif.create(["MKV", "MKL"], protein=True).pssm

    def cm():
        return lightmotif.CountMatrix({"A": [1, 2], "C": [3, 0], "G": [0, 1], "T": [1, 1]})

    def hits(scanner, limit=100000):
        out = []
        for h in scanner:
            out.append((h.position, h.score))
            if len(out) >= limit:
                break
        return out

    return {
        "lightmotif": lightmotif, "io": io, "nan": float("nan"), "inf": float("inf"), "README": README,
        "dna_pssm": dna_pssm, "prot_pssm": prot_pssm, "cm": cm, "wm": lambda: cm().normalize(0.5),
        "dna_seq": lambda: lightmotif.stripe(README), "prot_seq": lambda: lightmotif.stripe("MKVLAAGIVGLCAKAYPQ", protein=True),
        "inf_pssm": lambda: lightmotif.create(["ACGTA", "ACGTT", "CCGTA"]).pssm,
        "hits": hits, "BigRead": BigRead, "OSErrorRead": OSErrorRead, "RuntimeErrorRead": RuntimeErrorRead, "StrRead": StrRead,
        "LateStrRead": LateStrRead, "NoRead": NoRead,
    }


R, N = "raise", "nopanic"

MENU = [
    # ---- alphabet mismatch
    ("mismatch calculate dna motif / protein sequence", "dna_pssm().calculate(prot_seq())", R, False),
    ("mismatch calculate protein motif / dna sequence", "prot_pssm().calculate(dna_seq())", R, False),
    ("mismatch scan dna motif / protein sequence", "lightmotif.scan(dna_pssm(), prot_seq())", R, False),
    ("mismatch scan protein motif / dna sequence", "lightmotif.scan(prot_pssm(), dna_seq())", R, False),
    ("scan protein motif / protein sequence", "lightmotif.scan(prot_pssm(), prot_seq())", R, False),
    ("Scanner() dna motif / protein sequence", "lightmotif.Scanner(dna_pssm(), prot_seq())", R, False),
    ("reverse_complement of a protein matrix", "prot_pssm().reverse_complement()", R, False),
    ("CountMatrix protein letters as DNA", "lightmotif.CountMatrix({'M': [1], 'K': [2]})", R, False),
    # ---- invalid symbol
    ("stripe invalid letter", "lightmotif.stripe('ATXG')", R, False),
    ("stripe lowercase", "lightmotif.stripe('atgc')", R, False),
    ("stripe blank", "lightmotif.stripe('AT G')", R, False),
    ("stripe non-ascii", "lightmotif.stripe('ATG\\u00e9')", R, False),
    ("stripe non-ascii long", "lightmotif.stripe('ACGT' * 20 + '\\u00e9' + 'ACGT' * 20)", R, False),
    ("stripe NUL", "lightmotif.stripe('AT\\x00G')", R, False),
    ("stripe protein invalid letter", "lightmotif.stripe('MKB', protein=True)", R, False),
    ("stripe protein letters as DNA", "lightmotif.stripe('MKV')", R, False),
    ("EncodedSequence invalid letter", "lightmotif.EncodedSequence('ATXG')", R, False),
    ("EncodedSequence protein invalid letter", "lightmotif.EncodedSequence('MKZ', protein=True)", R, False),
    ("create invalid letter", "lightmotif.create(['ATXG'])", R, False),
    ("create protein letters as DNA", "lightmotif.create(['MKV'])", R, False),
    ("create protein invalid letter", "lightmotif.create(['MKZ'], protein=True)", R, False),
    ("create unequal lengths", "lightmotif.create(['ACGT', 'AC'])", R, False),
    ("create unequal lengths empty first", "lightmotif.create(['', 'AC'])", R, False),
    ("normalize unknown symbol", "cm().normalize({'X': 1.0})", R, False),
    ("normalize two-letter key", "cm().normalize({'AC': 1.0})", R, False),
    ("normalize empty key", "cm().normalize({'': 1.0})", R, False),
    ("log_odds unknown symbol", "wm().log_odds({'X': 1.0})", R, False),
    # ---- wrong type
    ("stripe bytes", "lightmotif.stripe(b'ACGT')", R, False),
    ("stripe None", "lightmotif.stripe(None)", R, False),
    ("stripe int", "lightmotif.stripe(5)", R, False),
    ("create None", "lightmotif.create(None)", R, False),
    ("create ints", "lightmotif.create([1, 2])", R, False),
    ("create int", "lightmotif.create(5)", R, False),
    ("create bytes items", "lightmotif.create([b'ACGT'])", R, False),
    ("create name int", "lightmotif.create(['A'], name=3)", R, False),
    ("CountMatrix list", "lightmotif.CountMatrix([1])", R, False),
    ("CountMatrix scalar column", "lightmotif.CountMatrix({'A': 5})", R, False),
    ("CountMatrix float cell", "lightmotif.CountMatrix({'A': [1.5]})", R, False),
    ("CountMatrix str cell", "lightmotif.CountMatrix({'A': ['x']})", R, False),
    ("CountMatrix negative cell", "lightmotif.CountMatrix({'A': [-1]})", R, False),
    ("CountMatrix cell 2^32", "lightmotif.CountMatrix({'A': [2 ** 32]})", R, False),
    ("CountMatrix generator column", "lightmotif.CountMatrix({'A': (x for x in (1, 2))})", N, False),
    ("CountMatrix int key", "lightmotif.CountMatrix({1: [1], 'A': [1]})", N, False),
    ("normalize str", "cm().normalize('a')", R, False),
    ("normalize list", "cm().normalize([0.1])", R, False),
    ("normalize dict str value", "cm().normalize({'A': 'x'})", R, False),
    ("normalize dict int key", "cm().normalize({1: 1.0})", R, False),
    ("log_odds background list", "wm().log_odds([0.25] * 4)", R, False),
    ("log_odds background float", "wm().log_odds(0.25)", R, False),
    ("log_odds base str", "wm().log_odds(None, 'e')", R, False),
    ("ScoringMatrix list", "lightmotif.ScoringMatrix([1.0])", R, False),
    ("ScoringMatrix str cell", "lightmotif.ScoringMatrix({'A': ['x']})", R, False),
    ("ScoringMatrix tuple column", "lightmotif.ScoringMatrix({'A': (1.0,)})", N, False),
    ("ScoringMatrix background list", "lightmotif.ScoringMatrix({'A': [1.0]}, [0.25])", R, False),
    ("calculate str", "dna_pssm().calculate('ACGT')", R, False),
    ("calculate None", "dna_pssm().calculate(None)", R, False),
    ("calculate EncodedSequence", "dna_pssm().calculate(lightmotif.EncodedSequence('ACGT'))", R, False),
    ("scan str sequence", "lightmotif.scan(dna_pssm(), 'ACGT')", R, False),
    ("scan str motif", "lightmotif.scan('x', dna_seq())", R, False),
    ("scan threshold str", "lightmotif.scan(dna_pssm(), dna_seq(), threshold='a')", R, False),
    ("scan block_size float", "lightmotif.scan(dna_pssm(), dna_seq(), block_size=1.5)", R, False),
    ("threshold str", "dna_pssm().calculate(dna_seq()).threshold('a')", R, False),
    ("pvalue str", "dna_pssm().pvalue('a')", R, False),
    ("score str", "dna_pssm().score('a')", R, False),
    ("load int", "lightmotif.load(3, 'jaspar')", R, False),
    ("load text-mode file", "lightmotif.load(io.StringIO('>x\\n'), 'jaspar')", R, False),
    ("load read() returns str", "lightmotif.load(StrRead(), 'jaspar')", R, False),
    ("load read() returns str later", "list(lightmotif.load(LateStrRead(), 'jaspar'))", R, False),
    ("load object without read", "lightmotif.load(NoRead(), 'jaspar')", R, False),
    # ---- unknown format / method
    ("load unknown format", "lightmotif.load(io.BytesIO(b''), 'xx')", R, False),
    ("load format upper case", "lightmotif.load(io.BytesIO(b''), 'JASPAR')", R, False),
    ("load format None", "lightmotif.load(io.BytesIO(b''), None)", R, False),
    ("load jaspar protein", "lightmotif.load(io.BytesIO(b''), 'jaspar', protein=True)", R, False),
    ("pvalue unknown method", "dna_pssm().pvalue(1.0, 'x')", R, False),
    ("score unknown method", "dna_pssm().score(0.5, 'x')", R, False),
    ("pvalue method None", "dna_pssm().pvalue(1.0, None)", R, False),
    ("pvalue method upper case", "dna_pssm().pvalue(1.0, 'MEME')", R, False),
    # ---- invalid values that the definitions reject
    ("log_odds background sum 0.5", "wm().log_odds({'A': 0.5})", R, False),
    ("log_odds background sum 2", "wm().log_odds({'A': 0.5, 'C': 0.5, 'G': 0.5, 'T': 0.5})", R, False),
    ("log_odds background negative", "wm().log_odds({'A': -0.5, 'C': 1.5})", R, False),
    ("log_odds background above 1", "wm().log_odds({'A': 2.0, 'C': -1.0})", R, False),
    ("log_odds background nan", "wm().log_odds({'A': nan, 'C': 0.25, 'G': 0.25, 'T': 0.25})", R, False),
    ("ScoringMatrix background sum 2", "lightmotif.ScoringMatrix({'A': [1.0]}, {'A': 2.0})", R, False),
    ("ScoringMatrix background negative", "lightmotif.ScoringMatrix({'A': [1.0]}, {'A': -1.0, 'C': 2.0})", R, False),
    ("load missing path", "lightmotif.load('/nonexistent/vx-c17', 'jaspar')", R, False),
    ("load directory path", "list(lightmotif.load('/', 'jaspar'))", R, False),
    ("load read() raises OSError", "list(lightmotif.load(OSErrorRead(), 'jaspar'))", R, False),
    ("load read() raises RuntimeError", "list(lightmotif.load(RuntimeErrorRead(), 'transfac'))", R, False),
    # ---- no-panic menu (degenerate but type-correct arguments)
    ("zero-width motif calculate create([])", "list(lightmotif.create([]).pssm.calculate(dna_seq()))", N, False),
    ("zero-width motif calculate create([''])", "list(lightmotif.create(['']).pssm.calculate(dna_seq()))", N, False),
    ("zero-width motif calculate on empty sequence", "list(lightmotif.create([]).pssm.calculate(lightmotif.stripe('')))", N, False),
    ("zero-width motif calculate protein", "list(lightmotif.create([], protein=True).pssm.calculate(prot_seq()))", N, False),
    ("zero-width motif scan", "hits(lightmotif.scan(lightmotif.create([]).pssm, dna_seq()))", N, True),
    ("zero-width motif CountMatrix pipeline calculate", "list(lightmotif.CountMatrix({'A': []}).normalize(0.1).log_odds().calculate(dna_seq()))", N, False),
    ("zero-width motif pvalue meme", "lightmotif.create([]).pssm.pvalue(0.0)", N, True),
    ("zero-width motif pvalue tfmpvalue", "lightmotif.create([]).pssm.pvalue(0.0, 'tfmpvalue')", N, True),
    ("zero-width motif score meme", "lightmotif.create([]).pssm.score(0.5)", N, True),
    ("zero-width motif max_score", "lightmotif.create([]).pssm.max_score()", N, False),
    ("zero-width motif reverse_complement", "len(lightmotif.create([]).pssm.reverse_complement())", N, False),
    ("nan cell max_score", "lightmotif.ScoringMatrix({'A': [nan], 'C': [1.0], 'G': [0.0], 'T': [0.0]}).max_score()", N, False),
    ("nan cell calculate", "list(lightmotif.ScoringMatrix({'A': [nan], 'C': [1.0], 'G': [0.0], 'T': [0.0]}).calculate(dna_seq()))[:3]", N, False),
    ("nan cell max", "lightmotif.ScoringMatrix({'A': [nan], 'C': [1.0], 'G': [0.0], 'T': [0.0]}).calculate(dna_seq()).max()", N, False),
    ("nan cell argmax", "lightmotif.ScoringMatrix({'A': [nan], 'C': [1.0], 'G': [0.0], 'T': [0.0]}).calculate(dna_seq()).argmax()", N, False),
    ("nan cell scan", "hits(lightmotif.scan(lightmotif.ScoringMatrix({'A': [nan], 'C': [1.0], 'G': [0.0], 'T': [0.0]}), dna_seq(), threshold=-1.0))", N, True),
    ("nan cell pvalue", "lightmotif.ScoringMatrix({'A': [nan], 'C': [1.0], 'G': [0.0], 'T': [0.0]}).pvalue(0.5)", N, True),
    ("inf cell scan", "hits(lightmotif.scan(lightmotif.ScoringMatrix({'A': [inf], 'C': [1.0], 'G': [0.0], 'T': [0.0]}), dna_seq(), threshold=-1.0))", N, True),
    ("inf cell pvalue", "lightmotif.ScoringMatrix({'A': [inf], 'C': [1.0], 'G': [0.0], 'T': [0.0]}).pvalue(0.5)", N, True),
    ("cell beyond f32 (1e39) max_score", "lightmotif.ScoringMatrix({'A': [1e39], 'C': [1.0], 'G': [0.0], 'T': [0.0]}).max_score()", N, False),
    ("cell beyond f32 (1e39) pvalue", "lightmotif.ScoringMatrix({'A': [1e39], 'C': [1.0], 'G': [0.0], 'T': [0.0]}).pvalue(0.5)", N, True),
    ("cell beyond f32 (1e39) score", "lightmotif.ScoringMatrix({'A': [1e39], 'C': [1.0], 'G': [0.0], 'T': [0.0]}).score(0.5)", N, True),
    ("cell beyond f32 (1e39) calculate", "list(lightmotif.ScoringMatrix({'A': [1e39], 'C': [1.0], 'G': [0.0], 'T': [0.0]}).calculate(dna_seq()))[:3]", N, False),
    ("cell beyond f32 (1e39) scan", "hits(lightmotif.scan(lightmotif.ScoringMatrix({'A': [1e39], 'C': [1.0], 'G': [0.0], 'T': [0.0]}), dna_seq(), threshold=-1.0))", N, True),
    ("cell beyond f32 (3.5e38) max_score", "lightmotif.ScoringMatrix({'A': [3.5e38], 'C': [1.0], 'G': [0.0], 'T': [0.0]}).max_score()", N, False),
    ("cell beyond f32 (3.5e38) pvalue", "lightmotif.ScoringMatrix({'A': [3.5e38], 'C': [1.0], 'G': [0.0], 'T': [0.0]}).pvalue(0.5)", N, True),
    ("cell beyond f32 (3.5e38) score", "lightmotif.ScoringMatrix({'A': [3.5e38], 'C': [1.0], 'G': [0.0], 'T': [0.0]}).score(0.5)", N, True),
    ("cell beyond f32 (3.5e38) calculate", "list(lightmotif.ScoringMatrix({'A': [3.5e38], 'C': [1.0], 'G': [0.0], 'T': [0.0]}).calculate(dna_seq()))[:3]", N, False),
    ("cell beyond f32 (3.5e38) scan", "hits(lightmotif.scan(lightmotif.ScoringMatrix({'A': [3.5e38], 'C': [1.0], 'G': [0.0], 'T': [0.0]}), dna_seq(), threshold=-1.0))", N, True),
    ("cell beyond f32 (float max) max_score", "lightmotif.ScoringMatrix({'A': [1.7976931348623157e308], 'C': [1.0], 'G': [0.0], 'T': [0.0]}).max_score()", N, False),
    ("cell beyond f32 (float max) pvalue", "lightmotif.ScoringMatrix({'A': [1.7976931348623157e308], 'C': [1.0], 'G': [0.0], 'T': [0.0]}).pvalue(0.5)", N, True),
    ("cell beyond f32 (float max) score", "lightmotif.ScoringMatrix({'A': [1.7976931348623157e308], 'C': [1.0], 'G': [0.0], 'T': [0.0]}).score(0.5)", N, True),
    ("cell beyond f32 (float max) calculate", "list(lightmotif.ScoringMatrix({'A': [1.7976931348623157e308], 'C': [1.0], 'G': [0.0], 'T': [0.0]}).calculate(dna_seq()))[:3]", N, False),
    ("cell beyond f32 (float max) scan", "hits(lightmotif.scan(lightmotif.ScoringMatrix({'A': [1.7976931348623157e308], 'C': [1.0], 'G': [0.0], 'T': [0.0]}), dna_seq(), threshold=-1.0))", N, True),
    ("-inf cells scan all", "hits(lightmotif.scan(lightmotif.ScoringMatrix({'A': [-inf], 'C': [-inf], 'G': [-inf], 'T': [-inf]}), dna_seq(), threshold=-1.0))", N, True),
    ("-inf cells pvalue meme", "inf_pssm().pvalue(1.0)", N, True),
    ("-inf cells score meme", "inf_pssm().score(0.01)", N, True),
    ("-inf cells pvalue tfmpvalue", "inf_pssm().pvalue(1.0, 'tfmpvalue')", N, True),
    ("-inf cells score tfmpvalue", "inf_pssm().score(0.01, 'tfmpvalue')", N, True),
    ("-inf cells max_score", "inf_pssm().max_score()", N, False),
    ("scan threshold nan", "hits(lightmotif.scan(dna_pssm(), dna_seq(), threshold=nan))", N, True),
    ("scan threshold +inf", "hits(lightmotif.scan(dna_pssm(), dna_seq(), threshold=inf))", N, True),
    ("scan threshold -inf", "len(hits(lightmotif.scan(dna_pssm(), dna_seq(), threshold=-inf)))", N, True),
    ("block_size 0 low threshold", "len(hits(lightmotif.scan(dna_pssm(), dna_seq(), threshold=-5.0, block_size=0)))", N, True),
    ("block_size 0 high threshold", "len(hits(lightmotif.scan(dna_pssm(), dna_seq(), threshold=50.0, block_size=0)))", N, True),
    ("block_size 0 empty sequence", "len(hits(lightmotif.scan(dna_pssm(), lightmotif.stripe(''), block_size=0)))", N, True),
    ("scan block_size -1", "lightmotif.scan(dna_pssm(), dna_seq(), block_size=-1)", R, False),
    ("scan block_size 2^64", "lightmotif.scan(dna_pssm(), dna_seq(), block_size=2 ** 64)", R, False),
    ("scan block_size 2^64-1", "len(hits(lightmotif.scan(dna_pssm(), dna_seq(), threshold=-5.0, block_size=2 ** 64 - 1)))", N, True),
    ("threshold nan", "dna_pssm().calculate(dna_seq()).threshold(nan)", N, False),
    ("threshold +inf", "dna_pssm().calculate(dna_seq()).threshold(inf)", N, False),
    ("p-value domain score meme nan", "dna_pssm().score(nan)", N, False),
    ("p-value domain score meme negative", "dna_pssm().score(-0.5)", N, False),
    ("p-value domain score meme above 1", "dna_pssm().score(1.5)", N, False),
    ("p-value domain score meme 0", "dna_pssm().score(0.0)", N, False),
    ("p-value domain score meme 1", "dna_pssm().score(1.0)", N, False),
    ("p-value domain score tfmpvalue nan", "dna_pssm().score(nan, 'tfmpvalue')", N, True),
    ("p-value domain score tfmpvalue negative", "dna_pssm().score(-0.5, 'tfmpvalue')", N, True),
    ("p-value domain score tfmpvalue above 1", "dna_pssm().score(1.5, 'tfmpvalue')", N, True),
    ("p-value domain score tfmpvalue 0", "dna_pssm().score(0.0, 'tfmpvalue')", N, True),
    ("p-value domain score tfmpvalue 1", "dna_pssm().score(1.0, 'tfmpvalue')", N, True),
    ("score domain pvalue meme nan", "dna_pssm().pvalue(nan)", N, False),
    ("score domain pvalue meme +inf", "dna_pssm().pvalue(inf)", N, False),
    ("score domain pvalue meme -inf", "dna_pssm().pvalue(-inf)", N, False),
    ("score domain pvalue meme 1e300", "dna_pssm().pvalue(1e300)", N, False),
    ("score domain pvalue tfmpvalue nan", "dna_pssm().pvalue(nan, 'tfmpvalue')", N, True),
    ("score domain pvalue tfmpvalue +inf", "dna_pssm().pvalue(inf, 'tfmpvalue')", N, True),
    ("score domain pvalue tfmpvalue -inf", "dna_pssm().pvalue(-inf, 'tfmpvalue')", N, True),
    ("normalize negative", "[list(r) for r in cm().normalize(-1.0)]", N, False),
    ("normalize nan", "[list(r) for r in cm().normalize(nan)]", N, False),
    ("normalize inf", "[list(r) for r in cm().normalize(inf)]", N, False),
    ("log_odds base 1", "[list(r) for r in wm().log_odds(None, 1.0)]", N, False),
    ("log_odds base 0", "[list(r) for r in wm().log_odds(None, 0.0)]", N, False),
    ("log_odds base negative", "[list(r) for r in wm().log_odds(None, -2.0)]", N, False),
    ("log_odds base nan", "[list(r) for r in wm().log_odds(None, nan)]", N, False),
    ("empty file jaspar", "list(lightmotif.load(io.BytesIO(b''), 'jaspar'))", N, False),
    ("empty file jaspar16", "list(lightmotif.load(io.BytesIO(b''), 'jaspar16'))", N, False),
    ("empty file transfac", "list(lightmotif.load(io.BytesIO(b''), 'transfac'))", N, False),
    ("empty file uniprobe", "list(lightmotif.load(io.BytesIO(b''), 'uniprobe'))", N, False),
    ("file object read() returns more than asked", "list(lightmotif.load(BigRead(), 'jaspar'))", N, False),
    ("memoryview of empty striped sequence", "memoryview(lightmotif.stripe('')).nbytes", N, False),
    ("memoryview of empty encoded sequence", "memoryview(lightmotif.EncodedSequence('')).nbytes", N, False),
    ("stripe empty protein", "lightmotif.stripe('', protein=True).copy().protein", N, False),
]


def entry_case(label, expr, demand, isolate, arm):
    return {"kind": "error", "label": label, "expr": expr, "demand": demand, "isolate": isolate, "arm": arm}


def evaluate_inproc(case):
    ns = namespace()
    force(case.get("arm"))
    try:
        res = call(lambda: eval(case["expr"], ns))
    finally:
        force(None)
    if res[0] == "ok":
        return ("ok", repr(res[1])[:200])
    return res


def evaluate_isolated(case):
    """Run the entry in a child process. Returns ('ok'|'exc', ...) as evaluate_inproc, or ('hang',) / ('abort', rc, tail)."""
    exe = os.readlink("/proc/self/exe")
    d = tempfile.mkdtemp(prefix="vx-c17-iso-")
    try:
        cf, of = os.path.join(d, "case.json"), os.path.join(d, "out.json")
        with open(cf, "w") as f:
            json.dump(sanitize({"case": dict(case, child=True)}), f)
        env = dict(os.environ, VX_C17_INPROC="1", RUST_BACKTRACE="0")
        try:
            p = subprocess.run([exe, "C17", "--replay", cf, "--out", of], env=env, timeout=TIMEOUT,
                               stdout=subprocess.PIPE, stderr=subprocess.STDOUT)
        except subprocess.TimeoutExpired:
            return ("hang", TIMEOUT)
        if p.returncode != 0 or not os.path.exists(of):
            return ("abort", p.returncode, p.stdout.decode("utf-8", "replace")[-300:])
        rep = json.load(open(of))
        for n in rep.get("notes", []):
            if n.startswith("outcome: "):
                return tuple(json.loads(n[len("outcome: "):]))
        return ("abort", p.returncode, "child wrote no outcome")
    finally:
        for fn in os.listdir(d):
            os.unlink(os.path.join(d, fn))
        os.rmdir(d)


def judge(rep, case, res):
    label, demand = case["label"], case["demand"]
    if res[0] == "hang":
        rep.violation("C17 errors %s: hangs" % label, "%s did not return within %d s (GIL held, not interruptible)" % (case["expr"], res[1]), case)
    elif res[0] == "abort":
        rep.violation("C17 errors %s: process abort" % label, "%s killed the process (rc=%r): %s" % (case["expr"], res[1], res[2]), case)
    elif res[0] == "exc" and "Panic" in res[1]:
        rep.violation("C17 errors %s: PanicException" % label, "%s raised %s(%s) instead of an ordinary exception" % (case["expr"], res[1], res[2]), case)
    elif demand == R and res[0] == "ok":
        rep.violation("C17 errors %s: accepted" % label, "%s returned %s instead of raising" % (case["expr"], res[1]), case)


def run(ctx, rep):
    rep.space("errors", "argument-error menu: %d self-contained calls (alphabet mismatch, invalid symbols, wrong types, unknown format / method, invalid backgrounds, "
              "protein reverse_complement, broken file objects, and degenerate type-correct arguments: zero-width motifs, NaN / +-inf cells and thresholds, block size 0, "
              "p-values outside (0,1), empty files) x 3 forced arms; entries that may hang or abort run in a child process with a %d s timeout (native dispatcher); "
              "`raise` entries must raise an ordinary exception, every entry must end without PanicException / hang / abort; non-trivial = all" % (len(MENU), TIMEOUT))
    idx = 0
    for label, expr, demand, isolate in MENU:
        arms = [None] if isolate else ARMS
        for arm in arms:
            i = idx
            idx += 1
            if not ctx.mine(i):
                continue
            if ctx.out_of_time():
                rep.cap("errors: out of time at entry %d" % i)
                return
            case = entry_case(label, expr, demand, isolate, arm)
            res = evaluate_isolated(case) if isolate else evaluate_inproc(case)
            judge(rep, case, res)
            rep.eval()
            if i % 97 == 9:
                rep.sample(dict(case, outcome=list(res)), per_space=1)


def replay(ctx, rep, case):
    rep.space("errors", "replay")
    if case.get("child") and os.environ.get("VX_C17_INPROC") == "1":
        res = evaluate_inproc(case)
        rep.note("outcome: " + json.dumps(sanitize(list(res))))
        return
    case = {k: v for k, v in case.items() if k in ("kind", "label", "expr", "demand", "isolate", "arm")}
    res = evaluate_isolated(case) if case.get("isolate") else evaluate_inproc(case)
    judge(rep, case, res)
    rep.eval()
