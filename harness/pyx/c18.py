"""C18 - Python indexing and buffer views expose exactly the logical contents.

Bounded-exhaustive enumeration, executed on the real extension module inside vx-py:

  index        every class with __getitem__/__len__ (EncodedSequence, CountMatrix, WeightMatrix,
               ScoringMatrix, StripedScores) x sizes x alphabets (x dispatcher arms where the object
               is produced by dispatched code) x EVERY integer index in [-len-2, len+1] plus
               +-2**62, +-2**63, -2**63-1; len(); list(obj).
  view_fresh   memoryview() of every buffer-exporting class (EncodedSequence, StripedSequence,
               ScoringMatrix, ScoreDistribution, StripedScores; CountMatrix / WeightMatrix are probed
               and found not to export buffers) on freshly built objects, every cell compared.
  view_reuse   explicit-state BFS (to fixpoint) over the reuse histories of ONE StripedSequence object
               ({calculate with widths 5, 15, 33, 40, copy}) - a fresh view is taken and fully compared
               after every transition; also ScoringMatrix after it has been used for scoring.
  stale_view   27 histories of {view, release, copy, calculate, scan} with views held ACROSS reuses (fitting the
               reserved rows or reallocating; on the object and on copies); only with --only stale_view, meant to
               be run under valgrind by the driver.

Nothing here is sampled: every loop is a complete product / BFS; VERIF seed is unused.

A view is never dereferenced outside the memory the object is known to own: cells whose byte offset
(from shape/strides) falls outside are counted as "outside the object" instead of being read, so a wrong
shape cannot make the *checker* read foreign memory.
"""
import itertools
import os

import lightmotif
import vxref
import vxpy
from vxpy import call, f32, bfs

DNA = "ACTGN"
PROT = "ACDEFGHIKLMNPQRSTVWYX"
COLS = 32            # columns of striped sequences / scores
EXTRA_ROWS = 32      # rows reserved by the library for look-ahead rows when striping
ARMS = ["generic", "sse2", "avx2"]
HUGE = [2 ** 62, -2 ** 62, 2 ** 63, -2 ** 63, -2 ** 63 - 1]


def sizes(ctx):
    if ctx.quick():
        return [0, 1, 2, 5, 31, 32, 33, 64, 100, 1056]
    return [0, 1, 2, 3, 5, 31, 32, 33, 63, 64, 65, 96, 100, 127, 128, 129, 1000, 1024, 1025, 1056, 2100]


def widths(ctx):
    if ctx.quick():
        return [1, 2, 5, 8, 15, 33]
    return [1, 2, 3, 5, 8, 15, 16, 21, 24, 32, 33, 40]


# ----------------------------------------------------------------------------- models

def alpha(protein):
    return PROT if protein else DNA


def row_stride(protein):
    """Row stride (in elements) of the dense K-column matrices: K=5 -> 8, K=21 -> 24."""
    return 24 if protein else 8


def seq_ranks(L, protein):
    """Deterministic aperiodic symbol ranks (wildcard included)."""
    K = len(alpha(protein))
    x = 12345 + (7 if protein else 0)
    out = []
    for _ in range(L):
        x = (x * 1103515245 + 12345) & 0x7FFFFFFF
        out.append((x >> 16) % K)
    return out


def seq_text(L, protein):
    a = alpha(protein)
    return "".join(a[r] for r in seq_ranks(L, protein))


def count_cell(i, k):
    return 1 + ((i + 1) * (k + 2)) % 257


def score_cell(i, k):
    """All cells distinct, integer valued (sums of <= 64 of them are exact in f32)."""
    return float(i * 32 + k - 100)


def dist_cell(i, k):
    """Small integers: the discretised distribution then has a sparse support (cheap exact model)."""
    return float(((i + 1) * (k + 2)) % 7 - 3)


CELLS = {"score": score_cell, "dist": dist_cell}


def weight_row(i, protein):
    """f32 emulation of CountMatrix.normalize(None): (count / row sum) / uniform background."""
    K = len(alpha(protein))
    vals = [float(count_cell(i, k)) for k in range(K)]
    s = 0.0
    for v in vals:
        s = f32(s + v)
    bg = f32(1.0 / (K - 1))
    return [f32(f32(v / s) / bg) if k != K - 1 else 0.0 for k, v in enumerate(vals)]


def sf_model(M, protein, cell, background=None):
    """MEME-style discretised survival function of the scoring matrix `cell` under the uniform background (or the
    given per-symbol frequencies) - the definition in lightmotif::pwm::dist, range 1000, f64, same accumulation order."""
    K = len(alpha(protein))
    rows = [[cell(i, k) for k in range(K)] for i in range(M)]
    flat = [x for r in rows for x in r]
    small, large = min(flat), max(flat)
    if small == large:
        small = large - 1.0
    import math
    offset = math.floor(small)
    scale = math.floor(1000.0 / (large - offset))
    disc = [[int(round((x - offset) * scale)) for x in r] for r in rows]   # integer inputs: no .5 ties
    bg = [f32(1.0 / (K - 1)) if k != K - 1 else 0.0 for k in range(K)]
    if background is not None:
        bg = [f32(x) for x in background]
    size = M * 1000 + 1
    old = {0: 1.0}
    for i, row in enumerate(disc):
        new = {}
        keys = sorted(k for k, v in old.items() if v != 0.0)
        for a in range(K):
            s = row[a]
            for k in keys:
                new[k + s] = new.get(k + s, 0.0) + old[k] * bg[a]
        old = new
    sf = [0.0] * size
    for k, v in old.items():
        sf[k] = v
    for i in range(size - 2, -1, -1):
        p = sf[i] + sf[i + 1]
        sf[i] = p if p < 1.0 else 1.0
    return sf


def close(a, b, rel):
    if a == b:
        return True
    if isinstance(a, float) and isinstance(b, float) and a != a and b != b:
        return True
    try:
        return abs(a - b) <= rel * max(abs(a), abs(b)) + 1e-300
    except TypeError:
        return False


def same(a, b, rel):
    """Element comparison: scalars or flat lists; rel == 0 means exact."""
    if isinstance(b, list):
        if not isinstance(a, list) or len(a) != len(b):
            return False
        return all(same(x, y, rel) for x, y in zip(a, b))
    if isinstance(a, list):
        return False
    if rel == 0:
        return type(a) in (int, float) and a == b
    return close(a, b, rel)


# ----------------------------------------------------------------------------- objects

_PSSM_CACHE = {}


def make_pssm(M, protein, kind="score"):
    a = alpha(protein)
    cell = CELLS[kind]
    return lightmotif.ScoringMatrix({s: [cell(i, k) for i in range(M)] for k, s in enumerate(a)}, protein=protein)


def cached_pssm(M, protein):
    key = (M, protein)
    if key not in _PSSM_CACHE:
        _PSSM_CACHE[key] = make_pssm(M, protein)
    return _PSSM_CACHE[key]


def make_counts(M, protein):
    a = alpha(protein)
    return lightmotif.CountMatrix({s: [count_cell(i, k) for i in range(M)] for k, s in enumerate(a)}, protein=protein)


class Obj:
    """A real object plus what it logically contains."""

    def __init__(self, cls, obj):
        self.cls = cls
        self.obj = obj
        self.length = None        # logical length (None: class has no __len__/__getitem__)
        self.elements = None      # model elements for indexing
        self.rel = 0              # relative tolerance of element comparison (0 = exact)
        self.buffer = False       # statement names this class as buffer exporting
        self.alloc = 0            # bytes the object certainly owns from the buffer start
        self.layouts = []         # acceptable [(shape, {index tuple: expected})]
        self.view_rel = 0
        self.key = None           # canonical key (BFS spaces)
        self.category = "fresh"
        self.free = frozenset()   # view cells that stand for no logical element (value not checked)
        self.desc = ""


def apply_history(striped, history, protein, R):
    """Apply reuse ops to a StripedSequence; returns (object, wrap, modelled capacity, reallocated?, copied?)."""
    wrap, cap, realloc, copied = 0, R + EXTRA_ROWS, False, False
    for op in history:
        if op[0] == "calc":
            M = int(op[1])
            cached_pssm(M, protein).calculate(striped)
            if M - 1 > wrap:
                wrap = M - 1
                need = R + wrap
                if need > cap:
                    cap = max(2 * cap, need, 4)
                    realloc = True
        elif op[0] == "copy":
            striped = striped.copy()
            cap = R + wrap
            copied = True
        else:
            raise ValueError("unknown op %r" % (op,))
    return striped, wrap, cap, realloc, copied


def score_model(ranks, L, M, protein, R):
    """Scores of all 32*R striped positions; positions past L read the wildcard."""
    K = len(alpha(protein))

    def sym(q):
        return ranks[q] if q < L else K - 1
    return [sum(score_cell(j, sym(p + j)) for j in range(M)) for p in range(COLS * R)]


def build(spec):
    """spec -> Obj. The dispatcher arm stays forced until the caller resets it."""
    cls = spec["cls"]
    protein = bool(spec.get("protein", False))
    K = len(alpha(protein))
    vxref.force(spec.get("arm"))
    if cls in ("EncodedSequence", "StripedSequence", "StripedScores"):
        L = int(spec["L"])
        ranks = seq_ranks(L, protein)
        text = seq_text(L, protein)
        R = (L + COLS - 1) // COLS
    if cls == "EncodedSequence":
        o = Obj(cls, lightmotif.EncodedSequence(text, protein=protein))
        o.length, o.elements = L, ranks
        o.buffer, o.alloc = True, L
        o.layouts = [((L,), {(i,): ranks[i] for i in range(L)})]
        o.desc = "the %d symbol ranks" % L
        return o
    if cls == "StripedSequence":
        s = lightmotif.stripe(text, protein=protein)
        s, wrap, cap, realloc, copied = apply_history(s, spec.get("history", []), protein, R)
        o = Obj(cls, s)
        o.buffer, o.alloc = True, (R + wrap) * COLS
        exp = {(c, r): (ranks[c * R + r] if c * R + r < L else K - 1) for c in range(COLS) for r in range(R)}
        o.layouts = [((COLS, R), exp)]
        o.key = (wrap, cap)
        o.category = "reused-with-reallocation" if realloc else ("reused-within-capacity" if wrap > 0 else "fresh")
        if copied:
            o.category += "+copy"
        o.desc = "symbol at (column c, row r) = position c*%d + r of the %d symbols (wildcard past the end), shape (32, %d)" % (R, L, R)
        return o
    if cls == "StripedScores":
        M = int(spec["M"])
        s = lightmotif.stripe(text, protein=protein)
        s, _, _, _, _ = apply_history(s, spec.get("history", []), protein, R)
        sc = cached_pssm(M, protein).calculate(s)
        o = Obj(cls, sc)
        n = L - M + 1 if L >= M else 0
        Rs = R if L >= M else 0
        allsc = score_model(ranks, L, M, protein, Rs)
        o.length, o.elements = n, allsc[:n]
        o.buffer, o.alloc = True, Rs * COLS * 4
        o.layouts = [((COLS, Rs), {(c, r): allsc[c * Rs + r] for c in range(COLS) for r in range(Rs)})]
        # cells of positions >= len stand for no logical element: the statement defines no value for them, so they
        # only have to lie inside the object (how many equal the wildcard-padded window score is reported in a note)
        o.free = {(c, r) for c in range(COLS) for r in range(Rs) if c * Rs + r >= n}
        o.desc = "score at (column c, row r) = position c*%d + r, %d scores, shape (32, %d)" % (Rs, n, Rs)
        return o
    M = int(spec["M"])
    if cls == "CountMatrix":
        o = Obj(cls, make_counts(M, protein))
        o.length, o.elements = M, [[count_cell(i, k) for k in range(K)] for i in range(M)]
    elif cls == "WeightMatrix":
        o = Obj(cls, make_counts(M, protein).normalize())
        o.length, o.elements, o.rel = M, [weight_row(i, protein) for i in range(M)], 1e-6
        o.view_rel = 1e-6
    elif cls == "ScoringMatrix" and spec.get("history") == [["rc"]]:
        # the object returned by reverse_complement(): rows reversed, columns complemented
        assert not protein
        a = alpha(False)
        comp = {"A": "T", "T": "A", "C": "G", "G": "C", "N": "N"}
        p = make_pssm(M, False).reverse_complement()
        o = Obj(cls, p)
        o.length, o.elements = M, [[score_cell(M - 1 - i, a.index(comp[a[k]])) for k in range(K)] for i in range(M)]
        o.buffer = True
        o.category = "reverse complement"
    elif cls == "ScoringMatrix":
        p = make_pssm(M, protein)
        if spec.get("history"):
            for op in spec["history"]:
                if op[0] == "used":
                    p.calculate(lightmotif.stripe(seq_text(64, protein), protein=protein))
                    _ = p.score_distribution
                    p.pvalue(1.0)
                else:
                    raise ValueError("unknown op %r" % (op,))
        o = Obj(cls, p)
        o.length, o.elements = M, [[score_cell(i, k) for k in range(K)] for i in range(M)]
        o.buffer = True
        o.category = "used" if spec.get("history") else "fresh"
    elif cls == "ScoreDistribution" and spec.get("history"):
        # the distribution of a REVERSE COMPLEMENT taken after the original matrix was queried (cached distribution),
        # under a background that is not strand-symmetric: it must be the reverse complement's own survival function
        assert not protein and spec["history"] == [["rc_after_pvalue"]]
        a = alpha(False)
        freqs = {"A": 0.4, "C": 0.25, "T": 0.1, "G": 0.25}
        comp = {"A": "T", "T": "A", "C": "G", "G": "C", "N": "N"}
        orig = lightmotif.ScoringMatrix({sym: [dist_cell(i, k) for i in range(M)] for k, sym in enumerate(a)}, background=freqs)
        orig.pvalue(1.0)
        _ = orig.score_distribution
        rc = orig.reverse_complement()
        o = Obj(cls, rc.score_distribution)

        def rc_cell(i, k):
            return dist_cell(M - 1 - i, a.index(comp[a[k]]))
        sf = sf_model(M, False, rc_cell, background=[freqs.get(sym, 0.0) for sym in a])
        o.buffer, o.alloc = True, len(sf) * 8
        o.layouts = [((len(sf),), {(i,): sf[i] for i in range(len(sf))})]
        o.view_rel = 1e-9
        o.keep = (orig, rc)
        o.category = "reverse complement of a queried matrix"
        o.desc = "the %d values of the discretised survival function of the reverse complement" % len(sf)
        return o
    elif cls == "ScoreDistribution" and spec.get("background") == "wildcard_mass":
        # a background that gives the WILDCARD a frequency (accepted by ScoringMatrix(values, background=...)): the words
        # containing the wildcard take part in the survival function
        assert not protein
        a = alpha(False)
        freqs = {"A": 0.25, "C": 0.125, "T": 0.125, "G": 0.25, "N": 0.25}
        p = lightmotif.ScoringMatrix({sym: [dist_cell(i, k) for i in range(M)] for k, sym in enumerate(a)}, background=freqs)
        o = Obj(cls, p.score_distribution)
        sf = sf_model(M, False, dist_cell, background=[freqs[sym] for sym in a])
        o.buffer, o.alloc = True, len(sf) * 8
        o.layouts = [((len(sf),), {(i,): sf[i] for i in range(len(sf))})]
        o.view_rel = 1e-9
        o.keep = p
        o.category = "background with wildcard mass"
        o.desc = "the %d values of the discretised survival function under a background with wildcard frequency 0.25" % len(sf)
        return o
    elif cls == "ScoreDistribution":
        p = make_pssm(M, protein, "dist")
        o = Obj(cls, p.score_distribution)
        sf = sf_model(M, protein, dist_cell)
        o.buffer, o.alloc = True, len(sf) * 8
        o.layouts = [((len(sf),), {(i,): sf[i] for i in range(len(sf))})]
        o.view_rel = 1e-9
        o.keep = p
        o.desc = "the %d values of the discretised survival function" % len(sf)
        return o
    else:
        raise ValueError("unknown class %r" % cls)
    # dense K-column matrices: either orientation is accepted, every logical cell exactly once
    el = o.elements
    o.alloc = M * row_stride(protein) * (4)
    o.layouts = [((M, K), {(i, k): el[i][k] for i in range(M) for k in range(K)}),
                 ((K, M), {(k, i): el[i][k] for i in range(M) for k in range(K)})]
    o.desc = "the %d x %d logical cells (view[i][j] == obj[i][j], or its transpose), no padding column" % (M, K)
    return o


# ----------------------------------------------------------------------------- checks

def jint(i):
    return i if abs(i) < 2 ** 53 else str(i)


def short(x):
    s = repr(x)
    return s if len(s) <= 160 else s[:157] + "..."


def check_index(rep, spec, o, index):
    """One transition: obj[index]. Returns True when it behaved like a Python sequence."""
    n = o.length
    r = call(lambda: o.obj[index])
    case = dict(spec, kind="index", index=jint(index))
    if 0 <= index < n:
        region, want = "non-negative index", o.elements[index]
    elif -n <= index < 0:
        region, want = "negative index", o.elements[index + n]
    else:
        region, want = "out-of-range index", None
    if r[0] == "exc":
        name = r[1]
        if want is None and (name == "IndexError" or (name == "OverflowError" and not (-2 ** 63 <= index < 2 ** 63))):
            return True
        expected = "IndexError" if want is None else short(want)
        rep.violation("C18 %s getitem %s %s" % (o.cls, region, name),
                      "%s (len %d)[%d] raised %s(%s); expected %s" % (o.cls, n, index, name, r[2][:120], expected), case)
        return False
    if want is None:
        rep.violation("C18 %s getitem %s no IndexError" % (o.cls, region),
                      "%s (len %d)[%d] returned %s; expected IndexError" % (o.cls, n, index, short(r[1])), case)
        return False
    if not same(r[1], want, o.rel):
        rep.violation("C18 %s getitem %s wrong element" % (o.cls, region),
                      "%s (len %d)[%d] returned %s; expected %s" % (o.cls, n, index, short(r[1]), short(want)), case)
        return False
    return True


def check_len(rep, spec, o):
    r = call(len, o.obj)
    if r[0] == "exc" or r[1] != o.length:
        what = r[1] if r[0] == "exc" else "wrong"
        rep.violation("C18 %s len %s" % (o.cls, what), "len(%s) gave %s; expected %d" % (o.cls, short(r[1:]), o.length),
                      dict(spec, kind="len"))
        return False
    return True


def check_iter(rep, spec, o):
    r = call(list, o.obj)
    if r[0] == "exc":
        rep.violation("C18 %s iteration %s" % (o.cls, r[1]), "list(%s of len %d) raised %s(%s)" % (o.cls, o.length, r[1], r[2][:120]),
                      dict(spec, kind="iter"))
        return False
    if not same(r[1], list(o.elements), o.rel):
        rep.violation("C18 %s iteration wrong elements" % o.cls,
                      "list(%s) gave %s; expected %s" % (o.cls, short(r[1]), short(list(o.elements))), dict(spec, kind="iter"))
        return False
    return True


def index_set(n):
    return list(range(-n - 2, n + 2)) + HUGE


OUTSIDE = "<outside the object>"


def view_meta(v):
    return {"format": v.format, "itemsize": v.itemsize, "ndim": v.ndim, "shape": list(v.shape),
            "strides": list(v.strides), "readonly": v.readonly, "nbytes": v.nbytes}


def read_cells(v, alloc):
    """{index tuple: value | OUTSIDE} for every cell the view exposes; never touches bytes past `alloc`."""
    shape, strides, isz, nd = v.shape, v.strides, v.itemsize, v.ndim
    cells = {}
    n_out = 0
    lo = sum((s - 1) * st for s, st in zip(shape, strides) if st < 0 and s > 0)
    hi = sum((s - 1) * st for s, st in zip(shape, strides) if st > 0 and s > 0) + isz
    if all(s > 0 for s in shape) and lo >= 0 and hi <= alloc:
        data = v.tolist()
        if nd == 1:
            return {(i,): x for i, x in enumerate(data)}, 0
        return {(i, j): x for i, row in enumerate(data) for j, x in enumerate(row)}, 0
    for idx in itertools.product(*[range(s) for s in shape]):
        off = sum(i * st for i, st in zip(idx, strides))
        if off < 0 or off + isz > alloc:
            cells[idx] = OUTSIDE
            n_out += 1
        else:
            cells[idx] = v[idx[0]] if nd == 1 else v[idx]
    return cells, n_out


def check_view(rep, spec, o, notes=None):
    """One transition: memoryview(obj), every exposed cell compared. Returns 'ok' | 'nobuffer' | 'bad'."""
    case = dict(spec, kind="view")
    n_logical = len(o.layouts[0][1]) if o.layouts else 0
    empty = n_logical == 0
    # a view owns a reference to its exporter while it lives and gives it back when released: three take-and-release
    # cycles must leave the reference count where it was (a borrowed reference would free the object under its owners)
    if o.buffer:
        import sys
        before = sys.getrefcount(o.obj)
        held = None
        for _ in range(3):
            t = call(memoryview, o.obj)
            if t[0] != "ok":
                break
            held = sys.getrefcount(o.obj)
            t[1].release()
            t = None
        after = sys.getrefcount(o.obj)
        if held is not None and (after != before or held != before + 1):
            rep.violation("C18 %s buffer reference count" % o.cls,
                          "reference count of the exporter %d before, %d while a view is held, %d after three take-and-release cycles (expected n, n+1, n)" % (before, held, after), case)
            return "bad"
    r = call(memoryview, o.obj)
    if r[0] == "exc":
        if r[1] == "TypeError" and "bytes-like" in r[2] and not o.buffer:
            return "nobuffer"
        rep.violation("C18 %s buffer %s%s" % (o.cls, "of empty object " if empty else "", r[1]),
                      "memoryview(%s) raised %s(%s); expected a view of %s" % (o.cls, r[1], r[2][:120], o.desc), case)
        return "bad"
    v = r[1]
    try:
        meta = view_meta(v)
        if notes is not None:
            notes.append(meta)
        shape = tuple(v.shape)
        nd = v.ndim
        want_nd = len(o.layouts[0][0])
        if nd != want_nd or len(shape) != nd or len(v.strides) != nd:
            rep.violation("C18 %s buffer ndim" % o.cls, "view %s; expected %d dimensions for %s" % (meta, want_nd, o.desc), case)
            return "bad"
        total = 1
        for s in shape:
            total *= s
        if total > 4000000 or any(s < 0 for s in shape):
            rep.violation("C18 %s buffer shape" % o.cls, "view %s; expected %s" % (meta, o.desc), case)
            return "bad"
        cells, n_out = read_cells(v, o.alloc)
        rel = o.view_rel
        verdicts = []
        for want_shape, exp in o.layouts:
            if empty:
                ok = total == 0
                bad = None
            elif shape != want_shape:
                ok, bad = False, None
            else:
                bad = [idx for idx in sorted(exp) if cells.get(idx, OUTSIDE) is OUTSIDE
                       or (idx not in o.free and not same(cells[idx], exp[idx], rel))]
                if o.free and notes is not None:
                    notes.append({"free": len(o.free), "free_differ": sum(
                        1 for idx in o.free if cells.get(idx, OUTSIDE) is not OUTSIDE and not same(cells[idx], exp[idx], rel))})
                ok = not bad and len(cells) == len(exp)
            verdicts.append((ok, want_shape, bad))
        if any(ok for ok, _, _ in verdicts):
            return "ok"
        # ---- classify the failure (one signature per class of failure)
        shapes_ok = [(ws, bad) for ok, ws, bad in verdicts if bad is not None]
        if not shapes_ok:
            if empty:
                sig, why = "shape of empty object", "an empty object must expose no element"
            elif total != n_logical:
                sig, why = "shape", "shape exposes %d cells, the object has %d logical elements" % (total, n_logical)
            else:
                sig, why = "shape", "right number of cells in the wrong arrangement"
            rep.violation("C18 %s buffer %s" % (o.cls, sig),
                          "view %s: %s (%d cells outside the object); expected shape %s: %s"
                          % (meta, why, n_out, " or ".join(str(list(ws)) for _, ws, _ in verdicts), o.desc), case)
            return "bad"
        ws, bad = shapes_ok[0]
        idx = bad[0]
        got = cells.get(idx, OUTSIDE)
        exp = [e for s_, e in o.layouts if s_ == ws][0][idx]
        sig = "element mismatch"
        detail = ""
        if o.cls in ("CountMatrix", "WeightMatrix", "ScoringMatrix") and nd == 2:
            K = len(alpha(bool(spec.get("protein"))))
            M = int(spec["M"])
            isz = v.itemsize
            rs = row_stride(bool(spec.get("protein")))
            if shape == (K, M) and tuple(v.strides) == (rs * isz, isz):
                sig = "shape transposed"
                detail = " - shape is (columns=%d, rows=%d) but the strides are those of the row-major (rows, columns) matrix with row stride %d" % (K, M, rs)
        if n_out:
            detail += "; %d of %d exposed cells lie outside the object's memory (not read)" % (n_out, total)
        rep.violation("C18 %s buffer %s" % (o.cls, sig),
                      "view %s: %d of %d cells wrong, first view%s = %s, expected %s%s; expected contents: %s"
                      % (meta, len(bad), n_logical, list(idx), short(got), short(exp), detail, o.desc), case)
        return "bad"
    finally:
        v.release()


# ----------------------------------------------------------------------------- spaces

INDEX_DESC = ("complete product: every class with __getitem__/__len__ (EncodedSequence x 3 dispatcher arms, CountMatrix, "
              "WeightMatrix, ScoringMatrix {fresh, used for scoring, returned by reverse_complement()}, StripedScores x 3 arms x {fresh sequence, sequence already "
              "widened by a 33-wide motif, sequence scored with a 2-wide / 2- then 5-wide motif before (look-ahead rows grow)}) x DNA/protein x sequence lengths %s x motif widths %s (0 = empty matrix) x EVERY "
              "integer index in [-len-2, len+1] and +-2**62, +-2**63, -2**63-1; plus len() and list(obj) per object. "
              "One evaluation = one obj[i] / len / list call compared with the model element or IndexError; "
              "state = one object, transition = one call.")
VIEW_DESC = ("complete product: memoryview(obj) of every buffer-exporting class on freshly built objects - EncodedSequence "
             "(lengths %s x 3 arms), StripedSequence (same, no look-ahead rows yet), ScoringMatrix (also the one returned by reverse_complement()) and ScoreDistribution "
             "(widths %s; 0 = empty ScoringMatrix; no distribution is requested from an empty matrix; for DNA widths <= 8 also the distribution of a reverse complement taken after the original was queried, under a strand-asymmetric background), StripedScores (every length x "
             "width x 3 arms x {fresh sequence object, object scored before with narrower motifs (2; 2 then 5), a wider one (33), a copy}; cells of positions >= len stand for no logical element and only have to lie inside the object) - x DNA/protein; "
             "CountMatrix / WeightMatrix probed (no buffer support = nothing to check). One evaluation = one view: "
             "format/itemsize/ndim/shape/strides recorded and EVERY exposed cell compared with the logical element it stands "
             "for; the exporter's reference count is n / n+1 / n before / during / after three take-and-release cycles; cells whose offset lies outside the object's memory are counted, not read.")
REUSE_DESC = ("explicit-state BFS to fixpoint over reuse histories of ONE real StripedSequence per (alphabet, length %s, arm): "
              "operations {pssm.calculate with motif widths %s, copy}; canonical key (look-ahead rows, modelled row capacity); "
              "after EVERY transition a fresh view is taken and every cell compared (logical contents = the L symbols; "
              "look-ahead rows must not show up as sequence rows); histories cover fresh / reused within the 32 reserved rows "
              "/ reused with reallocation (width 40) / copies. Plus ScoringMatrix views and indexing after the matrix was used "
              "by calculate / score_distribution / pvalue.")
STALE_DESC = ("histories on ONE striped sequence (L=100; DNA under the default and the generic arm, protein), meant to run under valgrind: "
              "ops {view = memoryview(seq) kept alive, release, copy (continue on the copy, the original and its views stay alive), calculate(width M), scan(width M)}; "
              "27 histories: a view held across calculate / scan with widths that fit the rows reserved when striping (5, 15, 18, 20, 32, 33) or not (34, 40); "
              "the same on a COPY (no spare rows: widths 2, 5, 40) and on a copy of a configured sequence; views of the original while the copy is reused and vice versa; "
              "two views with one released; released-then-reused-then-viewed. After every operation every live view is read in full through the exported pointer. "
              "A reuse refused with BufferError while a view is alive must leave the view intact and go through once the views are released. "
              "Values cannot decide this clause (freed memory usually keeps its bytes); the memory monitor does.")


def space_index(ctx, rep):
    L_ = sizes(ctx)
    W_ = [0] + widths(ctx)
    rep.space("index", INDEX_DESC % (L_, W_))
    specs = []
    for protein in (False, True):
        for L in L_:
            for arm in ARMS:
                specs.append({"cls": "EncodedSequence", "protein": protein, "L": L, "arm": arm})
        for M in W_:
            specs.append({"cls": "CountMatrix", "protein": protein, "M": M})
            specs.append({"cls": "WeightMatrix", "protein": protein, "M": M})
            specs.append({"cls": "ScoringMatrix", "protein": protein, "M": M})
            if M > 0:
                specs.append({"cls": "ScoringMatrix", "protein": protein, "M": M, "history": [["used"]]})
                if not protein:
                    specs.append({"cls": "ScoringMatrix", "protein": False, "M": M, "history": [["rc"]]})
        for L in L_:
            for M in widths(ctx):
                for arm in ARMS:
                    specs.append({"cls": "StripedScores", "protein": protein, "L": L, "M": M, "arm": arm})
                    specs.append({"cls": "StripedScores", "protein": protein, "L": L, "M": M, "arm": arm,
                                  "history": [["calc", 33]]})
                    # the SAME sequence object scored with a NARROWER motif first (its look-ahead rows then grow)
                    if M > 2:
                        specs.append({"cls": "StripedScores", "protein": protein, "L": L, "M": M, "arm": arm,
                                      "history": [["calc", 2]]})
                    if M > 5:
                        specs.append({"cls": "StripedScores", "protein": protein, "L": L, "M": M, "arm": arm,
                                      "history": [["calc", 2], ["calc", 5]]})
    for k, spec in enumerate(specs):
        if not ctx.mine(k):
            continue
        if ctx.out_of_time():
            rep.cap("index: wall cap after %d of %d objects" % (k, len(specs)))
            break
        try:
            o = build(spec)
        except BaseException as e:  # noqa: B036
            if isinstance(e, (KeyboardInterrupt, SystemExit)):
                raise
            rep.violation("C18 %s construction %s" % (spec["cls"], type(e).__name__),
                          "building %s raised %s(%s)" % (spec, type(e).__name__, str(e)[:200]), dict(spec, kind="build"))
            continue
        trans = 0
        check_len(rep, spec, o)
        check_iter(rep, spec, o)
        rep.eval(o.length > 0, 2)
        trans += 2
        idxs = index_set(o.length)
        for i in idxs:
            check_index(rep, spec, o, i)
        rep.eval(True, len(idxs))
        trans += len(idxs)
        rep.add_states(1, trans)
        if spec["cls"] in ("CountMatrix", "StripedScores") and o.length == 5:
            rep.sample(dict(spec, kind="index", indices="%d..%d and %s" % (-o.length - 2, o.length + 1, HUGE), len=o.length))
    vxref.force(None)


def space_view_fresh(ctx, rep):
    L_ = sizes(ctx)
    W_ = [0] + widths(ctx)
    rep.space("view_fresh", VIEW_DESC % (L_, W_))
    specs = []
    for protein in (False, True):
        for L in L_:
            for arm in ARMS:
                specs.append({"cls": "EncodedSequence", "protein": protein, "L": L, "arm": arm})
                specs.append({"cls": "StripedSequence", "protein": protein, "L": L, "arm": arm, "history": []})
        for M in W_:
            specs.append({"cls": "CountMatrix", "protein": protein, "M": M})
            specs.append({"cls": "WeightMatrix", "protein": protein, "M": M})
            specs.append({"cls": "ScoringMatrix", "protein": protein, "M": M})
            if M > 0 and not protein:
                specs.append({"cls": "ScoringMatrix", "protein": False, "M": M, "history": [["rc"]]})
            if M > 0:
                specs.append({"cls": "ScoreDistribution", "protein": protein, "M": M})
                if not protein and M <= 8:
                    specs.append({"cls": "ScoreDistribution", "protein": False, "M": M, "history": [["rc_after_pvalue"]]})
                    specs.append({"cls": "ScoreDistribution", "protein": False, "M": M, "background": "wildcard_mass"})
        for L in L_:
            for M in widths(ctx):
                for arm in ARMS:
                    specs.append({"cls": "StripedScores", "protein": protein, "L": L, "M": M, "arm": arm})
                    # scores of a sequence object that was scored with narrower / wider motifs before
                    for hist in ([["calc", 2]], [["calc", 2], ["calc", 5]], [["calc", 33]], [["calc", 5], ["copy"]]):
                        if hist[-1][0] == "copy" or hist[-1][1] != M:
                            specs.append({"cls": "StripedScores", "protein": protein, "L": L, "M": M, "arm": arm, "history": hist})
    nobuf = set()
    metas = {}
    nbytes_noted = set()
    free_stats = [0, 0]
    for k, spec in enumerate(specs):
        if not ctx.mine(k):
            continue
        if ctx.out_of_time():
            rep.cap("view_fresh: wall cap after %d of %d objects" % (k, len(specs)))
            break
        o = build(spec)
        m = []
        res = check_view(rep, spec, o, m)
        if res == "nobuffer":
            nobuf.add(spec["cls"])
            rep.eval(False)
        else:
            rep.eval(bool(o.layouts and o.layouts[0][1]))
            rep.add_states(1, 1)
        for x in m[1:]:
            free_stats[0] += x["free"]
            free_stats[1] += x["free_differ"]
        if m:
            meta = m[0]
            if spec["cls"] not in metas:
                metas[spec["cls"]] = (dict(spec), meta)
            if meta["nbytes"] != _prod(meta["shape"]) * meta["itemsize"] and spec["cls"] not in nbytes_noted:
                nbytes_noted.add(spec["cls"])
                rep.note("%s: memoryview.nbytes (Py_buffer.len) is %s style, not product(shape)*itemsize; e.g. %s -> %s "
                         "(not part of the statement, not counted as a violation; bytes(view) raises SystemError when it is -1)"
                         % (spec["cls"], "-1" if meta["nbytes"] == -1 else "rows*columns", _brief(spec), meta))
            if spec.get("L") == 33 or spec.get("M") == 8:
                rep.sample(dict(spec, kind="view", exposed=meta))
    if free_stats[0]:
        rep.note("StripedScores views expose %d cells for positions >= len (inherent to the (32, rows) shape; the statement defines "
                 "no value for them, not checked); %d of them differ from the score of the wildcard-padded window"
                 % (free_stats[0], free_stats[1]))
    for c in sorted(nobuf):
        rep.note("%s does not export the buffer protocol (memoryview raises TypeError): no view to check" % c)
    for c in sorted(metas):
        rep.note("view as exposed, %s %s: %s" % (c, _brief(metas[c][0]), metas[c][1]))
    vxref.force(None)


def _prod(xs):
    p = 1
    for x in xs:
        p *= x
    return p


def _brief(spec):
    return {k: v for k, v in spec.items() if k in ("protein", "L", "M", "arm", "history")}


def reuse_ops(ctx):
    if ctx.quick():
        return [["calc", 5], ["calc", 15], ["calc", 33], ["calc", 40], ["copy"]]
    return [["calc", 2], ["calc", 5], ["calc", 15], ["calc", 33], ["calc", 40], ["calc", 70], ["copy"]]


def space_view_reuse(ctx, rep):
    L_ = sizes(ctx)
    ops = reuse_ops(ctx)
    rep.space("view_reuse", REUSE_DESC % (L_, [op[1] for op in ops if op[0] == "calc"]))
    cats = {}
    roots = [(protein, L, arm) for protein in (False, True) for L in L_ for arm in ARMS]
    max_depth = 12
    for k, (protein, L, arm) in enumerate(roots):
        if not ctx.mine(k):
            continue
        if ctx.out_of_time():
            rep.cap("view_reuse: wall cap after %d of %d roots" % (k, len(roots)))
            break
        base = {"cls": "StripedSequence", "protein": protein, "L": L, "arm": arm}
        root = build(dict(base, history=[]))
        check_view(rep, dict(base, history=[]), root)
        rep.eval(L > 0)

        def step(hist, op):
            spec = dict(base, history=[ops[h] for h in hist] + [ops[op]])
            o = build(spec)
            check_view(rep, spec, o)
            rep.eval(L > 0)
            cats[o.category] = cats.get(o.category, 0) + 1
            if L == 100 and len(hist) == 1 and ops[op][0] == "calc" and ops[op][1] == 40:
                rep.sample(dict(spec, kind="view", state=list(o.key), category=o.category))
            return o.key

        st = bfs(root.key, max_depth, lambda hist: len(ops), step, ctx.out_of_time)
        rep.add_states(st["states"], st["transitions"] + 1, depth=st["max_depth"])
        if st["depth_capped"]:
            rep.cap("view_reuse: BFS for %s stopped at depth %d / wall cap with %d histories left" % (base, max_depth, st["frontier_left"]))
    for c in sorted(cats):
        rep.note("view_reuse: %d transitions ended in a '%s' state" % (cats[c], c))
    # ScoringMatrix after use (its buffer and rows must not change)
    W_ = widths(ctx)
    n0 = len(roots)
    for k, (protein, M) in enumerate([(p, M) for p in (False, True) for M in W_]):
        if not ctx.mine(n0 + k) or ctx.out_of_time():
            continue
        spec = {"cls": "ScoringMatrix", "protein": protein, "M": M, "history": [["used"]]}
        o = build(spec)
        check_view(rep, spec, o)
        rep.eval(True)
        rep.add_states(1, 1)
    vxref.force(None)


def stale_history(rep, spec):
    """Run one history of {view, release, copy, calc M, scan M} on ONE striped DNA/protein sequence object; every view
    still alive is read (all its bytes) after every later operation. Returns (sum before, sum after, expected sum) of the
    FIRST view for the record. A reuse the library refuses with BufferError while a view is alive leaves everything in
    place (the buffer protocol's answer, as for bytearray); any other exception, or a BufferError with no view alive,
    is a violation. Whether the reads touch freed memory is decided by the memory monitor, not by the values."""
    protein, L = bool(spec["protein"]), int(spec["L"])
    vxref.force(spec.get("arm"))
    ranks = seq_ranks(L, protein)
    K = len(alpha(protein))
    R = (L + COLS - 1) // COLS
    expected = sum(ranks) + (COLS * R - L) * (K - 1)
    seq = lightmotif.stripe(seq_text(L, protein), protein=protein)
    views, old = [], []
    first = [None, None]

    def total(v):
        # cell by cell through shape / strides (the exporter's Py_buffer.len counts the look-ahead rows too once the
        # sequence has been configured, so bytes(v) is not the logical content; len is outside the statement)
        return sum(v[c, r] for c in range(v.shape[0]) for r in range(v.shape[1]))

    def read_all(after):
        for v in views:
            got = total(v)
            if first[0] is None:
                first[0] = got
            first[1] = got
            if got != expected:
                rep.violation("C18 StripedSequence view held across a reuse shows different bytes",
                              "sum(bytes(view)) = %d after %s, logical contents %d" % (got, after, expected), dict(spec))

    for op in spec["history"]:
        kind = op[0]
        if kind == "view":
            views.append(memoryview(seq))
        elif kind == "release":
            if views:
                views.pop(0).release()
        elif kind == "copy":
            old.append(seq)
            seq = seq.copy()
        elif kind in ("calc", "scan"):
            M = int(op[1])
            pssm = cached_pssm(M, protein)
            if kind == "calc":
                r = call(pssm.calculate, seq)
            else:
                r = call(lambda: list(lightmotif.scan(pssm, seq, threshold=1e9, block_size=3)))
            if r[0] == "exc":
                mine = [v for v in views if v.obj is seq]
                if r[1] == "BufferError" and mine:
                    rep.note("stale_view: the library refuses the growing reuse while a view is held (%s: %s) - the view stays valid" % (r[1], r[2][:120]))
                    # once the views are released the same reuse must go through
                    keep = [v for v in views if v.obj is not seq]
                    probe = [total(v) for v in mine]
                    for v in mine:
                        v.release()
                    views[:] = keep
                    r2 = call(pssm.calculate, seq) if kind == "calc" else call(lambda: list(lightmotif.scan(pssm, seq, threshold=1e9, block_size=3)))
                    if r2[0] == "exc" and not (protein and kind == "scan" and "Panic" not in r2[1]):
                        rep.violation("C18 StripedSequence reuse refused without a live view %s" % r2[1],
                                      "%s(width %d) after releasing every view raised %s(%s)" % (kind, M, r2[1], r2[2][:120]), dict(spec))
                    if any(b != expected for b in probe):
                        rep.violation("C18 StripedSequence view held across a refused reuse shows different bytes", "contents changed", dict(spec))
                elif protein and kind == "scan" and "Panic" not in r[1]:
                    pass  # documented: the scanner is DNA only
                else:
                    rep.violation("C18 StripedSequence reuse while a view is held %s" % r[1],
                                  "%s(width %d) in history %r raised %s(%s)" % (kind, M, spec["history"], r[1], r[2][:120]), dict(spec))
        elif kind != "read":
            raise ValueError("unknown stale-history op %r" % (op,))
        read_all(repr(op))
    for v in views:
        v.release()
    vxref.force(None)
    return first[0] if first[0] is not None else expected, first[1] if first[1] is not None else expected, expected


def stale_histories():
    hs = []
    # a view held across a reuse that fits the rows reserved when striping (5, 15, 33) or does not (40)
    for M in (5, 15, 33, 40):
        hs.append([["view"], ["calc", M], ["read"]])
    for M in (5, 33, 34, 40):
        hs.append([["view"], ["scan", M], ["read"]])
    # widths around the boundary of what the reserved rows hold (33 fits, 34 does not) and mid-range widths
    for M in (18, 20, 32, 34):
        hs.append([["view"], ["calc", M], ["read"]])
    hs.append([["copy"], ["view"], ["scan", 2], ["read"]])
    hs.append([["calc", 5], ["view"], ["scan", 34], ["read"]])
    # a copy has no spare rows: every reuse of a copy that adds look-ahead rows moves its matrix
    for M in (2, 5, 40):
        hs.append([["copy"], ["view"], ["calc", M], ["read"]])
    hs.append([["copy"], ["view"], ["scan", 5], ["read"]])
    hs.append([["calc", 5], ["copy"], ["view"], ["calc", 5], ["calc", 15], ["read"]])
    # the view of the ORIGINAL stays valid whatever happens to its copy, and the other way round
    hs.append([["view"], ["copy"], ["calc", 40], ["read"]])
    hs.append([["copy"], ["view"], ["copy"], ["calc", 40], ["read"]])
    # two views, one released: still exported; all released: the reuse goes through and a later view is fresh
    hs.append([["view"], ["view"], ["release"], ["calc", 40], ["read"]])
    hs.append([["view"], ["release"], ["calc", 40], ["view"], ["calc", 15], ["read"]])
    hs.append([["view"], ["calc", 15], ["view"], ["calc", 40], ["read"]])
    return hs


def space_stale(ctx, rep):
    rep.space("stale_view", STALE_DESC)
    for arm in (None, "generic"):
        for protein in (False, True):
            for hist in stale_histories():
                if protein and arm is not None:
                    continue
                spec = {"cls": "StripedSequence", "protein": protein, "L": 100, "arm": arm, "kind": "stale_view", "history": hist}
                if len(hist) == 3 and hist[0] == ["view"] and hist[1][0] == "calc" and not protein:
                    # the module name of the first family is kept (known_findings.txt refers to it)
                    module = "C18 view held across calculate(width %d) arm=%s" % (hist[1][1], arm or "default")
                else:
                    module = "C18 views held across history %s%s arm=%s" % ("protein " if protein else "", "".join("[%s]" % " ".join(str(x) for x in op) for op in hist), arm or "default")
                if not vxpy.crumb({"module": module, "case": spec}):
                    continue
                before, checksum, expected = stale_history(rep, spec)
                rep.eval(True)
                rep.add_states(len(hist) + 1, len(hist), depth=len(hist))
                rep.sample(dict(spec, checksum_before=before, checksum_after=checksum, expected=expected))
    rep.note("stale_view: a view held across a reuse is decided by the memory monitor (the freed block usually still holds the right bytes)")


def run(ctx, rep):
    os.environ["RUST_BACKTRACE"] = "0"   # hundreds of expected-to-be-caught panics would each print a backtrace
    if ctx.only is not None and ctx.wants("stale_view"):
        if ctx.shard == 0:
            space_stale(ctx, rep)
        else:
            rep.space("stale_view", STALE_DESC)
    if ctx.wants("index"):
        space_index(ctx, rep)
    if ctx.wants("view_fresh"):
        space_view_fresh(ctx, rep)
    if ctx.wants("view_reuse"):
        space_view_reuse(ctx, rep)
    if not (ctx.only is not None and ctx.wants("stale_view")):
        rep.not_covered_("clause (d), views held ACROSS reuses of the StripedSequence (histories of the stale_view space): cannot be "
                         "decided by comparing values; run with --only stale_view under valgrind (PYTHONMALLOC=malloc)")
    rep.not_covered_("buffer requests other than memoryview()'s PyBUF_FULL_RO (e.g. writable or C-contiguous-only requests)")
    vxref.force(None)


def replay(ctx, rep, case):
    os.environ["RUST_BACKTRACE"] = "0"
    kind = case.get("kind")
    space = case.get("space") or "replay"
    rep.space(space, "replay of one recorded case")
    spec = {k: case[k] for k in ("cls", "protein", "L", "M", "arm", "history", "background") if k in case}
    try:
        if kind == "stale_view":
            before, checksum, expected = stale_history(rep, spec)
            rep.note("stale_view replay: before %d after %d expected %d" % (before, checksum, expected))
            rep.eval(True)
            return
        o = build(spec)
        if kind == "index":
            check_index(rep, spec, o, int(case["index"]))
        elif kind == "len":
            check_len(rep, spec, o)
        elif kind == "iter":
            check_iter(rep, spec, o)
        elif kind == "view":
            check_view(rep, spec, o)
        else:
            rep.machinery("C18 replay: unknown case kind %r" % (kind,))
            return
        rep.eval(True)
        rep.add_states(1, 1)
    finally:
        vxref.force(None)
