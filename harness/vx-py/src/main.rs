//! vx-py: embeds CPython exactly like lightmotif-py's own `unittest.rs` (registers
//! `lightmotif_py::init` as `lightmotif.lib`, imports the package from /repo/lightmotif-py) and
//! runs the Python-side explorer /verif/harness/pyx/main.py with this process' arguments.
//! A second built-in module, `vxref`, gives the explorer access to the dispatcher hook and to
//! reference results computed by the *core* Rust library (for the clauses of C17 that are stated
//! relative to the core library).

use pyo3::prelude::*;
use pyo3::types::{PyDict, PyList, PyModule};

mod vxref;

fn main() -> PyResult<()> {
    let args: Vec<String> = std::env::args().collect();
    let pyx = std::env::var("VX_PYX").unwrap_or_else(|_| "/verif/harness/pyx".to_string());
    let pkg = std::env::var("VX_PYPKG").unwrap_or_else(|_| "/repo/lightmotif-py".to_string());
    pyo3::prepare_freethreaded_python();
    let rc = Python::with_gil(|py| -> PyResult<i32> {
        let sys = py.import_bound("sys")?;
        let path = sys.getattr("path")?;
        let path = path.downcast::<PyList>()?;
        path.insert(0, pkg.as_str())?;
        path.insert(0, pyx.as_str())?;
        let modules = sys.getattr("modules")?;
        let modules = modules.downcast::<PyDict>()?;

        let module = PyModule::new_bound(py, "lightmotif.lib")?;
        lightmotif_py::init(py, &module)?;
        modules.set_item("lightmotif.lib", module)?;

        let r = PyModule::new_bound(py, "vxref")?;
        vxref::init(py, &r)?;
        modules.set_item("vxref", r)?;

        sys.setattr("argv", PyList::new_bound(py, &args))?;
        let main = py.import_bound("main")?;
        let rc = main.call_method0("main")?;
        Ok(rc.extract::<i32>().unwrap_or(0))
    });
    match rc {
        Ok(rc) => std::process::exit(rc),
        Err(e) => {
            Python::with_gil(|py| e.print(py));
            std::process::exit(3);
        }
    }
}
