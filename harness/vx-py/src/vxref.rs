//! `vxref`: helpers for the Python-side explorer implemented on top of the core Rust crates.

use generic_array::GenericArray;
use lightmotif::abc::{Alphabet, Background, Dna, Protein};
use lightmotif::dense::DenseMatrix;
use lightmotif::pwm::ScoringMatrix;
use lightmotif::verif::{force_backend, Forced};
use pyo3::exceptions::PyValueError;
use pyo3::prelude::*;

/// Force the arm of the runtime dispatcher ("generic" | "sse2" | "avx2" | None) on this thread.
#[pyfunction]
#[pyo3(signature = (name=None))]
fn force(name: Option<&str>) -> PyResult<()> {
    let f = match name {
        None => None,
        Some("generic") => Some(Forced::Generic),
        Some("sse2") => Some(Forced::Sse2),
        Some("avx2") => Some(Forced::Avx2),
        Some(x) => return Err(PyValueError::new_err(format!("unknown backend {}", x))),
    };
    force_backend(f);
    Ok(())
}

/// Round a Python float to f32 and back.
#[pyfunction]
fn f32r(x: f64) -> f64 {
    (x as f32) as f64
}

fn scoring<A: Alphabet>(rows: &[Vec<f32>], background: &[f32]) -> PyResult<ScoringMatrix<A>> {
    let k = <A::K as lightmotif::num::Unsigned>::USIZE;
    if background.len() != k || rows.iter().any(|r| r.len() != k) {
        return Err(PyValueError::new_err("wrong number of columns"));
    }
    // the uniform background is built by `Background::uniform()` in the library (its f32 sum need not be
    // exactly 1, e.g. 20 x 0.05 for proteins), everything else goes through the validating constructor
    let uniform = Background::<A>::uniform();
    let bg = if uniform.frequencies() == background {
        uniform
    } else {
        Background::<A>::new(GenericArray::<f32, A::K>::from_iter(background.iter().cloned()))
            .map_err(|_| PyValueError::new_err("invalid background"))?
    };
    let data = DenseMatrix::<f32, A::K>::from_rows(rows.iter().map(|r| r.as_slice()).collect::<Vec<_>>());
    Ok(ScoringMatrix::new(bg, data))
}

/// Core MEME-style p-value of `score` for the scoring matrix `rows` (row-major, K columns).
#[pyfunction]
fn core_meme_pvalue(rows: Vec<Vec<f32>>, background: Vec<f32>, protein: bool, score: f32) -> PyResult<f64> {
    if protein {
        Ok(scoring::<Protein>(&rows, &background)?.to_score_distribution().pvalue(score))
    } else {
        Ok(scoring::<Dna>(&rows, &background)?.to_score_distribution().pvalue(score))
    }
}

/// Core MEME-style score for p-value `p`.
#[pyfunction]
fn core_meme_score(rows: Vec<Vec<f32>>, background: Vec<f32>, protein: bool, p: f64) -> PyResult<f32> {
    if protein {
        Ok(scoring::<Protein>(&rows, &background)?.to_score_distribution().score(p))
    } else {
        Ok(scoring::<Dna>(&rows, &background)?.to_score_distribution().score(p))
    }
}

/// Core TFM-PVALUE p-value.
#[pyfunction]
fn core_tfm_pvalue(rows: Vec<Vec<f32>>, background: Vec<f32>, protein: bool, score: f64) -> PyResult<f64> {
    if protein {
        let m = scoring::<Protein>(&rows, &background)?;
        Ok(lightmotif_tfmpvalue::TfmPvalue::new(&m).pvalue(score))
    } else {
        let m = scoring::<Dna>(&rows, &background)?;
        Ok(lightmotif_tfmpvalue::TfmPvalue::new(&m).pvalue(score))
    }
}

/// Core TFM-PVALUE score.
#[pyfunction]
fn core_tfm_score(rows: Vec<Vec<f32>>, background: Vec<f32>, protein: bool, p: f64) -> PyResult<f64> {
    if protein {
        let m = scoring::<Protein>(&rows, &background)?;
        Ok(lightmotif_tfmpvalue::TfmPvalue::new(&m).score(p))
    } else {
        let m = scoring::<Dna>(&rows, &background)?;
        Ok(lightmotif_tfmpvalue::TfmPvalue::new(&m).score(p))
    }
}

/// Silence (true) or restore (false) the default panic hook: a caught Rust panic then no longer prints
/// its message / backtrace to stderr (pyo3 still turns it into a PanicException carrying the message).
#[pyfunction]
fn quiet_panics(on: bool) {
    if on {
        std::panic::set_hook(Box::new(|_| {}));
    } else {
        let _ = std::panic::take_hook();
    }
}

pub fn init(_py: Python<'_>, m: &Bound<'_, PyModule>) -> PyResult<()> {
    m.add_function(wrap_pyfunction!(quiet_panics, m)?)?;
    m.add_function(wrap_pyfunction!(force, m)?)?;
    m.add_function(wrap_pyfunction!(f32r, m)?)?;
    m.add_function(wrap_pyfunction!(core_meme_pvalue, m)?)?;
    m.add_function(wrap_pyfunction!(core_meme_score, m)?)?;
    m.add_function(wrap_pyfunction!(core_tfm_pvalue, m)?)?;
    m.add_function(wrap_pyfunction!(core_tfm_score, m)?)?;
    Ok(())
}
