//! C09 — count -> frequency -> weight -> log-odds conversions obey their definitions (DESIGN §C09).
//!
//! Sub-spaces (all complete enumerations, no sampling):
//!   `from_sequences`         every ordered tuple of <= 3 DNA sequences of length <= 2 (unequal lengths included);
//!   `conversions`            count-matrix menu x pseudocount menu x background menu x logarithm base menu,
//!                            DNA and protein, every conversion route on every point;
//!   `score_bounds`           every wildcard-free window of every matrix of `conversions` against min_score/max_score;
//!   `background_validation`  Background::new on all 9^5 DNA arrays over {-.25,-0.1,0,.25,.5,1,1.1,1.25,NaN} (+ protein
//!                            substitution menu), from_counts / from_sequence(s) on complete small menus;
//!   `frequency_new`          FrequencyMatrix::new on rows whose sum is 1 +- {0,.005,.011,.5}.
//!
//! Oracle: `pm::ref_*` (plain f64 from the definitions of the statement); tolerances are the derived
//! bounds of `pm::tol_*` (each documents its operation count).  Only the rejecting side of validation is
//! demanded (DESIGN §6).  Rows whose total is 0 (0/0) are outside the domain and skipped.

use generic_array::GenericArray;
use lightmotif::abc::{Alphabet, Background, Dna, Protein};
use lightmotif::num::U32;
use lightmotif::pli::platform::Generic;
use lightmotif::pli::{Pipeline, Score, Stripe};
use lightmotif::pwm::{CountMatrix, FrequencyMatrix, ScoringMatrix};
use lightmotif::scores::StripedScores;
use lightmotif::seq::{EncodedSequence, StripedSequence};
use serde_json::{json, Value};
use vx_core::util::panic_class;
use vx_core::{catch, Ctx, Report};

use crate::pm::{self, BgSpec, PseudoSpec};

type Fails = Vec<(String, String)>;

fn push(f: &mut Fails, sig: String, msg: String) {
    if !f.iter().any(|x| x.0 == sig) {
        f.push((sig, msg));
    }
}

fn letter(alpha: &str, j: usize) -> char {
    pm::letters_of(alpha)[j] as char
}

// ---------------------------------------------------------------------------
// conversions
// ---------------------------------------------------------------------------

#[derive(Clone, Debug)]
pub struct ConvCase {
    pub alpha: &'static str,
    pub counts: Vec<Vec<u32>>,
    pub pseudo: PseudoSpec,
    pub bg: BgSpec,
    pub base: f32,
}

impl ConvCase {
    pub fn json(&self, check: &str) -> Value {
        json!({
            "kind": "conversion",
            "alphabet": self.alpha,
            "counts": self.counts,
            "pseudocounts": self.pseudo.json(),
            "background": self.bg.json(),
            "background_frequencies": pm::f32s_to_json(&self.bg.reference(self.counts[0].len())),
            "base": pm::f32_to_json(self.base),
            "check": check,
            "routes": "all routes are re-run on replay: to_scoring(bg) | into_scoring(bg) | to_weight(bg).to_scoring() | to_weight(None).rescale(bg).to_scoring() | the two weight routes with to_scoring_with_base(base) | min/max bounds",
            "rust_repro": self.rust_repro(),
        })
    }

    pub fn from_json(v: &Value) -> ConvCase {
        ConvCase {
            alpha: if v["alphabet"].as_str().unwrap() == "dna" {
                "dna"
            } else {
                "protein"
            },
            counts: pm::counts_from_json(&v["counts"]),
            pseudo: PseudoSpec::from_json(&v["pseudocounts"]),
            bg: BgSpec::from_json(&v["background"]),
            base: pm::f32_from_json(&v["base"]),
        }
    }

    /// A `#[test]`-shaped snippet for maintainers (the replay file is authoritative).
    fn rust_repro(&self) -> String {
        let ty = if self.alpha == "dna" {
            "Dna"
        } else {
            "Protein"
        };
        let rows: Vec<String> = self.counts.iter().map(|r| format!("{:?}", r)).collect();
        let bg = match &self.bg {
            BgSpec::Uniform => format!("Background::<{}>::uniform()", ty),
            BgSpec::New(v) => format!(
                "Background::<{}>::new(GenericArray::from_iter({:?})).unwrap()",
                ty, v
            ),
            BgSpec::FromCounts(c) => format!(
                "Background::<{}>::from_counts(&GenericArray::from_iter({:?})).unwrap()",
                ty, c
            ),
        };
        let pseudo = match &self.pseudo {
            PseudoSpec::Scalar(p) => format!("{:?}f32", p),
            PseudoSpec::PerSymbol(v) => format!("GenericArray::<f32, _>::from_iter({:?})", v),
        };
        format!(
            "let cm = CountMatrix::<{ty}>::new(DenseMatrix::from_rows([{rows}])).unwrap();\nlet bg = {bg};\nlet f = cm.to_freq({pseudo});\nlet direct = f.to_scoring(bg.clone());\nlet two_step = f.to_weight(bg.clone()).to_scoring_with_base({base:?});\nlet rescaled = f.to_weight(None).rescale(bg.clone());\nlet three_step = rescaled.to_scoring_with_base({base:?});\n// compare direct / two_step / three_step cell by cell; see the violation message for the offending cell",
            ty = ty,
            rows = rows.join(", "),
            bg = bg,
            pseudo = pseudo,
            base = self.base,
        )
    }
}

pub enum ConvOutcome {
    /// all checks ran; number of wildcard-free windows checked against min/max
    Checked { windows: u64, lost_columns: bool },
    /// a row total is 0 (0/0): outside the domain of the statement
    OutOfDomain,
    /// the menu background was rejected by its constructor (acceptance is not demanded)
    BgRejected,
    /// a library call panicked or produced something the later stages cannot use
    Aborted,
}

/// Compare a matrix of log-odds cells with the reference.
#[allow(clippy::too_many_arguments)]
fn check_scores(
    alpha: &str,
    sig_route: &str,
    route: &str,
    cells: &[Vec<f32>],
    rf: &[Vec<f64>],
    b: &[f64],
    b_old: Option<&[f64]>,
    base: f64,
    eta: f64,
    fails: &mut Fails,
) {
    if cells.len() != rf.len() {
        push(
            fails,
            format!("{} rows", sig_route),
            format!(
                "{}: matrix has {} rows, expected {}",
                route,
                cells.len(),
                rf.len()
            ),
        );
        return;
    }
    for (i, row) in rf.iter().enumerate() {
        for j in 0..row.len() {
            if let Some(old) = b_old {
                // the weight of a column whose *old* background is 0 was set to 0 by convention:
                // the frequency is gone and no rescale can recover it (not demanded)
                if old[j] == 0.0 && b[j] != 0.0 {
                    continue;
                }
            }
            let exp = pm::ref_score(row[j], b[j], base);
            let tol = if exp.is_finite() {
                pm::tol_score(exp, eta, base)
            } else {
                0.0
            };
            if let Err(class) = pm::close(cells[i][j], exp, tol) {
                let at = if b[j] == 0.0 {
                    " where background is 0"
                } else {
                    ""
                };
                push(
                    fails,
                    format!("{} score{}: {}", sig_route, at, class),
                    format!(
                        "{}: score[{}][{}] = {:?}, definition gives log_{}(({:.9e})/({:.9e})) = {:.9e} (tolerance {:.3e})",
                        route,
                        i,
                        letter(alpha, j),
                        cells[i][j],
                        base,
                        row[j],
                        b[j],
                        exp,
                        tol
                    ),
                );
            }
        }
    }
}

/// Compare a matrix of weights with the reference.
#[allow(clippy::too_many_arguments)]
fn check_weights(
    alpha: &str,
    route: &str,
    cells: &[Vec<f32>],
    rf: &[Vec<f64>],
    b: &[f64],
    b_old: Option<&[f64]>,
    rel: f64,
    fails: &mut Fails,
) {
    if cells.len() != rf.len() {
        push(
            fails,
            format!("{} rows", route),
            format!(
                "{}: matrix has {} rows, expected {}",
                route,
                cells.len(),
                rf.len()
            ),
        );
        return;
    }
    for (i, row) in rf.iter().enumerate() {
        for j in 0..row.len() {
            if let Some(old) = b_old {
                if old[j] == 0.0 && b[j] != 0.0 {
                    continue;
                }
            }
            let exp = pm::ref_weight(row[j], b[j]);
            if let Err(class) = pm::close(cells[i][j], exp, rel * exp) {
                let at = if b[j] == 0.0 {
                    " where background is 0"
                } else {
                    ""
                };
                push(
                    fails,
                    format!("{} weight{}: {}", route, at, class),
                    format!(
                        "{}: weight[{}][{}] = {:?}, definition gives ({:.9e})/({:.9e}) -> {:.9e} (0 where the background is 0; tolerance {:.3e})",
                        route,
                        i,
                        letter(alpha, j),
                        cells[i][j],
                        row[j],
                        b[j],
                        exp,
                        rel * exp
                    ),
                );
            }
        }
    }
}

/// min_score / max_score against every wildcard-free window of `sb`.
fn check_bounds<A: Alphabet>(alpha: &str, sb: &ScoringMatrix<A>, fails: &mut Fails) -> u64 {
    let k = pm::k_of::<A>();
    let cells = pm::cells_score(sb);
    let m = cells.len();
    if cells.iter().any(|r| r[..k - 1].iter().any(|x| x.is_nan())) {
        // already reported as a score mismatch; min_score would panic on the comparison
        return 0;
    }
    let (min_got, max_got) = match catch(|| (sb.min_score(), sb.max_score())) {
        Ok(x) => x,
        Err(p) => {
            push(
                fails,
                format!("min/max_score panic {}", panic_class(&p)),
                format!("min_score/max_score panicked: {}", p),
            );
            return 0;
        }
    };
    if min_got.is_nan() || max_got.is_nan() {
        push(
            fails,
            "min/max_score NaN".into(),
            format!(
                "min_score = {:?}, max_score = {:?} on a NaN-free matrix",
                min_got, max_got
            ),
        );
        return 0;
    }
    // summation bounds of the two reported sums: |reported - exact sum of the chosen cells| <= gamma_{M-1} * sum|cells|
    let abs_of = |pick: &dyn Fn(&[f32]) -> f32| -> f64 {
        cells
            .iter()
            .map(|r| pick(&r[..k - 1]) as f64)
            .filter(|x| x.is_finite())
            .map(|x| x.abs())
            .sum()
    };
    let rmin = |r: &[f32]| r.iter().cloned().fold(f32::INFINITY, f32::min);
    let rmax = |r: &[f32]| r.iter().cloned().fold(f32::NEG_INFINITY, f32::max);
    let tmin = pm::sum_bound(m, abs_of(&rmin));
    let tmax = pm::sum_bound(m, abs_of(&rmax));

    // all wildcard-free windows, concatenated, scored once by the library's generic pipeline
    let nwin = ((k - 1) as u64).pow(m as u32);
    let mut seq: Vec<u8> = Vec::with_capacity(nwin as usize * m);
    for w in 0..nwin {
        seq.extend(pm::nth_word(w, m, k - 1));
    }
    let syms = pm::to_symbols::<A>(&seq);
    let lib: Vec<f32> = match catch(|| {
        let g = Pipeline::<A, Generic>::generic();
        let mut st: StripedSequence<A, U32> = g.stripe(&syms);
        st.configure(sb);
        let mut sc = StripedScores::<f32, U32>::empty();
        g.score_into(sb, &st, &mut sc);
        sc.unstripe().to_vec()
    }) {
        Ok(v) => v,
        Err(p) => {
            push(
                fails,
                format!("bounds scoring panic {}", panic_class(&p)),
                format!("scoring the window sequence panicked: {}", p),
            );
            return 0;
        }
    };
    if lib.len() != seq.len() - m + 1 {
        push(
            fails,
            "bounds scoring length".into(),
            format!(
                "scoring a sequence of {} symbols with M={} gave {} scores",
                seq.len(),
                m,
                lib.len()
            ),
        );
        return 0;
    }
    for w in 0..nwin as usize {
        let word = &seq[w * m..(w + 1) * m];
        let mut exact = 0f64;
        let mut abs = 0f64;
        let mut ninf = false;
        for (i, &s) in word.iter().enumerate() {
            let t = cells[i][s as usize];
            if t == f32::NEG_INFINITY {
                ninf = true;
            } else {
                exact += t as f64;
                abs += (t as f64).abs();
            }
        }
        if ninf {
            exact = f64::NEG_INFINITY;
        }
        let tw = pm::sum_bound(m, abs);
        let text = pm::ranks_to_text(pm::letters_of(alpha), word);
        // exact window score against the reported bounds
        let low_ok = if exact == f64::NEG_INFINITY {
            min_got == f32::NEG_INFINITY
        } else {
            (min_got as f64) - tmin <= exact
        };
        if !low_ok {
            push(
                fails,
                "window below min_score".into(),
                format!("window {:?} scores {:.9e} (exact sum of the matrix cells), min_score() = {:?} (summation allowance {:.3e})", text, exact, min_got, tmin),
            );
        }
        if !(exact <= (max_got as f64) + tmax) {
            push(
                fails,
                "window above max_score".into(),
                format!("window {:?} scores {:.9e} (exact sum of the matrix cells), max_score() = {:?} (summation allowance {:.3e})", text, exact, max_got, tmax),
            );
        }
        // the library's own f32 score of that window
        let s = lib[w * m];
        let s_low = if s == f32::NEG_INFINITY {
            min_got == f32::NEG_INFINITY
        } else {
            (min_got as f64) - tmin - tw <= s as f64
        };
        // The library's f32 score and the two reported bounds are the same left-to-right f32 sum over rows
        // (0 + row 0 + row 1 + ...) of cells that are ordered row by row; rounding to nearest is monotone, so
        // the comparison holds bit for bit, with no allowance (seeded change C09-u: bounds accumulated in f64
        // and rounded once are exceeded by the f32 score of the extreme window by an ulp).
        if !s.is_nan() && s_low && (s as f64) <= (max_got as f64) + tmax + tw && !(min_got <= s && s <= max_got) {
            push(
                fails,
                "library window score strictly outside [min_score, max_score]".into(),
                format!("window {:?}: generic pipeline scores {:?} (bits {:#010x}), min_score() = {:?} ({:#010x}), max_score() = {:?} ({:#010x}): same f32 summation order, so no allowance applies", text, s, s.to_bits(), min_got, min_got.to_bits(), max_got, max_got.to_bits()),
            );
        }
        if s.is_nan() || !s_low || !((s as f64) <= (max_got as f64) + tmax + tw) {
            push(
                fails,
                "library window score outside [min_score, max_score]".into(),
                format!("window {:?}: generic pipeline scores {:?}, min_score() = {:?}, max_score() = {:?} (allowance {:.3e})", text, s, min_got, max_got, tmin.max(tmax) + tw),
            );
        }
    }
    nwin
}

pub fn check_conv<A: Alphabet>(c: &ConvCase, fails: &mut Fails) -> ConvOutcome {
    let k = pm::k_of::<A>();
    let alpha = c.alpha;
    let pv = c.pseudo.reference(k);
    let bref32 = c.bg.reference(k);
    let b: Vec<f64> = bref32.iter().map(|&x| x as f64).collect();
    let b0_32 = BgSpec::Uniform.reference(k);
    let b0: Vec<f64> = b0_32.iter().map(|&x| x as f64).collect();
    let base = c.base as f64;

    // --- inputs ------------------------------------------------------------------------------
    let (cm, bg) = match catch(|| (pm::count_matrix::<A>(&c.counts), c.bg.build::<A>())) {
        Ok((cm, Ok(bg))) => (cm, bg),
        Ok((_, Err(()))) => return ConvOutcome::BgRejected,
        Err(p) => {
            push(
                fails,
                format!("input construction panic {}", panic_class(&p)),
                format!("building the count matrix / background panicked: {}", p),
            );
            return ConvOutcome::Aborted;
        }
    };
    if bg.frequencies() != &bref32[..] {
        // f32 division is correctly rounded, so from_counts must give exactly count/total; new/uniform store their input
        push(
            fails,
            "background frequencies".into(),
            format!(
                "background built from {:?} holds {:?}, expected {:?}",
                c.bg,
                bg.frequencies(),
                bref32
            ),
        );
        return ConvOutcome::Aborted;
    }
    if pm::cells_u32(&cm) != c.counts {
        push(
            fails,
            "CountMatrix::new cells".into(),
            format!(
                "CountMatrix::new holds {:?}, given {:?}",
                pm::cells_u32(&cm),
                c.counts
            ),
        );
        return ConvOutcome::Aborted;
    }
    let rf_opt = pm::ref_freq(&c.counts, &pv);
    if rf_opt.iter().any(|r| r.is_none()) {
        return ConvOutcome::OutOfDomain;
    }
    let rf: Vec<Vec<f64>> = rf_opt.into_iter().map(|r| r.unwrap()).collect();

    // --- frequencies -------------------------------------------------------------------------
    let freq: FrequencyMatrix<A> = match catch(|| c.pseudo.to_freq(&cm)) {
        Ok(f) => f,
        Err(p) => {
            push(
                fails,
                format!("to_freq panic {}", panic_class(&p)),
                format!("to_freq panicked: {}", p),
            );
            return ConvOutcome::Aborted;
        }
    };
    let fc = pm::cells_freq(&freq);
    if fc.len() != rf.len() {
        push(
            fails,
            "to_freq rows".into(),
            format!("to_freq gave {} rows, expected {}", fc.len(), rf.len()),
        );
        return ConvOutcome::Aborted;
    }
    let frel = pm::tol_freq_rel(k);
    for (i, row) in rf.iter().enumerate() {
        for j in 0..k {
            if let Err(class) = pm::close(fc[i][j], row[j], frel * row[j]) {
                push(
                    fails,
                    format!("to_freq cell: {}", class),
                    format!(
                        "to_freq: frequency[{}][{}] = {:?}, (count+pseudocount)/row total = ({}+{})/{} = {:.9e} (tolerance {:.3e})",
                        i,
                        letter(alpha, j),
                        fc[i][j],
                        c.counts[i][j],
                        pv[j],
                        c.counts[i].iter().zip(&pv).map(|(&x, &p)| x as f64 + p).sum::<f64>(),
                        row[j],
                        frel * row[j]
                    ),
                );
            }
        }
        // each cell is within frel (relative) of its exact value and the exact values sum to 1
        let s: f64 = fc[i].iter().map(|&x| x as f64).sum();
        if !((s - 1.0).abs() <= frel + 1e-15) {
            push(
                fails,
                "to_freq row sum".into(),
                format!(
                    "to_freq: row {} sums to {:.12} (allowance {:.3e})",
                    i, s, frel
                ),
            );
        }
    }

    // --- weights -----------------------------------------------------------------------------
    let stage = catch(|| {
        let w = freq.to_weight(bg.clone());
        let w0 = freq.to_weight(None);
        let wr = w0.rescale(bg.clone());
        (w, w0, wr)
    });
    let (w, w0, wr) = match stage {
        Ok(x) => x,
        Err(p) => {
            push(
                fails,
                format!("to_weight/rescale panic {}", panic_class(&p)),
                format!("to_weight / rescale panicked: {}", p),
            );
            return ConvOutcome::Aborted;
        }
    };
    if w.background().frequencies() != &bref32[..]
        || wr.background().frequencies() != &bref32[..]
        || w0.background().frequencies() != &b0_32[..]
    {
        push(
            fails,
            "weight matrix background".into(),
            format!(
                "backgrounds recorded in the weight matrices: to_weight(bg) {:?}, to_weight(None) {:?}, rescale(bg) {:?}; expected bg = {:?}",
                w.background().frequencies(),
                w0.background().frequencies(),
                wr.background().frequencies(),
                bref32
            ),
        );
    }
    check_weights(
        alpha,
        "to_weight(bg)",
        &pm::cells_weight(&w),
        &rf,
        &b,
        None,
        pm::tol_weight_rel(k),
        fails,
    );
    check_weights(
        alpha,
        "to_weight(None)",
        &pm::cells_weight(&w0),
        &rf,
        &b0,
        None,
        pm::tol_weight_rel(k),
        fails,
    );
    check_weights(
        alpha,
        "to_weight(None).rescale(bg)",
        &pm::cells_weight(&wr),
        &rf,
        &b,
        Some(&b0),
        pm::tol_rescaled_weight_rel(k),
        fails,
    );
    let lost_columns = (0..k).any(|j| b0[j] == 0.0 && b[j] != 0.0);

    // --- scores ------------------------------------------------------------------------------
    let eta = pm::tol_weight_rel(k);
    let eta_r = pm::tol_rescaled_weight_rel(k);
    if c.base == 2.0 {
        match catch(|| {
            (
                pm::cells_score(&freq.to_scoring(bg.clone())),
                pm::cells_score(&freq.clone().into_scoring(bg.clone())),
                pm::cells_score(&w.to_scoring()),
                pm::cells_score(&wr.to_scoring()),
            )
        }) {
            Ok((direct, into, two, three)) => {
                check_scores(
                    alpha,
                    "to_scoring(bg)",
                    "to_scoring(bg)",
                    &direct,
                    &rf,
                    &b,
                    None,
                    2.0,
                    eta,
                    fails,
                );
                check_scores(
                    alpha,
                    "into_scoring(bg)",
                    "into_scoring(bg)",
                    &into,
                    &rf,
                    &b,
                    None,
                    2.0,
                    eta,
                    fails,
                );
                check_scores(
                    alpha,
                    "to_weight(bg).to_scoring*",
                    "to_weight(bg).to_scoring()",
                    &two,
                    &rf,
                    &b,
                    None,
                    2.0,
                    eta,
                    fails,
                );
                check_scores(
                    alpha,
                    "to_weight(None).rescale(bg).to_scoring*",
                    "to_weight(None).rescale(bg).to_scoring()",
                    &three,
                    &rf,
                    &b,
                    Some(&b0),
                    2.0,
                    eta_r,
                    fails,
                );
            }
            Err(p) => push(
                fails,
                format!("to_scoring panic {}", panic_class(&p)),
                format!("a base-2 scoring route panicked: {}", p),
            ),
        }
    }
    let sb = match catch(|| {
        (
            w.to_scoring_with_base(c.base),
            pm::cells_score(&wr.to_scoring_with_base(c.base)),
        )
    }) {
        Ok((sb, three)) => {
            check_scores(
                alpha,
                "to_weight(bg).to_scoring*",
                "to_weight(bg).to_scoring_with_base(base)",
                &pm::cells_score(&sb),
                &rf,
                &b,
                None,
                base,
                eta,
                fails,
            );
            check_scores(
                alpha,
                "to_weight(None).rescale(bg).to_scoring*",
                "to_weight(None).rescale(bg).to_scoring_with_base(base)",
                &three,
                &rf,
                &b,
                Some(&b0),
                base,
                eta_r,
                fails,
            );
            sb
        }
        Err(p) => {
            push(
                fails,
                format!("to_scoring_with_base panic {}", panic_class(&p)),
                format!("to_scoring_with_base panicked: {}", p),
            );
            return ConvOutcome::Aborted;
        }
    };
    if sb.background().frequencies() != &bref32[..] {
        push(
            fails,
            "scoring matrix background".into(),
            format!(
                "scoring matrix records background {:?}, expected {:?}",
                sb.background().frequencies(),
                bref32
            ),
        );
    }

    // --- min / max ---------------------------------------------------------------------------
    let windows = check_bounds::<A>(alpha, &sb, fails);
    ConvOutcome::Checked {
        windows,
        lost_columns,
    }
}

const CONV_DESC: &str = "product: alphabet (dna, protein) x every count matrix of width 1..=3 (dna; thorough 1..=4) / 1..=2 (protein; thorough 1..=3) over the row menu \
    (dna 8 rows: single symbol, equal, skewed, 10^6-scale, wildcard count 2, wildcard only, all zero, wildcard-dominated with distinct counts; protein 4 rows) x 5 pseudocount specs (0, 0.1, 1, per-symbol, wildcard-only) \
    x 6 backgrounds (uniform, skewed, one/several non-wildcard zeros, non-zero wildcard, through new / from_counts, one frequency of 1e-8) x 7 bases (2, 10, e, 3, 1.5, 2.5, 9.5). On every point: to_freq cells and row sums, \
    to_weight(bg), to_weight(None), rescale(bg), and the score routes to_scoring(bg) / into_scoring(bg) / to_weight(bg).to_scoring() / to_weight(None).rescale(bg).to_scoring() (base 2 points) and \
    to_scoring_with_base(base) after to_weight(bg) and after rescale(bg), each against the f64 definitions with derived tolerances (exact for 0 / -inf). \
    non-trivial = every row total > 0 (in the domain) and the background was constructible; rows with total 0 (0/0) are skipped";

const BOUNDS_DESC: &str = "for every in-domain point of `conversions`: every one of the (K-1)^M wildcard-free windows of to_weight(bg).to_scoring_with_base(base); its exact score (f64 sum of the matrix cells) \
    and its score through the library's generic pipeline must lie in [min_score(), max_score()] up to the recursive-summation bound; one evaluation = one window; non-trivial = all";

fn run_conversions<A: Alphabet>(
    alpha: &'static str,
    ctx: &mut Ctx,
    rep: &mut Report,
    index: &mut u64,
) {
    pm::assert_wildcard_last::<A>();
    let dna = alpha == "dna";
    let rows = if dna {
        pm::dna_count_rows()
    } else {
        pm::protein_count_rows()
    };
    let pseudos = if dna {
        pm::dna_pseudos()
    } else {
        pm::protein_pseudos()
    };
    let bgs = if dna {
        pm::dna_backgrounds()
    } else {
        pm::protein_backgrounds()
    };
    let bases = pm::bases();
    let max_w = match (dna, ctx.quick()) {
        (true, true) => 3,
        (true, false) => 4,
        (false, true) => 2,
        (false, false) => 3,
    };
    let mats = pm::matrices_upto(rows.len(), max_w);
    rep.space("conversions", CONV_DESC);
    rep.space("score_bounds", BOUNDS_DESC);
    let mut out_of_domain = 0u64;
    let mut lost = false;
    for (mi, midx) in mats.iter().enumerate() {
        for (pi, ps) in pseudos.iter().enumerate() {
            for (bi, bs) in bgs.iter().enumerate() {
                for (ei, &base) in bases.iter().enumerate() {
                    let idx = *index;
                    *index += 1;
                    if !ctx.mine(idx) {
                        continue;
                    }
                    let case = ConvCase {
                        alpha,
                        counts: pm::pick_rows(&rows, midx),
                        pseudo: ps.clone(),
                        bg: bs.clone(),
                        base,
                    };
                    ctx.crumb(|| {
                        format!(
                            "C09 conversions {} matrix#{} pseudo#{} bg#{} base#{}",
                            alpha, mi, pi, bi, ei
                        )
                    });
                    let mut fails = Fails::new();
                    let outcome = check_conv::<A>(&case, &mut fails);
                    rep.space("conversions", CONV_DESC);
                    match outcome {
                        ConvOutcome::Checked {
                            windows,
                            lost_columns,
                        } => {
                            rep.eval_distinct(true);
                            lost |= lost_columns;
                            pm::bulk(rep, "score_bounds", windows, windows);
                        }
                        ConvOutcome::OutOfDomain => {
                            rep.eval_distinct(false);
                            out_of_domain += 1;
                        }
                        ConvOutcome::BgRejected => {
                            rep.eval_distinct(false);
                            rep.not_covered(format!("C09 {}: menu background {:?} was rejected by its constructor (acceptance is not demanded); its points were skipped", alpha, bs));
                        }
                        ConvOutcome::Aborted => rep.eval_distinct(true),
                    }
                    for (sig, msg) in fails {
                        rep.violation(format!("C09 {} {}", alpha, sig), msg, || case.json(&sig));
                    }
                    if (dna && mi == 9 && pi == 1 && bi == 1 && ei == 3)
                        || (!dna && mi == 6 && pi == 3 && bi == 1 && ei == 2)
                    {
                        rep.sample_space(2, || case.json("sample"));
                    }
                }
            }
        }
        if ctx.out_of_time() {
            rep.cap(format!(
                "conversions/{}: wall-clock cap at matrix #{} of {}",
                alpha,
                mi,
                mats.len()
            ));
            break;
        }
    }
    if out_of_domain > 0 {
        rep.note(format!(
            "C09 {}: points whose count+pseudocount row total is 0 (0/0) are outside the domain of the statement and were skipped (counted as trivial evaluations)",
            alpha
        ));
    }
    if lost {
        rep.note(format!(
            "C09 {}: in the rescale route, columns whose old background is 0 and new background is not (the wildcard under a non-zero wildcard frequency) are not compared: to_weight(None) has set them to 0 by convention, so no rescale can recover the frequency",
            alpha
        ));
    }
}

// ---------------------------------------------------------------------------
// from_sequences
// ---------------------------------------------------------------------------

fn seqs_json(seqs: &[Vec<u8>]) -> Value {
    json!({
        "kind": "from_sequences",
        "alphabet": "dna",
        "sequences": seqs,
        "texts": seqs.iter().map(|s| pm::ranks_to_text(pm::DNA_LETTERS, s)).collect::<Vec<_>>(),
    })
}

fn check_from_sequences(seqs: &[Vec<u8>], fails: &mut Fails) {
    let res = catch(|| {
        let enc: Vec<EncodedSequence<Dna>> = seqs
            .iter()
            .map(|s| EncodedSequence::<Dna>::new(pm::to_symbols::<Dna>(s)))
            .collect();
        CountMatrix::<Dna>::from_sequences(enc)
            .map(|m| pm::cells_u32(&m))
            .map_err(|_| ())
    });
    let equal = seqs.windows(2).all(|w| w[0].len() == w[1].len());
    match (equal, res) {
        (_, Err(p)) => push(fails, format!("from_sequences panic {}", panic_class(&p)), format!("from_sequences panicked: {}", p)),
        (false, Ok(Ok(_))) => push(
            fails,
            "from_sequences accepts unequal lengths".into(),
            format!("from_sequences accepted sequences of lengths {:?}", seqs.iter().map(|s| s.len()).collect::<Vec<_>>()),
        ),
        (false, Ok(Err(()))) => {}
        (true, Ok(Err(()))) => push(fails, "from_sequences rejects equal-length sequences".into(), "from_sequences returned Err for equal-length sequences, so no count matrix could be built".to_string()),
        (true, Ok(Ok(cells))) => {
            let len = seqs.first().map(|s| s.len()).unwrap_or(0);
            let mut want = vec![vec![0u32; 5]; len];
            for s in seqs {
                for (i, &x) in s.iter().enumerate() {
                    want[i][x as usize] += 1;
                }
            }
            if cells != want {
                push(fails, "from_sequences counts".into(), format!("from_sequences counted {:?}, the occurrences are {:?}", cells, want));
            }
        }
    }
}

fn run_from_sequences(ctx: &mut Ctx, rep: &mut Report, index: &mut u64) {
    rep.space(
        "from_sequences",
        "every ordered tuple of 0..=3 DNA sequences of length 0..=2 over the 5 symbols (31 sequences; 1+31+31^2+31^3 tuples, which covers every multiset in every order, unequal lengths included); \
         thorough adds all 4-tuples of length <= 2 and all 3-tuples of length <= 3. Oracle: Err whenever two lengths differ; for equal lengths a matrix holding exactly the occurrence counts. \
         non-trivial = unequal lengths, or at least one non-empty sequence",
    );
    let mut plans: Vec<(usize, usize)> = vec![(2, 0), (2, 1), (2, 2), (2, 3)];
    if !ctx.quick() {
        plans.push((2, 4));
        plans.push((3, 3));
    }
    for (max_len, n) in plans {
        let words = pm::all_words_upto(max_len, 5);
        let nw = words.len() as u64;
        let total = nw.pow(n as u32);
        for t in 0..total {
            let idx = *index;
            *index += 1;
            if !ctx.mine(idx) {
                continue;
            }
            let mut r = t;
            let mut seqs: Vec<Vec<u8>> = Vec::with_capacity(n);
            let mut picks = vec![0usize; n];
            for p in (0..n).rev() {
                picks[p] = (r % nw) as usize;
                r /= nw;
            }
            for &p in &picks {
                seqs.push(words[p].clone());
            }
            if max_len == 3 && seqs.iter().all(|s| s.len() <= 2) {
                // already enumerated by the (2, 3) plan
                continue;
            }
            let equal = seqs.windows(2).all(|w| w[0].len() == w[1].len());
            let mut fails = Fails::new();
            check_from_sequences(&seqs, &mut fails);
            rep.eval_distinct(!equal || seqs.iter().any(|s| !s.is_empty()));
            for (sig, msg) in fails {
                rep.violation(format!("C09 dna {}", sig), msg, || seqs_json(&seqs));
            }
            if n == 3
                && max_len == 2
                && (t == 7 * nw * nw + 12 * nw + 29 || t == 3 * nw * nw + 22 * nw)
            {
                rep.sample_space(2, || seqs_json(&seqs));
            }
            if t % 65536 == 0 && ctx.out_of_time() {
                rep.cap(format!(
                    "from_sequences: wall-clock cap in the {}-tuples of length <= {}",
                    n, max_len
                ));
                return;
            }
        }
    }
}

// ---------------------------------------------------------------------------
// background validation
// ---------------------------------------------------------------------------

/// DESIGN lists {-0.1, 0, .25, .5, 1, 1.1, NaN}; -0.25 and 1.25 are added because with that menu no array
/// with an out-of-range entry sums to one, so the range test would never be the deciding one
/// ((-0.25, .25, .5, .5, 0) sums to exactly 1 and must still be rejected).
const NEW_VALUES: [f32; 9] = [-0.25, -0.1, 0.0, 0.25, 0.5, 1.0, 1.1, 1.25, f32::NAN];
const NV: usize = NEW_VALUES.len();

/// Why an array is not a valid background, or None.  In-range menu values are
/// dyadic, so the f64 sum is exact and `!= 1` is decidable.
fn invalid_class(arr: &[f32]) -> Option<&'static str> {
    if arr.iter().any(|x| x.is_nan()) {
        return Some("NaN entry");
    }
    if arr.iter().any(|&x| x < 0.0) {
        return Some("negative entry");
    }
    if arr.iter().any(|&x| x > 1.0) {
        return Some("entry above one");
    }
    for &x in arr {
        assert!(
            (x as f64 * 1024.0).fract() == 0.0,
            "harness: in-range menu values must be dyadic"
        );
    }
    let s: f64 = arr.iter().map(|&x| x as f64).sum();
    if s != 1.0 {
        return Some("sum is not one");
    }
    None
}

fn bg_new_json(alpha: &str, arr: &[f32]) -> Value {
    json!({"kind": "background_new", "alphabet": alpha, "frequencies": pm::f32s_to_json(arr)})
}

/// Returns Some(accepted) for valid arrays (acceptance is recorded, not demanded).
fn check_bg_new<A: Alphabet>(arr: &[f32], fails: &mut Fails) -> Option<bool> {
    let res = catch(|| {
        let ga: GenericArray<f32, A::K> = arr.iter().cloned().collect();
        Background::<A>::new(ga)
            .map(|b| b.frequencies().to_vec())
            .map_err(|_| ())
    });
    let class = invalid_class(arr);
    match (class, res) {
        (_, Err(p)) => {
            push(
                fails,
                format!("Background::new panic {}", panic_class(&p)),
                format!("Background::new panicked: {}", p),
            );
            None
        }
        (Some(c), Ok(Ok(_))) => {
            push(
                fails,
                format!("Background::new accepts invalid: {}", c),
                format!("Background::new accepted {:?} ({})", arr, c),
            );
            None
        }
        (Some(_), Ok(Err(()))) => None,
        (None, Ok(Err(()))) => {
            // a background whose entries are multiples of 1/16 in [0,1] and add up to one is valid under every
            // reading (its sum is exact in f32 in any order): the conversions are stated for ANY valid background,
            // so it must be constructible
            if arr.iter().all(|&x| (x * 16.0).fract() == 0.0) {
                push(
                    fails,
                    "Background::new rejects valid".into(),
                    format!("Background::new rejected {:?}: every entry is in [0,1] and the entries (multiples of 1/16) add up to exactly one", arr),
                );
            }
            Some(false)
        }
        (None, Ok(Ok(fr))) => {
            if fr != arr {
                push(
                    fails,
                    "Background::new frequencies".into(),
                    format!("Background::new({:?}) holds {:?}", arr, fr),
                );
            }
            Some(true)
        }
    }
}

fn counts_json(alpha: &str, counts: &[usize]) -> Value {
    json!({"kind": "background_from_counts", "alphabet": alpha, "counts": counts})
}

/// A background obtained from counts must be valid and equal counts/total (one f32 rounding => relative 2u allowed).
fn check_bg_values(what: &str, got: &[f32], counts: &[usize], fails: &mut Fails) {
    let total: usize = counts.iter().sum();
    let mut s = 0f64;
    for (j, (&g, &c)) in got.iter().zip(counts).enumerate() {
        let e = c as f64 / total as f64;
        s += g as f64;
        if !(0.0..=1.0).contains(&g) || ((g as f64) - e).abs() > 2.0 * pm::U * e {
            push(
                fails,
                format!("{} frequencies", what),
                format!(
                    "{}: frequency {} is {:?}, counts {:?} give {:.9e}",
                    what, j, g, counts, e
                ),
            );
        }
    }
    if (s - 1.0).abs() > pm::gamma(2) {
        push(
            fails,
            format!("{} sum", what),
            format!("{}: frequencies {:?} sum to {:.12}", what, got, s),
        );
    }
}

fn check_bg_from_counts<A: Alphabet>(counts: &[usize], fails: &mut Fails) {
    let res = catch(|| {
        let ga: GenericArray<usize, A::K> = counts.iter().cloned().collect();
        Background::<A>::from_counts(&ga)
            .map(|b| b.frequencies().to_vec())
            .map_err(|_| ())
    });
    let total: usize = counts.iter().sum();
    match res {
        Err(p) => push(
            fails,
            format!("Background::from_counts panic {}", panic_class(&p)),
            format!("from_counts panicked: {}", p),
        ),
        Ok(Ok(fr)) => {
            if total == 0 {
                push(fails, "Background::from_counts accepts all-zero counts".into(), format!("from_counts accepted all-zero counts and holds {:?}, which cannot sum to one", fr));
            } else {
                check_bg_values("Background::from_counts", &fr, counts, fails);
            }
        }
        Ok(Err(())) => {}
    }
}

fn bg_seq_json(seqs: &[Vec<u8>], unknown: bool, plural: bool) -> Value {
    json!({
        "kind": "background_from_sequence",
        "alphabet": "dna",
        "sequences": seqs,
        "texts": seqs.iter().map(|s| pm::ranks_to_text(pm::DNA_LETTERS, s)).collect::<Vec<_>>(),
        "unknown": unknown,
        "plural": plural,
    })
}

fn check_bg_from_sequence(seqs: &[Vec<u8>], unknown: bool, plural: bool, fails: &mut Fails) {
    let syms: Vec<Vec<<Dna as Alphabet>::Symbol>> =
        seqs.iter().map(|s| pm::to_symbols::<Dna>(s)).collect();
    let res = catch(|| {
        let r = if plural {
            Background::<Dna>::from_sequences(syms.iter().map(|s| &s[..]), unknown)
        } else {
            Background::<Dna>::from_sequence(&syms[0][..], unknown)
        };
        r.map(|b| b.frequencies().to_vec()).map_err(|_| ())
    });
    let mut counts = vec![0usize; 5];
    for s in seqs {
        for &x in s {
            if unknown || x != 4 {
                counts[x as usize] += 1;
            }
        }
    }
    let total: usize = counts.iter().sum();
    let what = if plural {
        "Background::from_sequences"
    } else {
        "Background::from_sequence"
    };
    match res {
        Err(p) => push(
            fails,
            format!("{} panic {}", what, panic_class(&p)),
            format!("{} panicked: {}", what, p),
        ),
        Ok(Ok(fr)) => {
            if total == 0 {
                push(
                    fails,
                    format!("{} accepts zero counted symbols", what),
                    format!(
                        "{} accepted input with no counted symbol and holds {:?}",
                        what, fr
                    ),
                );
            } else {
                check_bg_values(what, &fr, &counts, fails);
            }
        }
        Ok(Err(())) => {}
    }
}

fn run_background(ctx: &mut Ctx, rep: &mut Report, index: &mut u64) {
    rep.space(
        "background_validation",
        "Background::<Dna>::new on all 9^5 = 59049 arrays over {-0.25, -0.1, 0, .25, .5, 1, 1.1, 1.25, NaN} (so that arrays with a negative entry that still sum to exactly one exist); Background::<Protein>::new on two valid dyadic bases \
         (sixteen 1/16; (.5,.25,.25,0,...)) with every single position and every pair of positions replaced by every menu value (2 x (189 + 17010) arrays); from_counts on all {0,1,2,5}^5 DNA count arrays and on protein arrays with <= 2 non-zero positions from {1,3}; from_sequence on every DNA \
         sequence of length <= 4 and from_sequences on every ordered pair of sequences of length <= 2, both with unknown = false/true. Oracle: every array with an entry outside [0,1] / NaN or an (exactly computed) \
         sum != 1 must be rejected, zero counted symbols must be rejected; accepted backgrounds from counts must equal count/total. Acceptance is demanded only of arrays whose entries are multiples of 1/16 in [0,1] adding up to exactly one (valid under every reading, one-symbol backgrounds included); for other valid input it is recorded but not demanded. \
         non-trivial = inputs whose rejection is demanded, and count inputs with a positive total",
    );
    let mut valid_rejected = false;
    // --- Background::<Dna>::new: all 7^5 --------------------------------------------------------
    for i in 0..(NV as u64).pow(5) {
        let idx = *index;
        *index += 1;
        if !ctx.mine(idx) {
            continue;
        }
        let arr: Vec<f32> = pm::nth_word(i, 5, NV)
            .iter()
            .map(|&d| NEW_VALUES[d as usize])
            .collect();
        let mut fails = Fails::new();
        let r = check_bg_new::<Dna>(&arr, &mut fails);
        rep.eval_distinct(invalid_class(&arr).is_some());
        if r == Some(false) {
            valid_rejected = true;
        }
        rep.outcome(match r {
            None => 0,
            Some(true) => 1,
            Some(false) => 2,
        });
        for (sig, msg) in fails {
            rep.violation(format!("C09 dna {}", sig), msg, || bg_new_json("dna", &arr));
        }
        if arr == [-0.25, 0.25, 0.5, 0.5, 0.0] || arr == [0.25, 0.25, 0.25, 0.25, 0.0] {
            rep.sample_space(2, || bg_new_json("dna", &arr));
        }
    }
    // --- Background::<Protein>::new: single and double substitutions on a valid base --------------
    let mut base16 = vec![0.0625f32; 21];
    for j in [1usize, 7, 12, 19, 20] {
        base16[j] = 0.0;
    }
    let mut base3 = vec![0.0f32; 21];
    base3[0] = 0.5;
    base3[1] = 0.25;
    base3[2] = 0.25;
    assert!(invalid_class(&base16).is_none() && invalid_class(&base3).is_none());
    for base in [&base16, &base3] {
        for p in 0..21usize {
            for q in p..21usize {
                for vi in 0..NV {
                    for vj in 0..(if p == q { 1 } else { NV }) {
                        let idx = *index;
                        *index += 1;
                        if !ctx.mine(idx) {
                            continue;
                        }
                        let mut arr = base.clone();
                        arr[p] = NEW_VALUES[vi];
                        if q != p {
                            arr[q] = NEW_VALUES[vj];
                        }
                        let mut fails = Fails::new();
                        let r = check_bg_new::<Protein>(&arr, &mut fails);
                        rep.eval_distinct(invalid_class(&arr).is_some());
                        if r == Some(false) {
                            valid_rejected = true;
                        }
                        for (sig, msg) in fails {
                            rep.violation(format!("C09 protein {}", sig), msg, || {
                                bg_new_json("protein", &arr)
                            });
                        }
                    }
                }
            }
        }
    }
    if ctx.out_of_time() {
        rep.cap("background_validation: wall-clock cap after Background::new");
        return;
    }
    // --- from_counts ------------------------------------------------------------------------------
    let cvals = [0usize, 1, 2, 5];
    for i in 0..4u64.pow(5) {
        let idx = *index;
        *index += 1;
        if !ctx.mine(idx) {
            continue;
        }
        let counts: Vec<usize> = pm::nth_word(i, 5, 4)
            .iter()
            .map(|&d| cvals[d as usize])
            .collect();
        let mut fails = Fails::new();
        check_bg_from_counts::<Dna>(&counts, &mut fails);
        rep.eval_distinct(true);
        for (sig, msg) in fails {
            rep.violation(format!("C09 dna {}", sig), msg, || {
                counts_json("dna", &counts)
            });
        }
        if i == 0 {
            rep.sample_space(2, || counts_json("dna", &counts));
        }
    }
    {
        let mut arrays: Vec<Vec<usize>> = vec![vec![0usize; 21]];
        for p in 0..21usize {
            for &v in &[1usize, 3] {
                let mut a = vec![0usize; 21];
                a[p] = v;
                arrays.push(a);
            }
            for q in p + 1..21 {
                for &v in &[1usize, 3] {
                    for &w in &[1usize, 3] {
                        let mut a = vec![0usize; 21];
                        a[p] = v;
                        a[q] = w;
                        arrays.push(a);
                    }
                }
            }
        }
        for counts in arrays {
            let idx = *index;
            *index += 1;
            if !ctx.mine(idx) {
                continue;
            }
            let mut fails = Fails::new();
            check_bg_from_counts::<Protein>(&counts, &mut fails);
            rep.eval_distinct(true);
            for (sig, msg) in fails {
                rep.violation(format!("C09 protein {}", sig), msg, || {
                    counts_json("protein", &counts)
                });
            }
        }
    }
    // --- from_sequence / from_sequences -----------------------------------------------------------
    let words4 = pm::all_words_upto(4, 5);
    for s in &words4 {
        for unknown in [false, true] {
            let idx = *index;
            *index += 1;
            if !ctx.mine(idx) {
                continue;
            }
            let seqs = vec![s.clone()];
            let mut fails = Fails::new();
            check_bg_from_sequence(&seqs, unknown, false, &mut fails);
            rep.eval_distinct(true);
            for (sig, msg) in fails {
                rep.violation(format!("C09 dna {}", sig), msg, || {
                    bg_seq_json(&seqs, unknown, false)
                });
            }
        }
    }
    let words2 = pm::all_words_upto(2, 5);
    for a in &words2 {
        for b in &words2 {
            for unknown in [false, true] {
                let idx = *index;
                *index += 1;
                if !ctx.mine(idx) {
                    continue;
                }
                let seqs = vec![a.clone(), b.clone()];
                let mut fails = Fails::new();
                check_bg_from_sequence(&seqs, unknown, true, &mut fails);
                rep.eval_distinct(true);
                for (sig, msg) in fails {
                    rep.violation(format!("C09 dna {}", sig), msg, || {
                        bg_seq_json(&seqs, unknown, true)
                    });
                }
            }
        }
    }
    if valid_rejected {
        rep.note("C09: Background::new rejected at least one exactly-valid array of the menu (acceptance is not demanded by the statement; recorded only)");
    }
}

// ---------------------------------------------------------------------------
// FrequencyMatrix::new
// ---------------------------------------------------------------------------

fn freq_new_json(alpha: &str, rows: &[Vec<f32>]) -> Value {
    json!({"kind": "frequency_new", "alphabet": alpha, "rows": pm::matrix_to_json(rows)})
}

/// The library documents a tolerance of 0.01 on the row sum.  The f32 row sum is within
/// gamma_{K-1} * sum|x| (< 3e-6 here) of the exact sum of the f32 entries, so a row whose exact
/// deviation exceeds 0.0105 is "not summing to one" under any reading and must be rejected;
/// nothing is demanded below that.
const MUST_REJECT_DEV: f64 = 0.0105;

fn check_freq_new<A: Alphabet>(rows: &[Vec<f32>], fails: &mut Fails) -> bool {
    let devs: Vec<f64> = rows
        .iter()
        .map(|r| (r.iter().map(|&x| x as f64).sum::<f64>() - 1.0).abs())
        .collect();
    // a row containing NaN (or +inf and -inf) has no sum at all: it does not sum to one either
    let must_reject = devs.iter().any(|&d| d.is_nan() || d > MUST_REJECT_DEV);
    match catch(|| FrequencyMatrix::<A>::new(pm::dense_f32::<A>(rows)).is_ok()) {
        Err(p) => push(
            fails,
            format!("FrequencyMatrix::new panic {}", panic_class(&p)),
            format!("FrequencyMatrix::new panicked: {}", p),
        ),
        Ok(true) if must_reject => push(
            fails,
            "FrequencyMatrix::new accepts a row not summing to one".into(),
            format!(
                "FrequencyMatrix::new accepted rows whose sums deviate from 1 by {:?}",
                devs
            ),
        ),
        _ => {}
    }
    must_reject
}

fn run_frequency_new(ctx: &mut Ctx, rep: &mut Report, index: &mut u64) {
    rep.space(
        "frequency_new",
        "FrequencyMatrix::new on matrices of 1..=3 rows (dna) / 1..=2 rows (protein) in which one row (every position) is a base row (dna: uniform, one-hot, skewed, all-0.2; protein: 1/20, sixteen 1/16) with \
         d in {0, +-.005, +-.011, +-.5, NaN, +inf, -inf} added to one column (every column; NaN / infinities make the row sum NaN or infinite), the other rows being valid. Oracle: rejection is demanded when the exact deviation of a row sum exceeds 0.0105 \
         (documented tolerance 0.01 plus rounding); nothing is demanded otherwise. non-trivial = rejection demanded",
    );
    let devs: [f32; 10] = [0.0, 0.005, -0.005, 0.011, -0.011, 0.5, -0.5, f32::NAN, f32::INFINITY, f32::NEG_INFINITY];
    fn go<A: Alphabet>(
        alpha: &'static str,
        bases: &[Vec<f32>],
        max_rows: usize,
        devs: &[f32],
        ctx: &mut Ctx,
        rep: &mut Report,
        index: &mut u64,
    ) {
        let k = pm::k_of::<A>();
        for (bi, b) in bases.iter().enumerate() {
            for col in 0..k {
                for (di, &d) in devs.iter().enumerate() {
                    for nrows in 1..=max_rows {
                        for pos in 0..nrows {
                            let idx = *index;
                            *index += 1;
                            if !ctx.mine(idx) {
                                continue;
                            }
                            let mut bad = b.clone();
                            bad[col] += d;
                            let rows: Vec<Vec<f32>> = (0..nrows)
                                .map(|r| {
                                    if r == pos {
                                        bad.clone()
                                    } else {
                                        bases[0].clone()
                                    }
                                })
                                .collect();
                            let mut fails = Fails::new();
                            let demanded = check_freq_new::<A>(&rows, &mut fails);
                            rep.eval_distinct(demanded);
                            for (sig, msg) in fails {
                                rep.violation(format!("C09 {} {}", alpha, sig), msg, || {
                                    freq_new_json(alpha, &rows)
                                });
                            }
                            if bi == 2 && col == 1 && di == 3 && nrows == 2 && pos == 1 {
                                rep.sample_space(1, || freq_new_json(alpha, &rows));
                            }
                        }
                    }
                }
            }
        }
    }
    let dna_bases = vec![
        vec![0.25, 0.25, 0.25, 0.25, 0.0],
        vec![1.0, 0.0, 0.0, 0.0, 0.0],
        vec![0.1, 0.2, 0.3, 0.4, 0.0],
        vec![0.2; 5],
    ];
    go::<Dna>("dna", &dna_bases, 3, &devs, ctx, rep, index);
    let mut p_uniform = vec![0.05f32; 21];
    p_uniform[20] = 0.0;
    let mut p_dyadic = vec![0.0625f32; 21];
    for j in [1usize, 7, 12, 19, 20] {
        p_dyadic[j] = 0.0;
    }
    go::<Protein>("protein", &[p_uniform, p_dyadic], 2, &devs, ctx, rep, index);
}

// ---------------------------------------------------------------------------
// the other implementation of the count -> frequency conversion: TRANSFAC records (lightmotif-io)
// ---------------------------------------------------------------------------

/// Rows of a TRANSFAC matrix block in the order A C T G (the alphabet's own order); fractional values are what
/// rescaled TRANSFAC matrices hold.
const TF_ROWS: [[f32; 4]; 8] = [
    [1.0, 2.0, 3.0, 4.0],
    [0.0, 0.0, 0.0, 0.0],
    [10.0, 0.0, 0.0, 0.0],
    [0.5, 1.5, 2.0, 0.25],
    [0.1, 0.2, 0.3, 0.4],
    [1000000.0, 3.0, 3.0, 1.0],
    [7.0, 7.0, 7.0, 7.0],
    [0.0, 0.0, 2.5, 0.0],
];

fn tf_text(rows: &[[f32; 4]]) -> String {
    let mut t = String::from("ID x\nP0 A C T G\n");
    for (i, r) in rows.iter().enumerate() {
        t.push_str(&format!("{:02} {} {} {} {}\n", i + 1, r[0], r[1], r[2], r[3]));
    }
    t.push_str("//\n");
    t
}

fn tf_json(rows: &[[f32; 4]], ps: &pm::PseudoSpec) -> Value {
    json!({"kind": "transfac_record", "alphabet": "dna", "rows": rows.iter().map(|r| pm::f32s_to_json(r)).collect::<Vec<_>>(), "pseudocount": ps.json(), "text": tf_text(rows)})
}

fn check_transfac_record(rows: &[[f32; 4]], ps: &pm::PseudoSpec, fails: &mut Fails) {
    let text = tf_text(rows);
    let rec = match catch(|| lightmotif_io::transfac::read::<_, Dna>(std::io::Cursor::new(text.clone().into_bytes())).next()) {
        Ok(Some(Ok(r))) => r,
        other => {
            push(fails, "transfac record unreadable".into(), format!("the generated record did not load: {:?}", other.map(|o| o.map(|r| r.map(|_| ()).map_err(|e| format!("{:?}", e))))));
            return;
        }
    };
    let integral = rows.iter().all(|r| r.iter().all(|x| x.fract() == 0.0));
    // to_counts: the counts as written when they are counts, None otherwise
    match catch(|| rec.to_counts().map(|c| c.matrix().iter().map(|r| r.to_vec()).collect::<Vec<_>>())) {
        Err(p) => push(fails, format!("transfac to_counts panic {}", panic_class(&p)), format!("Record::to_counts panicked: {}", p)),
        Ok(got) => {
            let want: Option<Vec<Vec<u32>>> = if integral { Some(rows.iter().map(|r| vec![r[0] as u32, r[1] as u32, r[2] as u32, r[3] as u32, 0]).collect()) } else { None };
            if got != want {
                push(fails, "transfac to_counts".into(), format!("Record::to_counts() = {:?}, expected {:?}", got, want));
            }
        }
    }
    // to_freq: (value + pseudocount) / row total, row by row
    let p = ps.reference(5);
    let got = catch(|| match ps {
        pm::PseudoSpec::Scalar(x) => rec.to_freq(*x),
        pm::PseudoSpec::PerSymbol(v) => {
            let arr: GenericArray<f32, <Dna as Alphabet>::K> = v.iter().cloned().collect();
            rec.to_freq(arr)
        }
    }
    .map(|f| f.matrix().iter().map(|r| r.to_vec()).collect::<Vec<_>>()));
    let got = match got {
        Err(e) => {
            push(fails, format!("transfac to_freq panic {}", panic_class(&e)), format!("Record::to_freq panicked: {}", e));
            return;
        }
        Ok(g) => g,
    };
    let totals: Vec<f64> = rows.iter().map(|r| r.iter().map(|&x| x as f64).sum::<f64>() + p.iter().sum::<f64>()).collect();
    let defined = totals.iter().all(|&t| t > 0.0);
    match got {
        None => {
            if defined {
                push(fails, "transfac to_freq None".into(), format!("Record::to_freq returned None although every row has a positive total {:?}", totals));
            }
        }
        Some(m) => {
            for (i, row) in m.iter().enumerate() {
                if !defined && totals[i] <= 0.0 {
                    push(fails, "transfac to_freq of an empty row".into(), format!("row {} has total 0 (frequencies undefined) but to_freq returned the row {:?}", i, row));
                    return;
                }
                for j in 0..5 {
                    let v = if j < 4 { rows[i][j] as f64 } else { 0.0 };
                    let want = (v + p[j]) / totals[i];
                    if !((row[j] as f64 - want).abs() <= 4e-7 * want.abs().max(1e-30) + 1e-12) {
                        push(fails, "transfac to_freq wrong frequency".into(), format!("row {} column {}: {} but (value + pseudocount) / row total = {}", i, j, row[j], want));
                        return;
                    }
                }
            }
        }
    }
}

fn run_transfac_record(ctx: &mut Ctx, rep: &mut Report, index: &mut u64) {
    rep.space(
        "transfac_record",
        "the second implementation of count -> frequency in the workspace, lightmotif_io::transfac::Record::{to_counts, to_freq}: every TRANSFAC record of width 1..=2 over an 8-row menu (integer counts, an all-zero row, fractional values as in rescaled TRANSFAC matrices, 1e6-scale counts) \
         x pseudocounts {0, 0.1, 1, per-symbol}; the record is produced by the library's own reader from generated text; oracle: to_counts = the counts as written (None for fractional data); to_freq = (value + pseudocount) / row total cell by cell (relative 4e-7), \
         Some whenever every row total is positive; a row of total 0 must not come back as a row",
    );
    let pseudos = vec![pm::PseudoSpec::Scalar(0.0), pm::PseudoSpec::Scalar(0.1), pm::PseudoSpec::Scalar(1.0), pm::PseudoSpec::PerSymbol(vec![0.1, 0.2, 0.3, 0.4, 0.0])];
    let mut mats: Vec<Vec<[f32; 4]>> = TF_ROWS.iter().map(|r| vec![*r]).collect();
    for a in TF_ROWS {
        for b in TF_ROWS {
            mats.push(vec![a, b]);
        }
    }
    for rows in &mats {
        for ps in &pseudos {
            let idx = *index;
            *index += 1;
            if !ctx.mine(idx) {
                continue;
            }
            let mut fails = Fails::new();
            check_transfac_record(rows, ps, &mut fails);
            rep.eval_distinct(true);
            for (sig, msg) in fails {
                rep.violation(format!("C09 dna {}", sig), msg, || tf_json(rows, ps));
            }
        }
    }
}

// ---------------------------------------------------------------------------
// entry points
// ---------------------------------------------------------------------------

pub fn run(ctx: &mut Ctx, rep: &mut Report) {
    let mut index = 0u64;
    if ctx.wants("from_sequences") {
        run_from_sequences(ctx, rep, &mut index);
    }
    if ctx.wants("conversions") || ctx.wants("score_bounds") {
        run_conversions::<Dna>("dna", ctx, rep, &mut index);
        if !ctx.out_of_time() {
            run_conversions::<Protein>("protein", ctx, rep, &mut index);
        }
    }
    pm::report_slack("C09 conversions");
    if ctx.wants("background_validation") && !ctx.out_of_time() {
        run_background(ctx, rep, &mut index);
    }
    if ctx.wants("frequency_new") && !ctx.out_of_time() {
        run_frequency_new(ctx, rep, &mut index);
    }
    if ctx.wants("transfac_record") && !ctx.out_of_time() {
        run_transfac_record(ctx, rep, &mut index);
    }
}

pub fn replay(_ctx: &mut Ctx, rep: &mut Report, case: &Value) {
    rep.space("replay", "replay of one recorded case");
    let alpha = case["alphabet"].as_str().unwrap_or("dna").to_string();
    let dna = alpha == "dna";
    let mut fails = Fails::new();
    rep.eval_distinct(true);
    match case["kind"].as_str().unwrap() {
        "conversion" => {
            let c = ConvCase::from_json(case);
            if dna {
                check_conv::<Dna>(&c, &mut fails);
            } else {
                check_conv::<Protein>(&c, &mut fails);
            }
            for (sig, msg) in fails {
                rep.violation(format!("C09 {} {}", alpha, sig), msg, || c.json(&sig));
            }
            return;
        }
        "from_sequences" => {
            let seqs: Vec<Vec<u8>> = case["sequences"]
                .as_array()
                .unwrap()
                .iter()
                .map(pm::ranks_from_json)
                .collect();
            check_from_sequences(&seqs, &mut fails);
        }
        "background_new" => {
            let arr = pm::f32s_from_json(&case["frequencies"]);
            if dna {
                check_bg_new::<Dna>(&arr, &mut fails);
            } else {
                check_bg_new::<Protein>(&arr, &mut fails);
            }
        }
        "background_from_counts" => {
            let counts: Vec<usize> = case["counts"]
                .as_array()
                .unwrap()
                .iter()
                .map(|x| x.as_u64().unwrap() as usize)
                .collect();
            if dna {
                check_bg_from_counts::<Dna>(&counts, &mut fails);
            } else {
                check_bg_from_counts::<Protein>(&counts, &mut fails);
            }
        }
        "background_from_sequence" => {
            let seqs: Vec<Vec<u8>> = case["sequences"]
                .as_array()
                .unwrap()
                .iter()
                .map(pm::ranks_from_json)
                .collect();
            check_bg_from_sequence(
                &seqs,
                case["unknown"].as_bool().unwrap(),
                case["plural"].as_bool().unwrap(),
                &mut fails,
            );
        }
        "frequency_new" => {
            let rows = pm::matrix_from_json(&case["rows"]);
            if dna {
                check_freq_new::<Dna>(&rows, &mut fails);
            } else {
                check_freq_new::<Protein>(&rows, &mut fails);
            }
        }
        "transfac_record" => {
            let rows: Vec<[f32; 4]> = case["rows"].as_array().unwrap().iter().map(|r| { let v = pm::f32s_from_json(r); [v[0], v[1], v[2], v[3]] }).collect();
            let ps = pm::PseudoSpec::from_json(&case["pseudocount"]);
            check_transfac_record(&rows, &ps, &mut fails);
        }
        k => panic!("C09 replay: unknown case kind {}", k),
    }
    let mut c = case.clone();
    if let Value::Object(m) = &mut c {
        m.remove("property");
        m.remove("space");
    }
    for (sig, msg) in fails {
        rep.violation(format!("C09 {} {}", alpha, sig), msg, || c.clone());
    }
}
